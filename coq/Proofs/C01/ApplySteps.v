(* Machine steps of the apply forms: entering an expression body, applying an
   external value, applying data, and returning through EndExpression. *)
From Coq Require Import ZArith NArith List Bool Arith Lia.
From GV Require Import Base.Result Base.Host Gen.Instr Gen.Exec Model.Num Model.Value Model.Machine
  Model.CompileExpr Spec.Ast Spec.Eval Proofs.C01.MachineFacts Proofs.C01.OpRefine Proofs.C01.Steps.
Import ListNotations.

Section ApplySteps.
Variable hstate : Type.
Variable host : hstate -> host_call -> hstate * option val.
Hypothesis Hdef : declines_defer hstate host.
Variable P : program.

Notation St := (mkSt hstate).
Notation C := (code P).
Notation J := (jt P).

Ltac st_norm :=
  cbv beta iota delta [next_two next_ref push_bool push_unit push set_regs set_vals stay regs pc vals frames hs tr bind].

(* what the Apply / EmptyApply instruction hands to apply_internal *)
Definition apply_regs (ea : bool) (f x : val) (sg : list val) : list val :=
  if ea then f :: sg else x :: f :: sg.
Definition apply_instr (ea : bool) : instruction := if ea then I_EmptyApply else I_Apply.

Lemma step_apply_gen : forall (ea : bool) f x pcx sg vs fs h t s1 next,
  (ea = true -> x = VUnit) ->
  nth_error C pcx = Some (ins (apply_instr ea)) ->
  apply_internal hstate host P (apply_instr ea) (St pcx (x :: f :: sg) vs fs h t) = Ok (s1, Some next) ->
  next < length C ->
  Machine.step hstate host P (St pcx (apply_regs ea f x sg) vs fs h t) =
  SRun hstate (St next (regs s1) (vals s1) (frames s1) (hs s1) (tr s1)).
Proof.
  intros ea f x pcx sg vs fs h t s1 next Hx Hn Ha Hl.
  destruct ea.
  - rewrite (Hx eq_refl) in *.
    erewrite step_op with (next := Some next) (s1 := s1); eauto; try reflexivity;
      try (intros; discriminate); try (cbn [run_op]; exact Ha).
  - erewrite step_op with (next := Some next) (s1 := s1); eauto; try reflexivity;
      try (intros; discriminate); try (cbn [run_op]; exact Ha).
Qed.

(* entering an expression body *)
Lemma apply_expr : forall (i : instruction) lbl x pcb pcx sg vs fs h t,
  nth_error J (N.to_nat lbl) = Some pcb ->
  apply_internal hstate host P i (St pcx (x :: VExpr lbl :: sg) vs fs h t) =
  Ok (St pcx sg (x :: vs) ((S pcx, sg) :: fs) h t, Some pcb).
Proof.
  intros. unfold apply_internal. st_norm. cbn [type_of_val]. unfold jump_point. rewrite H. reflexivity.
Qed.

(* an external value: the host's apply, once *)
Lemma apply_ext : forall (i : instruction) k x pcx sg vs fs h t,
  apply_internal hstate host P i (St pcx (x :: VExternal k :: sg) vs fs h t) =
  Ok (St pcx ((match snd (host h (HApply k x)) with Some v => v | None => VUnit end) :: sg)
         vs fs (fst (host h (HApply k x))) (t ++ [HApply k x]), Some (S pcx)).
Proof.
  intros. unfold apply_internal, ask. st_norm. cbn [type_of_val].
  destruct (host h (HApply k x)) as [h' r]. cbn [fst snd]. destruct r; reflexivity.
Qed.

(* data on the left: the evaluator's primitive *)
Lemma apply_data : forall (i : instruction) f x v w pcx sg vs fs h t,
  (match f with VExpr _ | VExternal _ => False | _ => True end) ->
  prim_apply_data f x = (Some v, w) ->
  exists t', apply_internal hstate host P i (St pcx (x :: f :: sg) vs fs h t) =
             Ok (St pcx (v :: sg) vs fs h t', Some (S pcx)) /\ observable t' = observable t.
Proof.
  intros i f x v w pcx sg vs fs h t Hf H.
  unfold apply_internal. st_norm.
  destruct f, x; try contradiction; cbn [type_of_val] in *;
    cbn [prim_apply_data merge_symbols by_index by_symbol of_found why_of is_core_kind andb] in H;
    try discriminate;
    try (injection H as <- _; cbn [merge_to_symbol_list bind]; st_norm; eexists; split; reflexivity);
    try (injection H as <- _; st_norm; eexists; (split; [rewrite (defer_eq hstate host Hdef); reflexivity | apply observable_defer]));
    cbn [access_with_integer access_with_symbol bind];
    rewrite ?keyed_same;
    repeat (match goal with
            | H : context [match ?x with _ => _ end] |- _ =>
                destruct x; cbn [of_found why_of bind] in *; try discriminate
            end);
    injection H as <- _; unfold push_found; st_norm; eexists; split; reflexivity.
Qed.

(* EndExpression with a frame: the value goes back to the caller's registers *)
Lemma step_end_frame : forall pcx v junk vin' vs ret saved fs h t,
  nth_error C pcx = Some (ins I_EndExpression) -> ret < length C ->
  Machine.step hstate host P (St pcx (v :: junk) (vin' :: vs) ((ret, saved) :: fs) h t) =
  SRun hstate (St ret (v :: saved) vs fs h t).
Proof.
  intros. erewrite step_op with (next := Some ret) (s1 := St pcx (v :: saved) vs fs h t); eauto; try reflexivity.
  intros; discriminate.
Qed.

End ApplySteps.
