"""C01 Compiled programs compute what the source means
   (+ the program-level clauses of C10: c10_program_checks, used by props/c10.py)."""
import os, time, collections
import vplib, execlib as X
from vplib import Verdict, log

PID = "C01"
MANIFEST_ENTRY = {
 "level_claimed": {
  "category": "proof",
  "text": "proof (partial: all four stages proved for the program the AST compiler Model/CompileExpr.v emits, with nested expressions labelled by the jump-table indices of their bodies - which is what a host sees of an expression value; the agreement of that compiler with the builder on every AST and the parser round trip are validated on every run and proved only up to a bound). Theorems in coq/Properties/C01.v relate three Coq objects: the reference evaluator Spec/Eval.v (big-step, on the AST of Spec/Ast.v, written from the property text), the AST compiler Model/CompileExpr.v (emits the instruction and jump tables in build.rs's layout) and the runtime model Model/Machine.v (one step per execute_current_instruction, every operation of runtime/src/runtime/*.rs on value trees). C01_full_statement is stated over the builder model (Model/Parser.v + Model/BuilderWL.v on the printed tokens) and proved wherever it and the AST compiler produce the same program (C01_full_where_builder_agrees). END TO END, unbounded, on the operator fragment frag_e2e of Spec/Fragment.v (literals, `$`, identifiers, round groups, all prefix / suffix / binary operators incl. pair, access and the apply forms, space and comma lists, `&&` `||`, conditionals and else-chains, nested expressions `{ body }` - functions and calls -, `^~` loops, `;` sequences at the top of a program or of a `{ }` body; not side-effect blocks and the blank-line separator): C01_wl_agrees_fragment (for every printable AST of the fragment the builder model on the parser model's result for the printed tokens IS the AST compiler's program - printer/reference-parser round trip, C02, builder converse BuildOk.v, compile_agrees_full, and an induction relating the two compilers, Proofs/C01/EndToEnd) and hence C01_full_fragment / C01_full_fragment_plain / C01_full_fragment_operators: C01_full_statement restricted to the fragment is a theorem over the parser, builder and machine models. C01_all_constructs_partial: for EVERY printable program of the core grammar outside the two known-finding classes (every construct: literals, `$`, identifiers, groups, unary and binary arithmetic, bitwise, comparison, equality, `^^ !! ??`, pairs, access, internal accessors, space and comma lists, sub-expression sequences, side-effect blocks, `&&`/`||`, conditionals and else-chains, nested expressions, `<~`, `~>`, `~~`, `^~` loops), every input value and every host declining defer_op: if the evaluator yields v with host state h' and trace t, the compiled program run from its entry with that input reaches End with current value v, host state h' and observable host trace t - forward simulation by induction on the evaluator's fuel over five mutually recursive readings (expression, list items, else-chain, apply, expression body), with out-of-line bodies located through the jump table and `^~` as a restart outcome. Stage corollaries C01_arith_partial, C01_data_partial, C01_control_partial; C01_compile_builder_bounded_3 (compiler = Model/BuilderWL.v on the printed tokens for every AST of at most 3 constructors, by computation); C01_K1_refuted / C01_K2_refuted (the known-finding classes are real). Every run re-ties the three objects to /repo: the printed text of every generated AST is lexed/parsed/built/executed by the real pipeline on both data implementations and compared with the compiler's tables (and with Model/BuilderWL.v on the printed tokens), with the machine model's run (value, stack depths, step count, all host calls) and with the evaluator's answer (final value, resolve/apply trace).",
  "design_ref": "DESIGN.md section 8 C01"
 },
 "level_note": "Trusted: Coq kernel; Flocq's standard-library axioms (through Model/Num.v); extraction (ExtrOcamlBasic only); harness/src/bin/exec.rs, ocaml/exec_driver.ml, tools/execlib.py. Not proved: that CompileExpr equals the builder model outside the fragment frag_e2e (side-effect blocks, blank-line separators: validated on every generated program of every run, and by a bounded theorem; inside the fragment it is C01_wl_agrees_fragment), the parser round trip outside that fragment (C02's reference parser is undefined there), per-operation agreement of the value-level operations with the two data stores (C15/C16), the theorems take nested-expression labels to be the jump-table indices (a host can inspect an expression value, so no statement for arbitrary labels holds for arbitrary hosts; the checks compare up to renaming). Symbol hashing is an injective oracle; float power is outside the model. Known findings C01-K1 (else-chain without a final else pushes nothing when no condition holds) and C01-K2 (`^~` inside a side-effect block leaves the block's input on the value stack) are excluded and re-confirmed on every run.",
 "technique": "Coq proof (forward simulation by induction on the big-step evaluation, code located at offsets) over executable models + differential correspondence of compiler, runtime model and reference evaluator with the Rust pipeline on both data implementations"
}

HOSTS_NONE = "-"
HOSTS = ["-", "r:a=vi9", "r:a=#;r:b=vX7;r:c=v(L (P na i1));a:7=i", "r:a=vX3;r:b=vX3;r:c=vX3;a:3=#", "r:a=vT;r:b=vF;r:c=vU"]
LISTED_DEFAULT = ("C01-K1", "C01-K2")

TRUSTED = vplib.BASE_TRUSTED + [
    "harness/src/bin/exec.rs (scripted recording host on both data implementations, value trees read through the GarnishData getters)",
    "ocaml/exec_driver.ml and tools/execlib.py (case generation, canonicalisation: expression values renamed by first appearance)",
    "symbol hashing (symbol_value) is an oracle, injective on the names of a case; f64 powf is outside the model",
    "Model/CompileExpr.v is tied to compiler/src/build/build.rs by correspondence (every generated program of every run) and to Model/BuilderWL.v by the same runs, not by an unbounded theorem",
]


# ------------------------------------------------------------------- corpora
def exhaustive(max_full, sample_next, rng):
    """every AST up to max_full constructors; a seeded sample of the next size"""
    memo = {}
    out = []
    for n in range(1, max_full + 1):
        for e in X.enum_bodies(n, X.LEAVES_SMALL, memo):
            out.append((X.relabel(e), "enum%d" % n))
    if sample_next:
        nxt = X.enum_bodies(max_full + 1, X.LEAVES_SMALL, memo)
        for e in rng.sample(nxt, min(sample_next, len(nxt))):
            out.append((X.relabel(e), "enum%d_sample" % (max_full + 1)))
    return out


def cases_for(asts, rng, inputs_per=2):
    cases = []
    for e, tag in asts:
        ids = X.idents(e)
        if X.uses_input(e):
            inputs = ["U"] + rng.sample(X.INPUTS[1:], inputs_per)
        else:
            inputs = ["U"]
        for inp in inputs:
            host = "-" if not ids else rng.choice(HOSTS)
            cases.append(X.Case(e, "min", inp, host, tag))
    return cases


def operand_lattice():
    """whole programs `a op b` / `op a` over signed integers, floats and the i32 boundary: the final value of every
    arithmetic, bitwise, comparison and equality operator on operands of both signs (negatives are written `-- n`)"""
    pos = [("i", 0), ("i", 1), ("i", 2), ("i", 3), ("i", 7), ("i", 31), ("i", 32), ("i", 2147483647), ("f", 15, 1), ("f", 5, 1), ("f", 25, 1)]
    vals = pos + [("U", "neg", x) for x in pos[1:]]
    out = []
    for op in X.ARITH + X.BITS + X.CMP + X.EQ:
        for a in vals:
            for b in vals:
                out.append((("B", op, a, b), "lattice"))
    for op in ("abs", "neg", "bnot"):
        for a in vals:
            out.append((("U", op, a), "lattice"))
    # equality of collections that are prefixes of one another, in both orders
    i1, i2, i3 = ("i", 1), ("i", 2), ("i", 3)
    colls = [("L", "c", i1, i2), ("L", "c", ("L", "c", i1, i2), i3), ("L", "c", ("L", "c", ("L", "c", i1, i2), i3), ("i", 4)),
             ("L", "s", i1, i2), ("L", "s", ("L", "s", i1, i2), i3), ("s", "ab"), ("s", "abc"), ("s", "a"), ("s", "")]
    for op in X.EQ:
        for a in colls:
            for b in colls:
                out.append((("B", op, ("G", a) if a[0] == "L" else a, ("G", b) if b[0] == "L" else b), "lattice"))
    return out


def random_cases(n, rng, tag="rand"):
    g = X.Gen(rng)
    out = []
    for _ in range(n):
        e = g.program(rng.choice([4, 6, 8, 12, 16, 24, 32, 40]))
        out.append(X.Case(e, rng.choice(["min", "min", "min", "full"]), rng.choice(X.INPUTS), rng.choice(HOSTS), tag))
    return out


WITNESSES = [
    # (ast, input, host, tag): the recorded findings and the DESIGN section 7 suspects, run first
    (("E", ("C", 0, "F", ("i", 1)), ("C", 0, "F", ("i", 2))), "U", "-", "witness:C01-K1"),
    (("B", "add", ("i", 1), ("G", ("E", ("C", 0, "F", ("i", 1)), ("C", 0, "F", ("i", 2))))), "U", "-", "witness:C01-K1"),
    (("B", "add", ("G", ("B", "app", ("N", 1, ("S", ("i", 1), ("C", 0, ("B", "lt", "$", ("i", 1)), ("R", ("i", 5))))), ("i", 0))), "$"), "i64", "-", "witness:C01-K2"),
    (("B", "app", ("N", 1, ("C", 0, ("B", "lt", "$", ("i", 3)), ("R", ("B", "add", "$", ("i", 1))))), ("i", 0)), "U", "-", "loop"),
    (("B", "app", ("N", 1, ("B", "add", ("i", 1), ("G", ("C", 0, ("B", "lt", "$", ("i", 3)), ("R", ("B", "add", "$", ("i", 1))))))), ("i", 0)), "U", "-", "loop-under-operand"),
]


def reapply_family():
    """`^~` reached through groups, conditional arms, else arms and `&&` / `||` operands, one and two levels deep:
    which expression a re-apply restarts (and with which conditions re-evaluated) shows in the final value"""
    def guard(n): return ("B", "lt", "$", ("i", n))
    def chain(k): return ("E", ("C", 0, guard(3), ("R", ("B", "add", "$", ("i", k)))), "$")
    ctxs = [
        lambda x: x,
        lambda x: ("G", x),
        lambda x: ("E", ("C", 0, guard(5), ("G", x)), ("i", 100)),
        lambda x: ("E", ("C", 1, guard(5), ("i", 100)), ("G", x)),
        lambda x: ("&", guard(5), ("G", x)),
        lambda x: ("O", ("B", "ge", "$", ("i", 5)), ("G", x)),
        lambda x: ("E", ("C", 0, ("B", "ge", "$", ("i", 9)), ("i", 50)), ("G", x)),
    ]
    out = []
    for k in (1, 7):
        for i, c1 in enumerate(ctxs):
            for j, c2 in enumerate(ctxs):
                if i and j == 0:
                    continue
                body = c1(c2(chain(k)))
                out.append((("B", "app", ("N", 1, body), ("i", 0)), "U", "-", "reapply-nest"))
                out.append((("B", "add", ("G", ("B", "app", ("N", 1, body), ("i", 1))), ("i", 10)), "U", "-", "reapply-nest"))
                out.append((body, "i0", "-", "reapply-nest"))
    return out


# -------------------------------------------------------------- running + deciding
def repaired(e, in_chain=False):
    """give every else-chain that lacks a final else the fall-through the language intends: `|> $`"""
    if isinstance(e, str): return e
    if e[0] == "E":
        l = repaired(e[1], True)
        r = repaired(e[2], e[2][0] == "E" if not isinstance(e[2], str) else False)
        out = ("E", l, r)
        last_is_cond = (not isinstance(e[2], str)) and e[2][0] == "C"
        if not in_chain and last_is_cond:
            return ("E", out, "$")
        return out
    out = e
    for idx, c in X.children(e):
        out = X.replace_child(out, idx, repaired(c, False))
    return out


def confirm_k1(cases):
    """C01-K1 is confirmed for a case when giving its else-chains an explicit `|> $` makes the
    implementation agree with the reference evaluator's answer for the original program."""
    if not cases: return {}
    fixed = [X.Case(repaired(X.parse_sexpr(c.past)), "raw", c.input, c.host, c.tag) for c in cases]
    err = X.run_batch(fixed)
    res = {}
    for c, f in zip(cases, fixed):
        ok = False
        if not err and f.ok == "1":
            im = X.split_impl(f.impl)
            s_run = X.parse_run(im.get("S", "?"))
            x_run = s_run if im.get("X") == "same" else X.parse_run(im.get("X", "?"))
            sp = X.parse_run(c.spec)
            spk = X.answer_key(sp, False, False)
            has_apply = any(cc.startswith("A") for cc in sp["calls"])
            ok = X.answer_key(x_run, False, False) == spk and (has_apply or X.answer_key(s_run, False, False) == spk)
        res[id(c)] = ok
    return res


def process(v, cases, stats, listed, found, label, chunk=20000):
    """run and judge; fills v and found (dict kind -> list of (case, detail))"""
    for i in range(0, len(cases), chunk):
        part = cases[i:i + chunk]
        err = X.run_batch(part)
        if err:
            v.tie_failure("%s: %s" % (label, err))
            return
        k1_candidates = []
        judged = []
        for c in part:
            fs = X.judge(c, stats, listed)
            judged.append((c, fs))
            if any(kind == "known:C01-K1" for kind, _ in fs):
                k1_candidates.append(c)
        confirmed = confirm_k1(k1_candidates)
        for c, fs in judged:
            in_known_class = any(kind.startswith("known:") for kind, _ in fs)
            for kind, d in fs:
                if kind == "known:C01-K1" and not confirmed.get(id(c), False):
                    kind = "violation"
                    d = dict(d, note="contains an else-chain without a final else, but adding `|> $` does not repair it")
                if kind == "tie" and in_known_class and "SimpleGarnishData" in d["what"]:
                    # stack-imbalanced programs: Simple's frame markers and Basic's saved register heads differ by design
                    stats.inc("simple_run_skipped_in_known_class")
                    continue
                found.setdefault(kind, []).append((c, d))


def still_fails_as(kind_wanted, listed):
    def f(c):
        st = X.Stats()
        return any(k == kind_wanted or (kind_wanted == "tie" and k == "tie") for k, _ in X.judge(c, st, listed))
    return f


def report(v, found, listed, max_shrink=3):
    n_shrunk = 0
    for kind, items in sorted(found.items()):
        if kind.startswith("known:"):
            fid = kind[6:]
            items.sort(key=lambda it: len(it[0].src))
            c, d = items[0]
            v.known_hit(fid, "%s  ($ = %s, host %s) -> %s, reference evaluator %s" % (
                X.src_text(c.src).replace("\n", "\\n"), c.input, c.host,
                d["impl"]["cls"] + ((" " + d["impl"]["v"]) if d["impl"]["v"] else ""), d["spec"]["v"]))
            continue
        items.sort(key=lambda it: len(it[0].src))
        for c, d in items[:max(1, 4 - n_shrunk)]:
            small = c
            if n_shrunk < max_shrink:
                n_shrunk += 1
                try:
                    small = X.shrink(c, still_fails_as(kind, listed))
                except Exception as ex:      # shrinking is best effort
                    log("shrink failed:", ex)
            desc = X.describe(small)
            if kind == "violation":
                fs = [x for x in X.judge(small, X.Stats(), listed) if x[0] == "violation"] if small is not c else [(kind, d)]
                dd = fs[0][1] if fs else d
                v.violation(component="exec", input=desc, what=dd.get("what"), impl=dd.get("impl"), expected=dd.get("spec"),
                            model=small.model, original=X.describe(c) if small is not c else None)
            else:
                v.tie_failure("correspondence exec: %s | %s | %s" % (d["what"], desc, {k: str(x)[:300] for k, x in d.items() if k != "what"}))
        if kind == "tie" and len(items) > 4:
            v.tie_failure("correspondence exec: %d further disagreements" % (len(items) - 4))


def build_all(v, pid, proof_dirs):
    sy = vplib.sync_cone(["Properties/C01.vo"])
    for name, e in sy.get("errors", {}).items():
        v.tie_failure("sync %s: %s" % (name, e))
    pr = vplib.prove(pid, proof_dirs, extra_targets=["Extract/ExecExtract.vo"])
    for f in pr["failures"]:
        v.tie_failure("prove: " + f)
    ok, out = vplib.cargo_build("debug", bins=["exec"])
    if not ok:
        v.tie_failure("harness build failed: " + out[-400:])
    okm, outm = vplib.ocaml_build("exec") if os.path.exists(vplib.OCAML_BUILD + "/exec_model.ml") else (False, "no extracted model")
    if not okm:
        v.tie_failure("model driver build failed: " + outm[-300:])
    return pr, ok and okm


def coverage(v, stats, cases, found, rule, extra=None):
    distinct = len({(c.src, c.input, c.host) for c in cases if getattr(c, "ok", "0") == "1" and " S=OK" in getattr(c, "impl", "")})
    sizes = collections.Counter()
    tags = collections.Counter()
    kinds = collections.Counter()
    for c in cases:
        sizes[min(60, X.size(c.ast) // 5 * 5)] += 1
        tags[c.tag] += 1
        for k in X.kinds(c.ast):
            kinds[k] += 1
    samples = []
    for c in cases[:: max(1, len(cases) // 6)][:6]:
        samples.append({"source": X.src_text(c.src), "input": c.input, "host": c.host, "impl": getattr(c, "impl", "")[:200], "spec": getattr(c, "spec", "")})
    v.coverage.update({
        "evaluations": len(cases),
        "distinct_nontrivial": distinct,
        "rule": rule,
        "samples": samples,
        "histogram": dict(stats.h),
        "size_histogram": {str(k): n for k, n in sorted(sizes.items())},
        "corpus": dict(tags),
        "constructs": {k: n for k, n in sorted(kinds.items())},
        "disagreements": {k: len(x) for k, x in found.items()},
    })
    if extra: v.coverage.update(extra)


def run(tier, seed):
    v = Verdict(PID, tier, seed)
    v.assumptions = [
        "programs are trees of Spec/Ast.v accepted by wf_prog and paren_ok (the core grammar, printed with minimal parentheses; a fully parenthesised variant is also run)",
        "the host declines defer_op; resolve/apply answer as scripted and push exactly one register when they accept",
        "results the property leaves open are skipped (reported as spec_open): a list carrying the looked-up key twice, symbol lists with numeric parts, float powers and float indices",
        "external apply is observed on BasicGarnishData only (SimpleGarnishData has no apply hook)",
    ]
    pr, built = build_all(v, PID, ["Proofs/C01"])
    v.coverage.update(vplib.proof_coverage(
        pr, "make -C coq Properties/C01.vo Extract/ExecExtract.vo && coqc Properties/C01.v (Print Assumptions) && tools/props/c01.py correspondence + direct oracle", TRUSTED))
    listed = {f["id"] for f in vplib.findings_for(PID)}
    stats = X.Stats()
    found = {}
    cases = []
    if built:
        rng = vplib.rng_for(seed, "C01")
        for ast, inp, host, tag in WITNESSES:
            cases.append(X.Case(X.relabel(ast), "min", inp, host, tag))
        for ast, inp, host, tag in reapply_family():
            cases.append(X.Case(X.relabel(ast), "min", inp, host, tag))
        lat = operand_lattice()
        cases += [X.Case(X.relabel(e), "min", "U", "-", tag) for e, tag in (lat if tier == "thorough" else rng.sample(lat, 2800))]
        if tier == "thorough":
            cases += cases_for(exhaustive(4, 0, rng), rng, 1)
            cases += random_cases(150000, rng)
        else:
            cases += cases_for(exhaustive(3, 5000, rng), rng, 2)
            cases += random_cases(7000, rng)
        process(v, cases, stats, listed, found, "exec")
        report(v, found, listed)
    coverage(v, stats, cases, found,
             "every AST of the core grammar up to 3 constructors (4 in the thorough tier; quick: plus a seeded sample of size 4) over the "
             "literal pool {2, 1.5, \"ab\", :a, (), $?, $!, $, a, b}, x input values {unit, number, keyed list, nested list, pair} where the program "
             "reads `$` or an identifier, x scripted hosts; seeded random mostly well-typed ASTs of 4..80 constructors (minimal and full "
             "parentheses); a case is non-trivial when it is printable and runs to End on SimpleGarnishData")
    return v.finish("proof")


def replay(obj):
    vs = obj.get("violations", [])
    if not vs:
        print("replay names a broken tie, not an input:", obj.get("no_longer_checks"))
        return run("quick", obj.get("seed", 0))
    vplib.cargo_build("debug", bins=["exec"])
    rc = 0
    listed = {f["id"] for f in vplib.findings_for(obj.get("property", PID))}
    for x in vs:
        d = x.get("input") or {}
        if "ast" not in d: continue
        c = X.Case(X.parse_sexpr(d["ast"]), "raw", d.get("input", "U"), d.get("host", "-"), "replay")
        err = X.run_batch([c])
        if err:
            print("replay failed to run:", err); rc = 1; continue
        fs = X.judge(c, X.Stats(), listed)
        bad = [f for f in fs if f[0] in ("violation", "tie")]
        print("%s: %r $=%s host=%s\n   impl=%s\n   spec=%s" % ("FAILS" if bad else "ok", X.src_text(c.src), c.input, c.host, c.impl, c.spec))
        if bad: rc = 1
    return rc


# ------------------------------------------------- C10: program-level clauses
def c10_program_checks(v, tier, seed):
    """`&&`/`||` evaluate their right operand only when needed; a conditional evaluates only the arm
    it selects; an else-chain evaluates conditions in order and at most one arm.  Operands, conditions
    and arms are identifiers under a recording resolver, so what was evaluated, in which order and how
    often is the host trace; the oracle is the reference evaluator.  Adds findings to v; returns stats."""
    rng = vplib.rng_for(seed, "C10-programs")
    listed = {f["id"] for f in vplib.findings_for("C01")} | {f["id"] for f in vplib.findings_for("C10")}
    names = ["a", "b", "c", "d", "e", "f"]
    truth = {"T": "vT", "F": "vF", "U": "vU", "N": "vi3", "L": "v(L i1)", "S": "vC[]"}

    def ident(k): return ("x", names[k])
    progs = []
    for op in ("&", "O"):
        progs.append((op, ident(0), ident(1)))
        progs.append((op, (op, ident(0), ident(1)), ident(2)))
        progs.append((op, ident(0), ("G", (op, ident(1), ident(2)))))
        other = "O" if op == "&" else "&"
        progs.append((op, ident(0), ("G", (other, ident(1), ident(2)))))
        progs.append((other, (op, ident(0), ident(1)), ident(2)))
    for neg in (0, 1):
        progs.append(("C", neg, ident(0), ident(1)))
        progs.append(("E", ("C", neg, ident(0), ident(1)), ident(2)))
        progs.append(("E", ("E", ("C", neg, ident(0), ident(1)), ("C", 1 - neg, ident(2), ident(3))), ident(4)))
        progs.append(("E", ("E", ("E", ("C", neg, ident(0), ident(1)), ("C", neg, ident(2), ident(3))), ("C", neg, ident(4), ident(5))), "u"))
        progs.append(("B", "add", ("i", 1), ("G", ("E", ("C", neg, ident(0), ident(1)), ident(2)))))
        progs.append(("C", neg, ("&", ident(0), ident(1)), ("O", ident(2), ident(3))))
    # operands of `&&` / `||` that are themselves conditionals, chains or truth operators (in groups): the result
    # is a boolean whatever shape the operand's own code ends in, and only what is needed is evaluated
    for op in ("&", "O"):
        for neg in (0, 1):
            cond = ("C", neg, ident(1), ident(2))
            chain_tis = ("E", ("C", neg, ident(1), ident(2)), ("U", "tis", ident(3)))
            chain_not = ("E", ("C", neg, ident(1), ident(2)), ("U", "not", ident(3)))
            chain_val = ("E", ("C", neg, ident(1), ident(2)), ident(3))
            for r_ in (("G", cond), ("G", chain_tis), ("G", chain_not), ("G", chain_val), ("G", ("G", cond))):
                progs.append((op, ident(0), r_))          # as right operand
                progs.append((op, r_, ident(4)))          # as left operand
        for u in ("tis", "not"):
            progs.append((op, ident(0), ("U", u, ident(1))))
            progs.append((op, ("U", u, ident(0)), ident(1)))
    # truth operators applied to chains that themselves end in a truth operator, and to each other
    for neg in (0, 1):
        for u in ("tis", "not"):
            for w in ("tis", "not"):
                progs.append(("U", u, ("G", ("E", ("C", neg, ident(0), ident(1)), ("U", w, ident(2))))))
                progs.append(("U", u, ("G", ("E", ("E", ("C", neg, ident(0), ident(1)), ("C", neg, ident(2), ident(3))), ("U", w, ident(4))))))
    for u in ("tis", "not"):
        for w in ("tis", "not"):
            progs.append(("U", u, ("U", w, ident(0))))
            progs.append(("U", u, ("G", ("U", w, ident(0)))))
            progs.append(("U", u, ("G", ("&", ident(0), ("U", w, ident(1))))))
    for neg in (0, 1):
        progs.append(("E", ("C", neg, ident(0), ident(1)), ("G", ("C", neg, ident(2), ident(3)))))     # u ?> b |> (f ?> d)
        progs.append(("E", ("G", ("C", neg, ident(0), ident(1))), ident(2)))                           # (a ?> b) |> c
        progs.append(("C", neg, ident(0), ("&", ident(1), ident(2))))                                  # t1 ?> t2 && a
        progs.append(("E", ("C", neg, ident(0), ("O", ident(1), ident(2))), ident(3)))                 # t1 ?> t2 || a |> b
    cases = []
    vals = list(truth)
    for p in progs:
        ids = X.idents(p)
        combos = []
        if len(ids) <= 3:
            import itertools
            combos = list(itertools.product(vals, repeat=len(ids)))
        else:
            combos = [tuple(rng.choice(vals) for _ in ids) for _ in range(60 if tier == "quick" else 400)]
        for combo in combos:
            host = ";".join("r:%s=%s" % (n, truth[t]) for n, t in zip(ids, combo) if t != "U")
            cases.append(X.Case(X.relabel(p), "min", "U", host or "-", "c10"))
    stats = X.Stats()
    found = {}
    process(v, cases, stats, listed, found, "c10-programs")
    report(v, found, listed)
    return {"cases": len(cases), "programs": len(progs), "histogram": dict(stats.h),
            "disagreements": {k: len(x) for k, x in found.items()}}
