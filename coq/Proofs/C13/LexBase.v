(* Basic facts used by the C13 proofs: characters, strings, the operator trie,
   start_token. *)
From Coq Require Import NArith List Bool Lia.
From GV Require Import Base.Result Gen.TokenTypes Gen.Tokens Model.Lexer Spec.LexSpec.
Import ListNotations.
Local Open Scope N_scope.

Ltac break_if :=
  match goal with
  | |- context [if ?b then _ else _] => destruct b eqn:?
  end.
Ltac break_if_in H :=
  match type of H with
  | context [if ?b then _ else _] => destruct b eqn:?
  end.

Definition otext (o : option token) : list N :=
  match o with Some t => tok_text t | None => [] end.

(* ------------------------------------------------------------------ lists *)
Lemma list_N_eqb_eq : forall a b, list_N_eqb a b = true <-> a = b.
Proof.
  induction a as [|x a IH]; destruct b as [|y b]; cbn; split; intro H; try congruence; try reflexivity.
  - apply andb_true_iff in H as [H1 H2]. apply N.eqb_eq in H1. apply IH in H2. congruence.
  - inversion H; subst. rewrite N.eqb_refl. cbn. apply IH. reflexivity.
Qed.

Lemma is_prefix_spec : forall p s, is_prefix p s = true <-> exists r, s = p ++ r.
Proof.
  induction p as [|a p IH]; intros s; cbn.
  - split; [intros _; exists s; reflexivity | reflexivity].
  - destruct s as [|b s].
    + split; [discriminate | intros [r Hr]; discriminate].
    + split.
      * intros H. apply andb_true_iff in H as [H1 H2]. apply N.eqb_eq in H1. apply IH in H2 as [r Hr].
        exists r. subst. reflexivity.
      * intros [r Hr]. inversion Hr; subst. rewrite N.eqb_refl. cbn. apply IH. exists r. reflexivity.
Qed.

Lemma starts_with_app : forall c s t, s <> [] -> starts_with c (s ++ t) = starts_with c s.
Proof. intros c [|x s] t H; [congruence | reflexivity]. Qed.

Lemma ends_with_snoc : forall c s x, ends_with c (s ++ [x]) = (x =? c).
Proof. intros. unfold ends_with. rewrite rev_app_distr. reflexivity. Qed.

Lemma trim_start_head : forall c x s, x <> c -> trim_start c (x :: s) = x :: s.
Proof. intros c x s H. cbn. apply N.eqb_neq in H. rewrite H. reflexivity. Qed.

(* trimming periods off  nb ++ "."  gives nb when nb has no period and is not empty *)
Lemma trim_matches_number : forall nb, nb <> [] -> ~ In 46 nb ->
  trim_matches 46 (nb ++ [46]) = nb.
Proof.
  intros nb Hne Hno. unfold trim_matches.
  assert (E1 : trim_start 46 (nb ++ [46]) = nb ++ [46]).
  { destruct nb as [|x nb]; [congruence|]. cbn [app]. apply trim_start_head.
    intro; subst; apply Hno; left; reflexivity. }
  rewrite E1. rewrite rev_app_distr.
  change (rev [46] ++ rev nb) with (46 :: rev nb).
  assert (E2 : trim_start 46 (46 :: rev nb) = trim_start 46 (rev nb)).
  { cbn [trim_start]. rewrite N.eqb_refl. reflexivity. }
  rewrite E2.
  destruct (rev nb) as [|y r] eqn:Hr.
  - apply (f_equal (@rev N)) in Hr. rewrite rev_involutive in Hr. cbn in Hr. congruence.
  - rewrite trim_start_head.
    + rewrite <- Hr. apply rev_involutive.
    + intro Hy. subst y. apply Hno. apply in_rev. rewrite Hr. left. reflexivity.
Qed.

(* --------------------------------------------------------------- characters *)
Section Chars.
  Variables uni_numeric uni_alnum : N -> bool.
  Notation is_numeric := (is_numeric uni_numeric).
  Notation is_alphanumeric := (is_alphanumeric uni_alnum).
  Notation is_number_char := (is_number_char uni_numeric uni_alnum).
  Notation is_identifier_char := (is_identifier_char uni_alnum).

  (* a concrete ASCII character is classified without consulting the Unicode oracles *)
  Lemma number_char_not_period : forall c, is_number_char c = true -> c <> 46.
  Proof. intros c H ->. vm_compute in H. discriminate. Qed.
  Lemma number_char_not_lf : forall c, is_number_char c = true -> c <> 10.
  Proof. intros c H ->. vm_compute in H. discriminate. Qed.
  Lemma numeric_not_period : forall c, is_numeric c = true -> c <> 46.
  Proof. intros c H ->. vm_compute in H. discriminate. Qed.
  Lemma numeric_not_lf : forall c, is_numeric c = true -> c <> 10.
  Proof. intros c H ->. vm_compute in H. discriminate. Qed.
End Chars.

(* ------------------------------------------------------ the operator table *)
(* every character of every spelling is a printable ASCII, non-whitespace, non-NUL,
   non-alphanumeric character other than the quotes, '@', '`', '\' -- checked on the generated table *)
Definition plain_op_char (c : N) : bool :=
  (32 <? c) && (c <? 127) && negb (ascii_digit c) && negb (ascii_alpha c) &&
  negb (c =? ch_dquote) && negb (c =? ch_squote) && negb (c =? ch_at) && negb (c =? ch_backtick).

Lemma spellings_plain :
  forallb (fun e => forallb plain_op_char (fst e)) operator_spellings = true.
Proof. vm_compute. reflexivity. Qed.

Lemma spellings_nonempty :
  forallb (fun e => match fst e with [] => false | _ => true end) operator_spellings = true.
Proof. vm_compute. reflexivity. Qed.

(* no two entries share a spelling: "the type of the node" is "the type listed for the spelling" *)
Fixpoint spellings_distinct (tbl : list (list N * token_type)) : bool :=
  match tbl with
  | [] => true
  | e :: r => negb (existsb (fun e' => list_N_eqb (fst e') (fst e)) r) && spellings_distinct r
  end.
Lemma spellings_nodup : spellings_distinct operator_spellings = true.
Proof. vm_compute. reflexivity. Qed.

Lemma op_node_exists_chars : forall path c,
  op_node_exists operator_spellings path = true -> In c path -> plain_op_char c = true.
Proof.
  intros path c H Hin. destruct path as [|x p]; [destruct Hin|].
  unfold op_node_exists in H. apply existsb_exists in H as [e [He Hp]].
  apply is_prefix_spec in Hp as [r Hr].
  pose proof spellings_plain as Hall. rewrite forallb_forall in Hall.
  specialize (Hall e He). rewrite forallb_forall in Hall. apply Hall.
  rewrite Hr. apply in_or_app. left. exact Hin.
Qed.

Lemma current_operator_chars : forall path ty c,
  current_operator path = Some ty -> In c path -> plain_op_char c = true.
Proof.
  intros path ty c H Hin. unfold current_operator, trie_lookup in H.
  destruct (op_node_exists operator_spellings path) eqn:E; [|discriminate].
  eapply op_node_exists_chars; eauto.
Qed.

Lemma current_operator_none : forall path c,
  In c path -> plain_op_char c = false -> current_operator path = None.
Proof.
  intros path c Hin Hc. destruct (current_operator path) eqn:E; [|reflexivity].
  eapply current_operator_chars in E; eauto. congruence.
Qed.

Lemma current_operator_period : current_operator [46] = Some (Some TT_Period).
Proof. vm_compute. reflexivity. Qed.
Lemma current_operator_range : current_operator [46; 46] = Some (Some TT_Range).
Proof. vm_compute. reflexivity. Qed.
