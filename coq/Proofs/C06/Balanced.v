(* The arity discipline under which built code is stack-balanced: every operand
   position of a construct holds a subtree that leaves exactly one operand,
   every attachment position (a side-effect block attached to a value or
   following a suffix operator) one that leaves none, an else-chain is
   conditionals followed by one final else, `^~` stands where no operand of
   its body is pending, a construct that builds one child only (a prefix
   operator, a group, a nested expression, `^~`) has no other.  [bal] computes the number of operands the inline code
   of a subtree leaves, or None when the discipline is broken. *)
From Coq Require Import List Arith Bool NArith Lia.
From GV Require Import Base.Result Gen.TokenTypes Gen.Defs Gen.Instr Model.Parser Model.BuilderWL Model.Compile
  Proofs.C05.Known Proofs.C06.Known.
Import ListNotations.

Definition is_some_n (o : option nat) (n : nat) : bool :=
  match o with Some m => Nat.eqb m n | None => false end.

(* [lst]: definition of the list the node is a flattened child of; [cond]: it has
   a conditional parent; [tail]: no operand of the enclosing body is pending and
   no side effect is open where its code starts *)
Fixpoint bal (lst : option definition) (cond tail : bool) (t : tree) : option nat :=
  match t with
  | T _ d l r =>
    let one (o : option tree) (tl : bool) : bool :=
      match o with Some a => is_some_n (bal None false tl a) 1 | None => false end in
    let none_or_zero (o : option tree) : bool :=
      match o with Some a => is_some_n (bal None false false a) 0 | None => true end in
    match kind_of d with
    | KValue i _ =>
      if instruction_eqb i I_EndExpression then None
      else if none_or_zero l && none_or_zero r then Some 1 else None
    | KUnary _ child_right =>
      if child_right then (match l with Some _ => None | None => if one r false then Some 1 else None end)
      else (if one l false && none_or_zero r then Some 1 else None)
    | KBinary _ _ | KInfix => if one l false && one r false then Some 1 else None
    | KFixApply child_right =>
      if child_right then (match l with Some _ => None | None => if one r false then Some 1 else None end)
      else (if one l false && none_or_zero r then Some 1 else None)
    | KList =>
      let item (o : option tree) : option nat :=
        match o with
        | None => Some 0
        | Some a =>
          if definition_eqb (t_def a) d
          then bal (Some d) false false a
          else (if is_some_n (bal (Some d) false false a) 1 then Some 1 else None)
        end in
      match item l, item r with
      | Some n1, Some n2 =>
        let same := match lst with Some d' => definition_eqb d' d | None => false end in
        if Nat.eqb (n1 + n2) (list_count t) then (if same then Some (n1 + n2) else Some 1) else None
      | _, _ => None
      end
    | KLogical _ =>
      if opt_b registers l then None
      else if one l false && one r tail then Some 1 else None
    | KGroup =>
      match l with
      | Some _ => None
      | None => match r with None => Some 0 | Some a => bal None false tail a end
      end
    | KSideEffect =>
      if one r false
      then match l with None => Some 0 | Some a => bal None false tail a end
      else None
    | KNested =>
      match l with
      | Some _ => None
      | None => match r with None => Some 1 | Some b => if is_some_n (bal None false true b) 1 then Some 1 else None end
      end
    | KJumpIf _ =>
      if one l false && one r tail then (if cond then Some 0 else Some 1) else None
    | KElse =>
      match l, r with
      | Some a, Some b =>
        if is_some_n (bal None true tail a) 0
        then match bal None true tail b with
             | Some n => if cond then Some n else (if Nat.eqb n 1 then Some 1 else None)
             | None => None
             end
        else None
      | _, _ => None
      end
    | KReapply => match l with Some _ => None | None => if tail && one r false then Some 1 else None end
    | KSubexpr => if one l tail && one r tail then Some 1 else None
    | KErr => None
    end
  end.

Definition balanced (t : tree) : bool := is_some_n (bal None false true t) 1.
