(* C03  The compile pipeline is total: no input panics or hangs it.
   Only statements, [exact] and [Print Assumptions] live here. *)
From Coq Require Import List Arith Bool NArith.
From GV Require Import Base.Result Gen.TokenTypes Gen.Defs Model.Lexer Model.Parser Model.BuilderWL
  Proofs.C13.LexRun Proofs.C03.ParseTotal Proofs.C03.BuildTotal Proofs.C03.Bounded Proofs.C03.Bounded4.
Import ListNotations.

(* lex, for EVERY input string (code points) and every Unicode classification [un] / [ua] of
   non-ASCII characters: never panics (the one unchecked subtraction is unreachable) and always
   returns (each call of next() consumes input or is one of two end-of-input flushes) *)
Theorem C03_lex_total : forall un ua (s : list N), no_panic (lex un ua s) /\ terminates (lex un ua s).
Proof. intros un ua s. split; [apply lex_no_panic|apply lex_terminates]. Qed.
Print Assumptions C03_lex_total.

(* parse, for EVERY token list: never panics, never exhausts the fuel that only
   makes its two bounded walks structural (the count guards end them first) *)
Theorem C03_parse_total : forall toks : list token_type, total (parse toks).
Proof. exact parse_total. Qed.
Print Assumptions C03_parse_total.

(* parse then build, every sequence of at most 3 tokens over ALL token types:
   Ok or Err, never Panic, never OutOfFuel (bound in the name) *)
Theorem C03_pipeline_total_bounded_3 : forall toks : list token_type,
  length toks <= 3 -> pipe_ok toks = true.
Proof. exact pipeline_total_bounded_3. Qed.
Print Assumptions C03_pipeline_total_bounded_3.

(* length 4 over the representative alphabet named in the statement *)
Theorem C03_pipeline_total_bounded_4_rep : forall toks : list token_type,
  length toks = 4 -> (forall t, In t toks -> In t rep_alphabet) -> pipe_ok toks = true.
Proof. intros toks Hl Hin. exact (proj1 (pipeline_bounded_4_rep toks Hl Hin)). Qed.
Print Assumptions C03_pipeline_total_bounded_4_rep.

(* build, for EVERY node array (not only parse results), every initial content of the data
   object and every outcome of literal parsing: Ok or Err, never a panic, never exhausted fuel.
   build() checks first that every link stays inside the array and carries an iteration cap on its
   node loop (both in build.rs, transliterated in Model/BuilderWL.v); the proof is an invariant over
   the two worklist loops. *)
Theorem C03_build_total : forall (tree : list pnode) (init : binit) (lit_ok : nat -> bool) (root : nat),
  total (build tree init lit_ok (build_fuel tree) root).
Proof. exact build_total. Qed.
Print Assumptions C03_build_total.

(* "in time polynomial in the input length", the part a model can carry: the node loop of build
   runs at most 16 * |tree| + 16 times (linear); parse's two walks per token are each cut off by
   their count guard after |nodes| + 1 iterations (quadratic overall; the walks' fuel bound is
   what C03_parse_total establishes); lex consumes each character once (C13). *)
Theorem C03_build_steps_linear : forall (tree : list pnode) (init : binit) (lit_ok : nat -> bool) (root : nat) s e,
  build tree init lit_ok (build_fuel tree) root = Ok (s, e) -> steps s <= 16 * length tree + 16.
Proof. exact build_steps_linear. Qed.
Print Assumptions C03_build_steps_linear.

(* The full statement over the models, UNBOUNDED: every input string lexes to Ok/Err
   (C03_lex_total), every token list parses to Ok/Err, and whatever parse returns builds to
   Ok/Err into any data object. *)
Definition C03_full_statement : Prop :=
  forall toks : list token_type,
    total (parse toks) /\
    (forall root nodes init lit_ok, parse toks = Ok (root, nodes) ->
       total (build nodes init lit_ok (build_fuel nodes) root)).

Theorem C03_full : C03_full_statement.
Proof. intros toks. split; [apply parse_total|]. intros root nodes init lit_ok _. apply build_total. Qed.
Print Assumptions C03_full.

(* non-vacuity: the guards are what makes this true.  This is the node graph the parser
   produced for `5 + + 6` before the fixes in /repo (1.right = 2, 2.left = 1): the worklist
   loop revisits it forever; with the iteration cap the builder answers Err. *)
Example C03_builder_rejects_cycle :
  build [mkNode D_Number S_Value (Some 1) None None (Some 0);
         mkNode D_Addition S_BinaryLeftToRight (Some 2) (Some 0) (Some 2) (Some 2);
         mkNode D_Addition S_BinaryLeftToRight None (Some 1) (Some 3) (Some 4);
         mkNode D_Number S_Value (Some 2) None None (Some 6)]
        empty_init (fun _ => true) 200 2 = Err E_build.
Proof. vm_compute. reflexivity. Qed.

Example C03_accepts_program :
  pipe_ok [TT_Number; TT_Whitespace; TT_PlusSign; TT_Whitespace; TT_Number] = true /\
  is_ok (parse [TT_Number; TT_Whitespace; TT_PlusSign; TT_Whitespace; TT_Number]) = true /\
  parse [TT_Number; TT_Whitespace; TT_PlusSign; TT_Whitespace; TT_PlusSign; TT_Whitespace; TT_Number] = Err E_composition.
Proof. vm_compute. repeat split; reflexivity. Qed.
