(* Float and mixed operations: the result is the correctly rounded (round to
   nearest even) binary64 value of the exact real result when that is finite,
   and [None] otherwise.  Built on Flocq's B*_correct theorems. *)
From Coq Require Import ZArith Bool Lia Reals Psatz SpecFloat List.
From Flocq Require Import Core IEEE754.BinarySingleNaN IEEE754.Binary IEEE754.Bits.
From GV Require Import Model.Num Proofs.C09.IntArith Proofs.C09.Promote.
Local Open Scope Z_scope.

Definition rnd (x : R) : R := round radix2 (SpecFloat.fexp 53 1024) ZnearestE x.
Definition fits (x : R) : Prop := (Rabs (rnd x) < bpow radix2 1024)%R.

(* what "the IEEE-754 result, or unit when it is not finite" means *)
Definition float_spec (exact : R) (res : option num) : Prop :=
  match res with
  | Some (Flt f) => fits exact /\ is_finite 53 1024 f = true /\ B2R 53 1024 f = rnd exact
  | Some (Int _) => False
  | None => ~ fits exact
  end.

Definition num_ok (n : num) : Prop :=
  match n with Int z => in_i32 z = true | Flt f => is_finite 53 1024 f = true end.
Definition num_real (n : num) : R :=
  match n with Int z => IZR z | Flt f => B2R 53 1024 f end.
Definition to_f64 (n : num) : binary64 :=
  match n with Int z => f64_of_i32 z | Flt f => f end.
Definition has_float (l r : num) : Prop :=
  match l, r with Int _, Int _ => False | _, _ => True end.

Lemma to_f64_ok n : num_ok n ->
  is_finite 53 1024 (to_f64 n) = true /\ B2R 53 1024 (to_f64 n) = num_real n.
Proof.
  destruct n as [z|f]; simpl; intros H.
  - destruct (f64_of_i32_exact z H); auto.
  - auto.
Qed.

Lemma do_op_float iop fop l r : has_float l r ->
  do_op iop fop l r = flt_result (fop (to_f64 l) (to_f64 r)).
Proof. destruct l, r; simpl; intros H; try reflexivity; contradiction. Qed.

Lemma overflow_not_finite (f : binary64) s :
  B2FF 53 1024 f = binary_overflow 53 1024 mode_NE s -> is_finite 53 1024 f = false.
Proof. intros H. rewrite <- is_finite_B2FF, H. reflexivity. Qed.

Ltac split_fits H :=
  match type of H with
  | if Rlt_bool ?x ?y then _ else _ =>
      let S := fresh "S" in destruct (Rlt_bool_spec x y) as [S|S]
  end.

Lemma add_core a b : is_finite 53 1024 a = true -> is_finite 53 1024 b = true ->
  float_spec (B2R 53 1024 a + B2R 53 1024 b) (flt_result (f64_add a b)).
Proof.
  intros Fa Fb. unfold flt_result, f64_finite, f64_add, b64_plus.
  match goal with |- context [Bplus 53 1024 ?hp ?hm _ _ _ _] =>
    pose proof (Bplus_correct 53 1024 hp hm binop_nan_pl64 mode_NE a b Fa Fb) as H end.
  simpl round_mode in H. split_fits H.
  - destruct H as (H1 & H2 & _). rewrite H2. simpl. unfold fits, rnd. auto.
  - destruct H as (H1 & _). rewrite (overflow_not_finite _ _ H1). simpl. unfold fits, rnd. lra.
Qed.

Lemma sub_core a b : is_finite 53 1024 a = true -> is_finite 53 1024 b = true ->
  float_spec (B2R 53 1024 a - B2R 53 1024 b) (flt_result (f64_sub a b)).
Proof.
  intros Fa Fb. unfold flt_result, f64_finite, f64_sub, b64_minus.
  match goal with |- context [Bminus 53 1024 ?hp ?hm _ _ _ _] =>
    pose proof (Bminus_correct 53 1024 hp hm binop_nan_pl64 mode_NE a b Fa Fb) as H end.
  simpl round_mode in H. split_fits H.
  - destruct H as (H1 & H2 & _). rewrite H2. simpl. unfold fits, rnd. auto.
  - destruct H as (H1 & _). rewrite (overflow_not_finite _ _ H1). simpl. unfold fits, rnd. lra.
Qed.

Lemma mul_core a b : is_finite 53 1024 a = true -> is_finite 53 1024 b = true ->
  float_spec (B2R 53 1024 a * B2R 53 1024 b) (flt_result (f64_mul a b)).
Proof.
  intros Fa Fb. unfold flt_result, f64_finite, f64_mul, b64_mult.
  match goal with |- context [Bmult 53 1024 ?hp ?hm _ _ _ _] =>
    pose proof (Bmult_correct 53 1024 hp hm binop_nan_pl64 mode_NE a b) as H end.
  simpl round_mode in H. split_fits H.
  - destruct H as (H1 & H2 & _). rewrite H2, Fa, Fb. cbn [andb float_spec]. unfold fits, rnd. repeat split; auto. rewrite H2, Fa, Fb. reflexivity.
  - rewrite (overflow_not_finite _ _ H). simpl. unfold fits, rnd. lra.
Qed.

Lemma div_core_f a b : is_finite 53 1024 a = true -> B2R 53 1024 b <> 0%R ->
  float_spec (B2R 53 1024 a / B2R 53 1024 b) (flt_result (f64_div a b)).
Proof.
  intros Fa Hb. unfold flt_result, f64_finite, f64_div, b64_div.
  match goal with |- context [Bdiv 53 1024 ?hp ?hm _ _ _ _] =>
    pose proof (Bdiv_correct 53 1024 hp hm binop_nan_pl64 mode_NE a b Hb) as H end.
  simpl round_mode in H. split_fits H.
  - destruct H as (H1 & H2 & _). rewrite H2, Fa. cbn [andb float_spec]. unfold fits, rnd. repeat split; auto. rewrite H2, Fa. reflexivity.
  - rewrite (overflow_not_finite _ _ H). simpl. unfold fits, rnd. lra.
Qed.

(* the zero-divisor guard: [rhs == Integer(0) || rhs == Float(0.0)] *)
Lemma is_zero_real r : num_ok r -> is_zero_num r = true <-> num_real r = 0%R.
Proof.
  destruct r as [z|f]; simpl; intros H.
  - rewrite is_zero_int by assumption. split.
    + intros E. assert (z = 0) as -> by lia. reflexivity.
    + intros E. apply eq_IZR in E. lia.
  - unfold is_zero_num, num_eq, num_partial_cmp.
    unfold b64_compare. 
    destruct (f64_of_i32_exact 0 eq_refl) as [R0 F0].
    rewrite !Bcompare_correct by (assumption || reflexivity).
    rewrite R0. simpl B2R. destruct (Rcompare_spec (B2R 53 1024 f) 0); simpl; split; intros; (lra || discriminate || reflexivity).
Qed.

Inductive arith4 : Type := AAdd | ASub | AMul | ADiv.
Definition arith4_op (o : arith4) : binop :=
  match o with AAdd => OpAdd | ASub => OpSub | AMul => OpMul | ADiv => OpDiv end.
Definition arith4_real (o : arith4) (x y : R) : R :=
  match o with AAdd => x + y | ASub => x - y | AMul => x * y | ADiv => x / y end%R.

(* C09, float and mixed clause for + - * /: correctly rounded or unit. *)
Theorem float_arith_correct powf o l r :
  num_ok l -> num_ok r -> has_float l r ->
  (o = ADiv -> num_real r <> 0%R) ->
  float_spec (arith4_real o (num_real l) (num_real r)) (num_binop powf (arith4_op o) l r).
Proof.
  intros Hl Hr Hf Hz.
  destruct (to_f64_ok l Hl) as [Fl Rl]. destruct (to_f64_ok r Hr) as [Fr Rr].
  destruct o; simpl num_binop; simpl arith4_real.
  - unfold num_plus. rewrite do_op_float by assumption. rewrite <- Rl, <- Rr. apply add_core; assumption.
  - unfold num_subtract. rewrite do_op_float by assumption. rewrite <- Rl, <- Rr. apply sub_core; assumption.
  - unfold num_multiply. rewrite do_op_float by assumption. rewrite <- Rl, <- Rr. apply mul_core; assumption.
  - unfold num_divide.
    destruct (is_zero_num r) eqn:E.
    + exfalso. apply (Hz eq_refl). apply is_zero_real; assumption.
    + rewrite do_op_float by assumption. rewrite <- Rl, <- Rr. apply div_core_f; [assumption|].
      rewrite Rr. intros E0. apply (is_zero_real r Hr) in E0. congruence.
Qed.

(* division and remainder by zero are unit, for every representation of zero *)
Theorem zero_divisor_none powf l r : num_ok r -> num_real r = 0%R ->
  num_binop powf OpDiv l r = None /\ num_binop powf OpIntDiv l r = None /\ num_binop powf OpRem l r = None.
Proof.
  intros Hr Hz. apply (is_zero_real r Hr) in Hz. simpl.
  unfold num_divide, num_integer_divide, num_remainder. rewrite Hz. auto.
Qed.

(* whatever comes back as a float number is finite (no NaN, no infinity);
   [powf] is an arbitrary oracle *)
Theorem float_results_finite powf o l r f :
  num_binop powf o l r = Some (Flt f) -> is_finite 53 1024 f = true.
Proof.
  assert (HF : forall x, flt_result x = Some (Flt f) -> is_finite 53 1024 f = true).
  { intros x. unfold flt_result, f64_finite. destruct (is_finite 53 1024 x) eqn:E; [|discriminate].
    intros [= <-]. exact E. }
  assert (HD : forall iop fop, do_op iop fop l r = Some (Flt f) -> is_finite 53 1024 f = true).
  { intros iop fop. destruct l, r; simpl; try apply HF.
    destruct (iop z z0) as [v [|]]; discriminate. }
  assert (HI : forall g, int_only g l r = Some (Flt f) -> False).
  { intros g. destruct l, r; simpl; try discriminate. destruct (g z z0); discriminate. }
  destruct o; simpl.
  - apply HD. - apply HD. - apply HD.
  - unfold num_divide. destruct (is_zero_num r); [discriminate|apply HD].
  - unfold num_integer_divide. destruct (is_zero_num r); [discriminate|].
    destruct l, r; try discriminate. destruct (overflowing_div z z0) as [v [|]]; discriminate.
  - unfold num_power. destruct l, r.
    + destruct (z0 <? 0); [discriminate|]. destruct (overflowing_pow z z0) as [v [|]]; discriminate.
    + destruct (f64_lt_zero f0); [discriminate|apply HF].
    + destruct (z <? 0); [discriminate|apply HF].
    + destruct (f64_lt_zero f1); [discriminate|apply HF].
  - unfold num_remainder. destruct (is_zero_num r); [discriminate|apply HD].
  - intros H. exfalso. exact (HI _ H).
  - intros H. exfalso. exact (HI _ H).
  - intros H. exfalso. exact (HI _ H).
  - intros H. exfalso. exact (HI _ H).
  - intros H. exfalso. exact (HI _ H).
Qed.

(* a bitwise operation with a float operand is unit *)
Theorem bitwise_float_none powf o l r :
  has_float l r -> In o (OpAnd :: OpOr :: OpXor :: OpShl :: OpShr :: nil) ->
  num_binop powf o l r = None.
Proof.
  intros Hf Ho. simpl in Ho.
  destruct Ho as [<-|[<-|[<-|[<-|[<-|[]]]]]]; destruct l, r; simpl in *; try reflexivity; contradiction.
Qed.

Theorem bitwise_not_float_none f : num_unop OpNot (Flt f) = None.
Proof. reflexivity. Qed.
