(* (d), second half: Number tokens are maximal runs.  Instance of Proofs.C13.LexMaxGen. *)
From Coq Require Import NArith List Bool Lia.
From GV Require Import Base.Result Gen.TokenTypes Gen.Tokens Model.Lexer Spec.LexSpec
  Proofs.C13.LexBase Proofs.C13.LexInv Proofs.C13.LexRun Proofs.C13.LexOp Proofs.C13.LexMaxGen
  Proofs.C13.LexMaximal.
Import ListNotations.
Local Open Scope N_scope.

Section MaxNum.
  Variables un ua : N -> bool.
  Notation is_numeric := (is_numeric un).
  Notation num_char := (is_number_char un ua).
  Notation start_token := (start_token un ua).
  Notation run_arm := (run_arm un ua).

  (* digits.. : a numeric character followed by number characters (numeric, alphanumeric, '_') *)
  Definition int_shape (txt : list N) : Prop :=
    forallb num_char txt = true /\
    match txt with c :: _ => is_numeric c = true | [] => False end.
  (* nb '.' fr : number characters around one period; the text starts with a numeric character,
     or with the period followed by a numeric character *)
  Definition flt_shape (txt : list N) : Prop :=
    exists nb fr, txt = nb ++ 46 :: fr /\ forallb num_char nb = true /\ forallb num_char fr = true /\
      match nb with
      | c :: _ => is_numeric c = true
      | [] => match fr with c :: _ => is_numeric c = true | [] => False end
      end.

  Definition TMn (ty : option token_type) (txt : list N) (nx : option N) : Prop :=
    ty = Some TT_Number ->
    (int_shape txt /\ next_not num_char nx) \/
    (flt_shape txt /\ next_not num_char nx /\
     (ends_with 46 txt = true -> next_not (fun c => c =? 46) nx)).

  Definition Invn (l : lexer) : Prop :=
    (cur_ty l = Some TT_Number -> st l = SNumber \/ st l = SFloat) /\
    (st l = SNumber -> int_shape (cur l)) /\
    (st l = SFloat -> flt_shape (cur l)).

  Lemma Invn_ext : forall l l', cur l = cur l' -> cur_ty l = cur_ty l' -> st l = st l' -> Invn l -> Invn l'.
  Proof. intros l l' E1 E2 E3. unfold Invn. rewrite E1, E2, E3. auto. Qed.

  Lemma Invn_idle : forall l, cur l = [] -> cur_ty l = None -> st l = SNoToken -> Invn l.
  Proof.
    intros l E1 E2 E3. unfold Invn. rewrite E1, E2, E3.
    split; [|split]; intros H; discriminate H.
  Qed.

  Lemma num_char_46 : num_char 46 = false.
  Proof. destruct (num_char 46) eqn:E; [|reflexivity]. apply number_char_not_period in E. congruence. Qed.

  Lemma numeric_num_char : forall c, is_numeric c = true -> num_char c = true.
  Proof. intros c H. unfold is_number_char. rewrite H. reflexivity. Qed.

  Lemma int_shape_snoc : forall a c, int_shape a -> num_char c = true -> int_shape (a ++ [c]).
  Proof.
    intros a c [H1 H2] Hc. split; [apply forallb_snoc; assumption|].
    destruct a; [destruct H2 | exact H2].
  Qed.

  Lemma flt_shape_snoc : forall a c, flt_shape a -> num_char c = true -> flt_shape (a ++ [c]).
  Proof.
    intros a c (nb & fr & -> & Hnb & Hfr & Hh) Hc. exists nb, (fr ++ [c]).
    split; [rewrite <- app_assoc; reflexivity|]. split; [exact Hnb|]. split; [apply forallb_snoc; assumption|].
    destruct nb; [|exact Hh]. destruct fr; [destruct Hh | exact Hh].
  Qed.

  Lemma flt_of_int : forall a, int_shape a -> flt_shape (a ++ [46]).
  Proof.
    intros a [H1 H2]. exists a, []. split; [reflexivity|]. split; [exact H1|]. split; [reflexivity|].
    destruct a; [destruct H2 | exact H2].
  Qed.

  (* a float-state text that ends with the period is  nb "."  *)
  Lemma flt_ends_period : forall txt, flt_shape txt -> ends_with 46 txt = true ->
    exists nb, txt = nb ++ [46] /\ int_shape nb.
  Proof.
    intros txt (nb & fr & -> & Hnb & Hfr & Hh) He.
    destruct fr as [|x fr'] using rev_ind.
    - exists nb. split; [reflexivity|]. split; [exact Hnb|]. destruct nb; [destruct Hh | exact Hh].
    - exfalso. clear IHfr'.
      change (nb ++ 46 :: fr' ++ [x]) with (nb ++ (46 :: fr') ++ [x]) in He.
      rewrite app_assoc, ends_with_snoc in He. apply N.eqb_eq in He. subst x.
      rewrite forallb_app in Hfr. apply andb_true_iff in Hfr as [_ Hx]. cbn [forallb] in Hx.
      rewrite num_char_46 in Hx. discriminate.
  Qed.

  Lemma int_no_period : forall nb, int_shape nb -> nb <> [] /\ ~ In 46 nb.
  Proof.
    intros nb [H1 H2]. split; [destruct nb; [destruct H2 | discriminate]|].
    intros Hin. rewrite forallb_forall in H1. specialize (H1 46 Hin). rewrite num_char_46 in H1. discriminate.
  Qed.

  Lemma byte_len_snoc_pos : forall r c, 0 < byte_len (r ++ [c]).
  Proof.
    intros r c. destruct r as [|y r]; cbn [app byte_len].
    - pose proof (utf8_len_pos c). lia.
    - pose proof (utf8_len_pos y). lia.
  Qed.

  Ltac split_all := repeat match goal with |- _ /\ _ => split end.

  Lemma Invn_start : forall l c, result (start_token l c) = None -> Invn (start_token l c).
  Proof.
    intros l c. unfold Lexer.start_token.
    destruct (current_operator _) eqn:Eop.
    - intros _. cbn in Eop. unfold Invn. cbn.
      split_all; intros H; try discriminate H. exfalso. subst o.
      eapply op_not_nonop; [exact Eop | auto with nonop].
    - repeat break_if; cbn; intros Hr; try discriminate; unfold Invn; cbn;
        split_all; intros H; try discriminate H; auto.
      split; cbn; [|assumption].
      rewrite numeric_num_char by assumption. reflexivity.
  Qed.

  Ltac ty_contra :=
    exfalso;
    repeat match goal with
           | H : cur_ty ?l = Some ?T -> _ , Hty : cur_ty ?l = Some ?T |- _ => specialize (H Hty)
           end; intuition congruence.

  Ltac tm_open := unfold TMn; intros Hty; try discriminate Hty; try (solve [ty_contra]).

  Ltac arm_true :=
    split; [intros Hsct nx Hnx; try (cbn in Hsct; congruence) | intros Hscf nx; try (cbn in Hscf; congruence)];
    tm_open.

  Ltac arm_false :=
    intros Hr1; split;
    [ unfold Invn; cbn; split_all; intros Hh; try discriminate Hh; auto; try (solve [ty_contra])
    | intros t Ht; try discriminate Ht ].

  Ltac nx_cases Hnx := destruct Hnx as [->|[-> Hc0]]; cbn [next_not]; [exact I|].

  Notation arm_max := (arm_max Invn TMn).

  Ltac other_state arm :=
    intros l c [[Hnt Htk Hsc _ _] _] (Hnumty & Hint & Hflt) Hres Hst;
    unfold Lexer.run_arm; rewrite Hst; unfold arm;
    repeat break_if; unfold LexMaxGen.arm_max; cbn;
    try arm_true; try arm_false.

  Lemma arm_Operator_maxn : forall l c, WF l -> Invn l -> result l = None -> st l = SOperator -> arm_max l c (run_arm l c).
  Proof.
    intros l c [[Hnt Htk Hsc _ _] _] (Hnumty & Hint & Hflt) Hres Hst.
    unfold Lexer.run_arm. rewrite Hst. unfold arm_operator.
    destruct (current_operator (cur (push l c))) eqn:Eop; [|repeat break_if]; unfold LexMaxGen.arm_max; cbn.
    all: try arm_true. all: try arm_false.
    all: try (exfalso; subst o; eapply op_not_nonop; [exact Eop | auto with nonop]; fail).
    cbn [cur push set_cur] in Heqb0.
    apply andb_true_iff in Heqb0 as [Heqb0 _]. apply andb_true_iff in Heqb0 as [Heqb0 Hnumc].
    apply andb_true_iff in Heqb0 as [Hsw Hbl].
    destruct (cur l) as [|x r] eqn:Ecur; [exfalso; apply Htk; congruence|].
    cbn in Hsw. apply N.eqb_eq in Hsw. subst x.
    assert (Hr : r = []).
    { destruct r as [|y r]; [reflexivity|]. exfalso. apply N.eqb_eq in Hbl.
      cbn [app byte_len] in Hbl. pose proof (byte_len_snoc_pos r c). pose proof (utf8_len_pos y).
      change (utf8_len ch_period) with 1 in Hbl. lia. }
    subst r. exists [], [c]. split; [reflexivity|]. split; [reflexivity|].
    split; [cbn; rewrite numeric_num_char by assumption; reflexivity | exact Hnumc].
  Qed.

  Lemma arm_Number_maxn : forall l c, WF l -> Invn l -> result l = None -> st l = SNumber -> arm_max l c (run_arm l c).
  Proof.
    other_state arm_number.
    - apply int_shape_snoc; auto.
    - apply andb_true_iff in Heqb0 as [Hc _]. apply N.eqb_eq in Hc. subst c. apply flt_of_int; auto.
    - left. split; [auto|]. nx_cases Hnx. exact Heqb.
  Qed.

  Lemma arm_Float_maxn : forall l c, WF l -> Invn l -> result l = None -> st l = SFloat -> arm_max l c (run_arm l c).
  Proof.
    intros l c [[Hnt Htk Hsc _ _] _] (Hnumty & Hint & Hflt) Hres Hst.
    unfold Lexer.run_arm. rewrite Hst. unfold arm_float.
    destruct (num_char c) eqn:Hnc.
    - unfold LexMaxGen.arm_max; cbn. arm_false. apply flt_shape_snoc; auto.
    - destruct ((c =? ch_period) && ends_with ch_period (cur l)) eqn:Esplit.
      + apply andb_true_iff in Esplit as [Hc Hend]. apply N.eqb_eq in Hc. subst c.
        destruct (text_col (set_start_row l (text_row l)) =? 0); [exact I|].
        change ch_period with 46 in *.
        change (push (set_start_col (start_token (set_start_row l (text_row l)) 46)
                        (text_col (set_start_row l (text_row l)) - 1)) 46) with (float_split_state un ua l).
        rewrite float_split_state_eq. cbn [cur]. rewrite current_operator_range.
        unfold LexMaxGen.arm_max. intros _. split.
        * unfold Invn; cbn; split_all; intros Hh; discriminate Hh.
        * intros t Ht. inversion Ht; subst. cbn. exists 46. split; [reflexivity|]. intros _. left.
          destruct (flt_ends_period _ (Hflt Hst) Hend) as (nb & Hnb & Hi).
          destruct (int_no_period nb Hi) as [Hne Hno].
          rewrite Hnb, trim_matches_number by assumption. split; [exact Hi|]. cbn. apply num_char_46.
      + unfold LexMaxGen.arm_max; cbn. arm_true. right. split; [auto|]. split.
        * nx_cases Hnx. exact Hnc.
        * intros He. nx_cases Hnx. change ch_period with 46 in Esplit. rewrite He, andb_true_r in Esplit. exact Esplit.
  Qed.

  Lemma arm_Identifier_maxn : forall l c, WF l -> Invn l -> result l = None -> st l = SIdentifier -> arm_max l c (run_arm l c).
  Proof. other_state arm_identifier. Qed.
  Lemma arm_Spaces_maxn : forall l c, WF l -> Invn l -> result l = None -> st l = SSpaces -> arm_max l c (run_arm l c).
  Proof. other_state arm_spaces. Qed.
  Lemma arm_Subexpression_maxn : forall l c, WF l -> Invn l -> result l = None -> st l = SSubexpression -> arm_max l c (run_arm l c).
  Proof. other_state arm_subexpression. Qed.
  Lemma arm_Annotation_maxn : forall l c, WF l -> Invn l -> result l = None -> st l = SAnnotation -> arm_max l c (run_arm l c).
  Proof. other_state arm_annotation. Qed.
  Lemma arm_LineAnnotation_maxn : forall l c, WF l -> Invn l -> result l = None -> st l = SLineAnnotation -> arm_max l c (run_arm l c).
  Proof. other_state arm_line_annotation. Qed.
  Lemma arm_CharList_maxn : forall l c, WF l -> Invn l -> result l = None -> st l = SCharList -> arm_max l c (run_arm l c).
  Proof. other_state arm_list. Qed.
  Lemma arm_ByteList_maxn : forall l c, WF l -> Invn l -> result l = None -> st l = SByteList -> arm_max l c (run_arm l c).
  Proof. other_state arm_list. Qed.
  Lemma arm_StartCharList_maxn : forall l c, WF l -> Invn l -> result l = None -> st l = SStartCharList -> arm_max l c (run_arm l c).
  Proof. other_state arm_start_list. Qed.
  Lemma arm_StartByteList_maxn : forall l c, WF l -> Invn l -> result l = None -> st l = SStartByteList -> arm_max l c (run_arm l c).
  Proof. other_state arm_start_list. Qed.

  Lemma Invn_arm : forall l c, WF l -> Invn l -> result l = None -> arm_max l c (run_arm l c).
  Proof.
    intros l c Hwf Hinv Hres. destruct (st l) eqn:Hst.
    - unfold Lexer.run_arm. rewrite Hst. unfold LexMaxGen.arm_max. intros Hr.
      split; [apply Invn_start; exact Hr | intros t Ht; discriminate Ht].
    - apply arm_Operator_maxn; auto.
    - apply arm_Spaces_maxn; auto.
    - apply arm_Subexpression_maxn; auto.
    - apply arm_Number_maxn; auto.
    - apply arm_Float_maxn; auto.
    - apply arm_Identifier_maxn; auto.
    - apply arm_Annotation_maxn; auto.
    - apply arm_LineAnnotation_maxn; auto.
    - apply arm_CharList_maxn; auto.
    - apply arm_StartCharList_maxn; auto.
    - apply arm_ByteList_maxn; auto.
    - apply arm_StartByteList_maxn; auto.
  Qed.

  Theorem lex_tokens_TMn : forall s ts,
    lex un ua s = Ok ts ->
    forall pre t post, ts = pre ++ t :: post ->
      TMn (Some (tok_type t)) (tok_text t) (hd_error (texts post)).
  Proof. exact (lex_tokens_max un ua Invn TMn Invn_ext Invn_idle Invn_start Invn_arm). Qed.
End MaxNum.

(* A Number token is either digits-like (a numeric character followed by number characters)
   or float-like (number characters around exactly one period, starting with a numeric
   character or with the period and a numeric character); the next input character is not a
   number character, and after a float-like token that ends with its period it is not a
   second period either (that spelling is split into the number and the range operator). *)
Theorem lex_number_maximal : forall un ua s ts,
  lex un ua s = Ok ts ->
  forall pre t post, ts = pre ++ t :: post -> tok_type t = TT_Number ->
    let txt := tok_text t in
    let next_not_number_char :=
      match concat (map tok_text post) with c :: _ => is_number_char un ua c = false | [] => True end in
    (forallb (is_number_char un ua) txt = true /\
     match txt with c :: _ => is_numeric un c = true | [] => False end /\
     next_not_number_char) \/
    ((exists nb fr, txt = nb ++ 46 :: fr /\
        forallb (is_number_char un ua) nb = true /\ forallb (is_number_char un ua) fr = true /\
        match nb with
        | c :: _ => is_numeric un c = true
        | [] => match fr with c :: _ => is_numeric un c = true | [] => False end
        end) /\
     next_not_number_char /\
     (ends_with 46 txt = true ->
      match concat (map tok_text post) with c :: _ => c <> 46 | [] => True end)).
Proof.
  intros un ua s ts H pre t post E Hty. cbv zeta.
  pose proof (lex_tokens_TMn un ua s ts H pre t post E (f_equal Some Hty)) as Hn.
  unfold texts in Hn.
  destruct Hn as [[[H1 H2] H3]|(H1 & H2 & H3)]; [left | right].
  - split; [exact H1|]. split; [exact H2|].
    destruct (concat (map tok_text post)); [exact I | exact H3].
  - split; [exact H1|]. split.
    + destruct (concat (map tok_text post)); [exact I | exact H2].
    + intros He. specialize (H3 He).
      destruct (concat (map tok_text post)); [exact I|]. apply N.eqb_neq. exact H3.
Qed.
