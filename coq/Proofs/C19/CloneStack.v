(* C19 proofs, part 3: the copy loop of clone_index_stack.

   Setting (section variables): [h0] is the data block when clone_index_stack starts, [c0]
   its length, [o] the offset that is subtracted from the address of every copy, [ret] the
   retention count, [ds] the block's absolute start.  Copies are appended at physical
   positions >= c0 but refer to each other by physical position minus [o]; [lview h] is the
   block those references are meant for: the first [c0 - o] cells followed by everything
   from [c0] on (for optimize: the retained prefix followed by the copies, i.e. the block
   after the slide; for clone_data, [o = 0]: the block itself). *)
From Coq Require Import NArith List Bool Arith Lia.
From GV Require Import Base.Result Model.Optimize Spec.HeapIso Proofs.C19.Base Proofs.C19.StoreLemmas.
Import ListNotations.

Ltac bind_ok H :=
  match type of H with
  | bind ?r _ = Ok _ =>
      let E := fresh "E" in destruct r eqn:E; cbn [bind] in H; [|discriminate H|discriminate H|discriminate H]
  end.

Tactic Notation "bind_as" hyp(H) ident(x) :=
  match type of H with
  | bind ?r _ = Ok _ =>
      let E := fresh "E" in destruct r as [x| | |] eqn:E; cbn [bind] in H; [|discriminate H|discriminate H|discriminate H]
  end.

Section CloneLoop.
Variable h0 : list cell.
Variable c0 o ret ds : nat.
Hypothesis Hc0 : length h0 = c0.
Hypothesis Ho : o <= c0.
Hypothesis Hro : o = 0 \/ ret <= c0.
(* values below the retention count are readable inside the part of the block that is kept *)
Hypothesis Hret : forall idx t, idx < ret -> Reads h0 idx t -> Reads (firstn (c0 - o) h0) idx t.

Definition lview (h : list cell) : list cell := firstn (c0 - o) h ++ skipn c0 h.

Lemma nth_lview : forall h q, c0 <= length h ->
  nth_error (lview h) q = if q <? c0 - o then nth_error h q else nth_error h (q + o).
Proof.
  intros h q Hlen. unfold lview.
  assert (Hl : length (firstn (c0 - o) h) = c0 - o) by (rewrite firstn_length; lia).
  destruct (q <? c0 - o) eqn:E.
  - apply Nat.ltb_lt in E. rewrite nth_error_app1 by lia. apply nth_error_firstn_lt. exact E.
  - apply Nat.ltb_ge in E. rewrite nth_error_app2 by lia. rewrite Hl, nth_error_skipn'.
    f_equal. lia.
Qed.

Lemma agree_lview : forall h h', agree h h' -> c0 <= length h -> c0 <= length h' ->
  agree (lview h) (lview h').
Proof.
  intros h h' Hag Hl Hl' q c Hq Hn. rewrite nth_lview in * by assumption.
  destruct (q <? c0 - o); apply Hag; auto.
Qed.

(* physical position [p] of a copy is address [p - o] of the view *)
Lemma nth_lview_new : forall h p, c0 <= length h -> c0 <= p ->
  nth_error (lview h) (p - o) = nth_error h p.
Proof.
  intros h p Hl Hp. rewrite nth_lview by assumption.
  destruct (p - o <? c0 - o) eqn:E.
  - apply Nat.ltb_lt in E. lia.
  - f_equal. lia.
Qed.

Lemma slice_lview_new : forall h n p, c0 <= length h -> c0 <= p ->
  slice (lview h) (p - o) n = slice h p n.
Proof.
  intros h. induction n as [|n IH]; intros p Hl Hp; cbn; auto.
  rewrite nth_lview_new by assumption.
  replace (S (p - o)) with (S p - o) by lia. rewrite IH by lia. reflexivity.
Qed.

(* [new] is a faithful copy of [orig] in the view of [h] *)
Definition Good (h : list cell) (orig new : nat) : Prop :=
  forall t, Reads h0 orig t -> Reads (lview h) new t.

Lemma Good_mono : forall h h' a b, Good h a b -> agree h h' -> c0 <= length h -> c0 <= length h' -> Good h' a b.
Proof.
  intros h h' a b HG Hag Hl Hl' t Ht. eapply Reads_agree; [apply HG; exact Ht|]. apply agree_lview; auto.
Qed.

(* what the copy loop maintains; [j] is the first position of the index list that has been rewritten *)
Definition Base (j : nat) (s : store) : Prop :=
  retention s = ret /\ dstart s = ds /\ c0 <= length (cells s) /\ agree h0 (cells s) /\
  (forall k orig new, j <= k -> k < c0 -> nth_error (cells s) k = Some (CCloneMap orig new) ->
                      Good (cells s) orig new).

Lemma Base_ext : forall j s s1, Base j s -> ext s s1 -> Base j s1.
Proof.
  intros j s s1 (Hr & Hd & Hl & Hag & Hm) Hext.
  pose proof (ext_length _ _ Hext) as Hlen.
  destruct Hext as [Hmeta [l El]]. unfold same_meta in Hmeta.
  repeat split; try (intuition congruence); try lia.
  - eapply agree_trans; eauto. rewrite El. apply agree_app.
  - intros k orig new Hjk Hk Hn.
    assert (Hn' : nth_error (cells s) k = Some (CCloneMap orig new)).
    { rewrite El in Hn. rewrite nth_error_app1 in Hn by lia. exact Hn. }
    eapply Good_mono; [eapply Hm; eauto| |lia|lia]. rewrite El. apply agree_app.
Qed.

Lemma Good_retained : forall s j a, Base j s -> a < ret -> Good (cells s) a a.
Proof.
  intros s j a (Hr & Hd & Hl & Hag & Hm) Ha t Ht.
  eapply Reads_agree; [apply Hret; eauto|].
  intros k c Hk Hn. apply nth_error_firstn_some in Hk. destruct Hk as [Hlt Hk].
  rewrite nth_lview by assumption. apply Nat.ltb_lt in Hlt. rewrite Hlt. apply Hag; auto.
Qed.

Lemma lookup_opt_good : forall j s a a', Base j s -> j <= c0 ->
  lookup_opt s (ds + j) (ds + c0) a = Ok (Some a') -> Good (cells s) a a'.
Proof.
  intros j s a a' HB Hj H. pose proof HB as (Hr & Hd & Hl & Hag & Hm).
  apply lookup_opt_some in H. rewrite Hr, Hd in H. destruct H as [[Hlt ->]|[_ [k [H1 [H2 H3]]]]].
  - eapply Good_retained; eauto.
  - apply (Hm k a a'); [lia|lia|exact H3].
Qed.

Lemma lookup_good : forall j s a a', Base j s -> j <= c0 ->
  lookup s (ds + j) (ds + c0) a = Ok a' -> Good (cells s) a a'.
Proof. intros j s a a' HB Hj H. eapply lookup_opt_good; eauto. apply lookup_ok. exact H. Qed.

(* a cell of the original block that can be read is still there *)
Lemma Base_cell : forall j s a t, Base j s -> Reads h0 a t ->
  exists c, nth_error h0 a = Some c /\ nth_error (cells s) a = Some c.
Proof.
  intros j s a t (Hr & Hd & Hl & Hag & Hm) Ht. destruct (Reads_cell _ _ _ Ht) as [c [Hc Hn]].
  exists c. split; auto.
Qed.

(* ---------------------------------------------------------------- one copied cell *)
(* a new cell without addresses *)
Lemma new_leaf : forall j s c s1 ni, Base j s -> is_leaf c = true -> push s c = Ok (s1, ni) ->
  ext s s1 /\ c0 <= ni /\ ni < length (cells s1) /\ Reads (lview (cells s1)) (ni - o) (TNode c []).
Proof.
  intros j s c s1 ni HB Hl H. pose proof HB as (Hr & Hd & Hlen & Hag & Hm).
  pose proof (push_ext _ _ _ _ H) as Hext. apply push_ok in H. destruct H as [-> [Ec Hmeta]].
  split; auto. split; [lia|]. rewrite Ec, app_length. cbn. split; [lia|].
  apply R_leaf; auto. rewrite nth_lview_new by (try rewrite app_length; cbn; lia).
  apply nth_error_snoc.
Qed.

(* a new cell whose addresses are faithful copies *)
Lemma new_simple : forall j s c' ads' kids s1 ni, Base j s ->
  addrs c' = Some ads' -> ReadsL (lview (cells s)) ads' kids -> push s c' = Ok (s1, ni) ->
  ext s s1 /\ c0 <= ni /\ ni < length (cells s1) /\ Reads (lview (cells s1)) (ni - o) (TNode (erase c') kids).
Proof.
  intros j s c' ads' kids s1 ni HB Ha HR H. pose proof HB as (Hr & Hd & Hlen & Hag & Hm).
  pose proof (push_ext _ _ _ _ H) as Hext. apply push_ok in H. destruct H as [-> [Ec Hmeta]].
  split; auto. split; [lia|]. rewrite Ec, app_length. cbn. split; [lia|].
  eapply R_simple; eauto.
  - rewrite nth_lview_new by (try rewrite app_length; cbn; lia). apply nth_error_snoc.
  - eapply ReadsL_agree; eauto. apply agree_lview; try (rewrite app_length; cbn); try lia. apply agree_app.
Qed.

Lemma ReadsL_two : forall h a b ts, ReadsL h [a; b] ts -> exists ta tb, ts = [ta; tb] /\ Reads h a ta /\ Reads h b tb.
Proof.
  intros h a b ts H. inversion H; subst. inversion H4; subst. inversion H6; subst. eauto.
Qed.

Lemma ReadsL_one : forall h a ts, ReadsL h [a] ts -> exists ta, ts = [ta] /\ Reads h a ta.
Proof.
  intros h a ts H. inversion H; subst. inversion H4; subst. eauto.
Qed.

Lemma two_lookups : forall j s a b a' b' kids, Base j s -> j <= c0 ->
  lookup s (ds + j) (ds + c0) a = Ok a' -> lookup s (ds + j) (ds + c0) b = Ok b' ->
  ReadsL h0 [a; b] kids -> ReadsL (lview (cells s)) [a'; b'] kids.
Proof.
  intros j s a b a' b' kids HB Hj Ha Hb HR. apply ReadsL_two in HR. destruct HR as [ta [tb [-> [Ra Rb]]]].
  constructor; [eapply lookup_good; eauto|]. constructor; [eapply lookup_good; eauto|constructor].
Qed.

Lemma one_lookup : forall j s a a' kids, Base j s -> j <= c0 ->
  lookup s (ds + j) (ds + c0) a = Ok a' ->
  ReadsL h0 [a] kids -> ReadsL (lview (cells s)) [a'] kids.
Proof.
  intros j s a a' kids HB Hj Ha HR. apply ReadsL_one in HR. destruct HR as [ta [-> Ra]].
  constructor; [eapply lookup_good; eauto|constructor].
Qed.

Ltac fin_simple lbl :=
  match goal with
  | H : push ?s ?c' = Ok _ |- _ =>
      change lbl with (erase c'); eapply (new_simple _ s c'); [eassumption|reflexivity| |exact H]
  end.

Lemma clone_simple : forall j s index c ads kids s1 ni, Base j s -> j <= c0 ->
  addrs c = Some ads -> ReadsL h0 ads kids ->
  clone_cell s (ds + j) (ds + c0) index c = Ok (s1, ni) ->
  ext s s1 /\ c0 <= ni /\ ni < length (cells s1) /\ Reads (lview (cells s1)) (ni - o) (TNode (erase c) kids).
Proof.
  intros j s index c ads kids s1 ni HB Hj Ha HR H.
  destruct c; try discriminate Ha; cbn in Ha; inversion Ha; subst; cbn [clone_cell] in H.
  - bind_ok H. bind_ok H. fin_simple (CPair 0 0). eapply two_lookups; eauto.
  - bind_ok H. bind_ok H. fin_simple (CRange 0 0). eapply two_lookups; eauto.
  - bind_ok H. bind_ok H. fin_simple (CSlice 0 0). eapply two_lookups; eauto.
  - bind_ok H. bind_ok H. fin_simple (CPartial 0 0). eapply two_lookups; eauto.
  - bind_ok H. bind_ok H. fin_simple (CConcat 0 0). eapply two_lookups; eauto.
  - bind_ok H. bind_ok H. fin_simple (CValue 0 0). eapply two_lookups; eauto.
  - bind_ok H. fin_simple (CValueRoot 0). eapply one_lookup; eauto.
  - bind_ok H. bind_ok H. fin_simple (CRegister 0 0). eapply two_lookups; eauto.
  - bind_ok H. fin_simple (CRegisterRoot 0). eapply one_lookup; eauto.
  - bind_ok H. fin_simple (CInstrData i 0). eapply one_lookup; eauto.
Qed.

(* ---------------------------------------------------------------- text: header + verbatim cells *)
Lemma nth_error_app_mid : forall (A : Type) (a : list A) c l k,
  nth_error (a ++ c :: l) (S (length a) + k) = nth_error l k.
Proof.
  intros A a c l k. rewrite nth_error_app2 by lia.
  replace (S (length a) + k - length a) with (S k) by lia. reflexivity.
Qed.

Lemma clone_seq : forall j s index c len payload s1 ni, Base j s -> j <= c0 ->
  nth_error h0 index = Some c -> seq_len c = Some len -> slice h0 (S index) len = Some payload ->
  forallb is_leaf payload = true ->
  clone_cell s (ds + j) (ds + c0) index c = Ok (s1, ni) ->
  ext s s1 /\ c0 <= ni /\ ni < length (cells s1) /\
  Reads (lview (cells s1)) (ni - o) (TNode c (map leaf_node payload)).
Proof.
  intros j s index c len payload s1 ni HB Hj Hn Hs Hsl Hf H.
  pose proof HB as (Hr & Hd & Hlen & Hag & Hm).
  assert (Hpl : length payload = len) by (eapply slice_length; eauto).
  assert (Hcl : clone_cell s (ds + j) (ds + c0) index c =
                (do (s1, li) <- push s c; do s2 <- copy_following s1 index len; Ok (s2, li))).
  { destruct c; try discriminate Hs; cbn in Hs; inversion Hs; subst; reflexivity. }
  rewrite Hcl in H. clear Hcl. bind_as H pr. destruct pr as [sa li]. bind_as H sb. inversion H; subst sb li. clear H.
  pose proof (push_ext _ _ _ _ E) as Hext1. apply push_ok in E. destruct E as [-> [Ec Hmeta1]].
  unfold copy_following in E0. replace (index + 1) with (S index) in E0 by lia.
  apply copy_loop with (payload := payload) in E0; auto.
  - destruct E0 as [Ec2 Hmeta2].
    assert (Hext : ext s s1).
    { split; [eapply same_meta_trans; eauto|]. exists (c :: payload). rewrite Ec2, Ec, <- app_assoc. reflexivity. }
    assert (Hcells : cells s1 = cells s ++ c :: payload) by (rewrite Ec2, Ec, <- app_assoc; reflexivity).
    assert (Hl1 : c0 <= length (cells s1)) by (pose proof (ext_length _ _ Hext); lia).
    split; auto. split; [lia|]. split; [rewrite Hcells, app_length; cbn; lia|].
    eapply R_seq; eauto.
    + rewrite nth_lview_new by lia. rewrite Hcells. rewrite nth_error_app2 by lia.
      rewrite Nat.sub_diag. reflexivity.
    + replace (S (length (cells s) - o)) with (S (length (cells s)) - o) by lia.
      rewrite slice_lview_new by lia. apply slice_intro; auto.
      intros k Hk. rewrite Hcells. apply nth_error_app_mid.
  - intros k Hk. pose proof (slice_nth _ _ _ _ Hsl k Hk) as Hnk.
    destruct (nth_error payload k) as [ck|] eqn:Ek.
    + eapply ext_nth; eauto. apply Hag; auto. apply is_leaf_not_clone_item.
      rewrite forallb_forall in Hf. apply Hf. eapply nth_error_In; eauto.
    + apply nth_error_None in Ek. lia.
Qed.

(* ---------------------------------------------------------------- lists: header + item and association slots *)
Definition slot_body (st en : nat) : nat -> store -> res store :=
  fun i s => do c <- get s i;
             match c with
             | CListItem a => do a' <- lookup s st en a; push_ s (CListItem a')
             | CAssocItem sy a => do a' <- lookup s st en a; push_ s (CAssocItem sy a')
             | CEmpty => push_ s CEmpty
             | _ => Err E_NotAssoc
             end.

Lemma ReadsSlots_cons_inv : forall h sl l kids, ReadsSlots h (sl :: l) kids ->
  (exists a t ts, sl = CListItem a /\ kids = TNode (CListItem 0) [t] :: ts /\ Reads h a t /\ ReadsSlots h l ts) \/
  (exists sy a t ts, sl = CAssocItem sy a /\ kids = TNode (CAssocItem sy 0) [t] :: ts /\ Reads h a t /\ ReadsSlots h l ts) \/
  (exists ts, sl = CEmpty /\ kids = TNode CEmpty [] :: ts /\ ReadsSlots h l ts).
Proof.
  intros h sl l kids H. inversion H; subst.
  - left. eauto 10.
  - right. left. eauto 10.
  - right. right. eauto.
Qed.

Lemma clone_slots_loop : forall j slots a s s2 kids, Base j s -> j <= c0 ->
  (forall k, k < length slots -> nth_error (cells s) (a + k) = nth_error slots k) ->
  ReadsSlots h0 slots kids ->
  for_range (length slots) a (slot_body (ds + j) (ds + c0)) s = Ok s2 ->
  exists slots', cells s2 = cells s ++ slots' /\ length slots' = length slots /\ same_meta s s2 /\
                 ReadsSlots (lview (cells s2)) slots' kids.
Proof.
  intros j. induction slots as [|sl slots IH]; intros a s s2 kids HB Hj Hn HR H.
  - cbn in H. inversion H; subst. inversion HR; subst. exists []. rewrite app_nil_r.
    repeat split; try apply same_meta_refl. constructor.
  - cbn [length for_range] in H. bind_as H sm.
    pose proof (Hn 0 ltac:(cbn; lia)) as H0. rewrite Nat.add_0_r in H0. cbn in H0.
    pose proof HB as (Hr & Hd & Hlen & Hag & Hm).
    assert (Hrest : forall s', ext s s' -> forall k, k < length slots -> nth_error (cells s') (S a + k) = nth_error slots k).
    { intros s' Hext k Hk. specialize (Hn (S k) ltac:(cbn; lia)). cbn in Hn. rewrite <- Hn.
      replace (S a + k) with (a + S k) by lia.
      destruct (nth_error (cells s) (a + S k)) eqn:E2.
      - eapply ext_nth; eauto.
      - exfalso. assert (Hsome : nth_error slots k <> None) by (apply nth_error_Some; lia). congruence. }
    unfold slot_body in E at 1. unfold get in E. rewrite H0 in E. cbn [bind] in E.
    assert (Hfin : forall sl' t ts, ext s sm -> cells sm = cells s ++ [sl'] -> same_meta s sm ->
              ReadsSlots h0 slots ts ->
              (forall slots', ReadsSlots (lview (cells s2)) slots' ts -> c0 <= length (cells s2) ->
                              agree (cells s) (cells s2) ->
                              ReadsSlots (lview (cells s2)) (sl' :: slots') (t :: ts)) ->
              exists slots', cells s2 = cells s ++ slots' /\ length slots' = length (sl :: slots) /\ same_meta s s2 /\
                             ReadsSlots (lview (cells s2)) slots' (t :: ts)).
    { intros sl' t ts Hext Ec Hmeta HRts Hk.
      destruct (IH (S a) sm s2 ts (Base_ext _ _ _ HB Hext) Hj (Hrest _ Hext) HRts H) as [slots' [Ec2 [Hl2 [Hm2 HR2]]]].
      exists (sl' :: slots').
      split; [rewrite Ec2, Ec, <- app_assoc; reflexivity|].
      split; [cbn; lia|]. split; [eapply same_meta_trans; eauto|].
      apply Hk; auto.
      - rewrite Ec2, Ec, !app_length. lia.
      - rewrite Ec2, Ec. eapply agree_trans; apply agree_app. }
    destruct (ReadsSlots_cons_inv _ _ _ _ HR) as [[x [t [ts [-> [-> [Rx Rts]]]]]]|[[sy [x [t [ts [-> [-> [Rx Rts]]]]]]]|[ts [-> [-> Rts]]]]].
    + (* item *)
      bind_as E x'. pose proof (push__ext _ _ _ E) as Hext. pose proof (push__ok _ _ _ E) as [Ec Hmeta].
      eapply Hfin; eauto. intros slots' HR2 Hl2 Hag2. constructor; auto.
      assert (HG : Good (cells s) x x') by (eapply lookup_good; eauto).
      eapply Good_mono; eauto.
    + (* association *)
      bind_as E x'. pose proof (push__ext _ _ _ E) as Hext. pose proof (push__ok _ _ _ E) as [Ec Hmeta].
      eapply Hfin; eauto. intros slots' HR2 Hl2 Hag2. constructor; auto.
      assert (HG : Good (cells s) x x') by (eapply lookup_good; eauto).
      eapply Good_mono; eauto.
    + (* empty *)
      pose proof (push__ext _ _ _ E) as Hext. pose proof (push__ok _ _ _ E) as [Ec Hmeta].
      eapply Hfin; eauto. intros slots' HR2 Hl2 Hag2. constructor; auto.
Qed.

Lemma clone_list : forall j s index c len slots kids s1 ni, Base j s -> j <= c0 ->
  nth_error h0 index = Some c -> list_len c = Some len -> slice h0 (S index) (len * 2) = Some slots ->
  ReadsSlots h0 slots kids ->
  clone_cell s (ds + j) (ds + c0) index c = Ok (s1, ni) ->
  ext s s1 /\ c0 <= ni /\ ni < length (cells s1) /\ Reads (lview (cells s1)) (ni - o) (TNode c kids).
Proof.
  intros j s index c len slots kids s1 ni HB Hj Hn Hs Hsl HR H.
  pose proof HB as (Hr & Hd & Hlen & Hag & Hm).
  assert (Hpl : length slots = len * 2) by (eapply slice_length; eauto).
  assert (Hcl : clone_cell s (ds + j) (ds + c0) index c =
                (do (s1, li) <- push s c;
                 do s2 <- for_range (length slots) (S index) (slot_body (ds + j) (ds + c0)) s1; Ok (s2, li))).
  { rewrite Hpl. replace (S index) with (index + 1) by lia.
    destruct c; try discriminate Hs; cbn in Hs; inversion Hs; subst; reflexivity. }
  rewrite Hcl in H. clear Hcl. bind_as H pr. destruct pr as [sa li]. bind_as H sb. inversion H; subst sb li. clear H.
  pose proof (push_ext _ _ _ _ E) as Hext1. apply push_ok in E. destruct E as [-> [Ec Hmeta1]].
  apply clone_slots_loop with (kids := kids) in E0; auto.
  - destruct E0 as [slots' [Ec2 [Hl2 [Hmeta2 HR2]]]].
    assert (Hcells : cells s1 = cells s ++ c :: slots') by (rewrite Ec2, Ec, <- app_assoc; reflexivity).
    assert (Hext : ext s s1).
    { split; [eapply same_meta_trans; eauto|]. exists (c :: slots'). exact Hcells. }
    assert (Hl1 : c0 <= length (cells s1)) by (pose proof (ext_length _ _ Hext); lia).
    split; auto. split; [lia|]. split; [rewrite Hcells, app_length; cbn; lia|].
    eapply R_list; eauto.
    + rewrite nth_lview_new by lia. rewrite Hcells. rewrite nth_error_app2 by lia.
      rewrite Nat.sub_diag. reflexivity.
    + replace (S (length (cells s) - o)) with (S (length (cells s)) - o) by lia.
      rewrite slice_lview_new by lia. apply slice_intro; [lia|].
      intros k Hk. rewrite Hcells. apply nth_error_app_mid.
  - eapply Base_ext; eauto.
  - intros k Hk. rewrite Hpl in Hk. pose proof (slice_nth _ _ _ _ Hsl k Hk) as Hnk.
    destruct (nth_error slots k) as [ck|] eqn:Ek.
    + eapply ext_nth; eauto. apply Hag; auto.
      pose proof (ReadsSlots_not_clone _ _ _ HR) as Hf. rewrite Forall_forall in Hf. apply Hf.
      eapply nth_error_In; eauto.
    + apply nth_error_None in Ek. lia.
Qed.

(* ---------------------------------------------------------------- frames: JumpPoint + frame cell *)
Lemma new_frame : forall j s c' ads' kids pt sa s1 ni, Base j s ->
  frame_addrs c' = Some ads' -> ReadsL (lview (cells s)) ads' kids ->
  push_ s (CJumpPoint pt) = Ok sa -> push sa c' = Ok (s1, ni) ->
  ext s s1 /\ c0 <= ni /\ ni < length (cells s1) /\
  Reads (lview (cells s1)) (ni - o) (TNode (erase c') (TNode (CJumpPoint pt) [] :: kids)).
Proof.
  intros j s c' ads' kids pt sa s1 ni HB Ha HR H1 H2. pose proof HB as (Hr & Hd & Hlen & Hag & Hm).
  pose proof (push__ext _ _ _ H1) as Hext1. pose proof (push_ext _ _ _ _ H2) as Hext2.
  apply push__ok in H1. destruct H1 as [Ec1 Hm1]. apply push_ok in H2. destruct H2 as [-> [Ec2 Hm2]].
  assert (Hcells : cells s1 = cells s ++ [CJumpPoint pt; c']) by (rewrite Ec2, Ec1, <- app_assoc; reflexivity).
  assert (Hext : ext s s1) by (eapply ext_trans; eauto).
  assert (Hl1 : length (cells s1) = length (cells s) + 2) by (rewrite Hcells, app_length; cbn; lia).
  split; auto. rewrite Ec1, app_length. cbn. split; [lia|]. split; [lia|].
  replace (length (cells s) + 1 - o) with (S (length (cells s) - o)) by lia.
  eapply R_frame; eauto.
  - replace (S (length (cells s) - o)) with (S (length (cells s)) - o) by lia.
    rewrite nth_lview_new by lia. rewrite Hcells. rewrite nth_error_app2 by lia.
    replace (S (length (cells s)) - length (cells s)) with 1 by lia. reflexivity.
  - rewrite nth_lview_new by lia. rewrite Hcells. rewrite nth_error_app2 by lia.
    rewrite Nat.sub_diag. reflexivity.
  - eapply ReadsL_agree; eauto. apply agree_lview; try lia. rewrite Hcells. apply agree_app.
Qed.

Lemma clone_frame : forall j s a c ads p kids s1 ni, Base j s -> j <= c0 ->
  nth_error h0 (S a) = Some c -> frame_addrs c = Some ads -> nth_error h0 a = Some (CJumpPoint p) ->
  ReadsL h0 ads kids ->
  clone_cell s (ds + j) (ds + c0) (S a) c = Ok (s1, ni) ->
  ext s s1 /\ c0 <= ni /\ ni < length (cells s1) /\
  Reads (lview (cells s1)) (ni - o) (TNode (erase c) (TNode (CJumpPoint p) [] :: kids)).
Proof.
  intros j s a c ads p kids s1 ni HB Hj Hn Ha Hjp HR H. pose proof HB as (Hr & Hd & Hlen & Hag & Hm).
  assert (Hget : get s a = Ok (CJumpPoint p)).
  { apply get_of_nth. apply Hag; auto. intros x Hx; discriminate. }
  destruct c; try discriminate Ha; cbn in Ha; inversion Ha; subst; cbn [clone_cell jump_before] in H;
    rewrite Hget in H; cbn [bind] in H.
  - bind_as H p'. bind_as H r'. bind_as H sa.
    change (CFrame 0 0) with (erase (CFrame p' r')).
    eapply (new_frame j s (CFrame p' r') [p'; r']); [exact HB|reflexivity| |eassumption|eassumption]. eapply two_lookups; eauto.
  - bind_as H p'. bind_as H sa.
    change (CFrameIndex 0) with (erase (CFrameIndex p')).
    eapply (new_frame j s (CFrameIndex p') [p']); [exact HB|reflexivity| |eassumption|eassumption]. eapply one_lookup; eauto.
  - bind_as H r'. bind_as H sa.
    change (CFrameRegister 0) with (erase (CFrameRegister r')).
    eapply (new_frame j s (CFrameRegister r') [r']); [exact HB|reflexivity| |eassumption|eassumption]. eapply one_lookup; eauto.
  - bind_as H sa. inversion HR; subst.
    eapply (new_frame j s CFrameRoot []); [exact HB|reflexivity| |eassumption|eassumption]. constructor.
Qed.

(* ---------------------------------------------------------------- any readable cell *)
Lemma clone_cell_spec : forall j s index tgt s1 ni t, Base j s -> j <= c0 ->
  Reads h0 index t -> nth_error (cells s) index = Some tgt ->
  clone_cell s (ds + j) (ds + c0) index tgt = Ok (s1, ni) ->
  ext s s1 /\ c0 <= ni /\ ni < length (cells s1) /\ Reads (lview (cells s1)) (ni - o) t.
Proof.
  intros j s index tgt s1 ni t HB Hj HR Htgt H.
  destruct (Base_cell _ _ _ _ HB HR) as [c [Hch Hcs]].
  assert (tgt = c) by congruence. subst tgt.
  inversion HR; subst.
  - (* leaf *)
    assert (c1 = c) by congruence. subst c1.
    assert (Hp : clone_cell s (ds + j) (ds + c0) index c = push s c).
    { destruct c; try discriminate H1; reflexivity. }
    rewrite Hp in H. eapply new_leaf; eauto.
  - assert (c1 = c) by congruence. subst c1. eapply clone_simple; eauto.
  - assert (c1 = c) by congruence. subst c1. eapply clone_seq; eauto.
  - assert (c1 = c) by congruence. subst c1. eapply clone_list; eauto.
  - assert (c1 = c) by congruence. subst c1. eapply clone_frame; eauto.
Qed.

(* ---------------------------------------------------------------- clone_cell only appends *)
Lemma slot_body_ext : forall st en i s s1, slot_body st en i s = Ok s1 -> ext s s1.
Proof.
  intros st en i s s1 H. unfold slot_body in H. bind_as H c.
  destruct c; try discriminate H.
  - eapply push__ext; eauto.
  - bind_as H a'. eapply push__ext; eauto.
  - bind_as H a'. eapply push__ext; eauto.
Qed.

Lemma clone_cell_ext : forall s st en index c s1 ni, clone_cell s st en index c = Ok (s1, ni) -> ext s s1.
Proof.
  intros s st en index c s1 ni H.
  assert (Hcopy : forall sa len sb, copy_following sa index len = Ok sb -> ext sa sb).
  { intros sa len sb Hc. unfold copy_following in Hc. eapply for_range_ext; [|exact Hc].
    intros i x y Hb. cbn in Hb. bind_as Hb cc. eapply push__ext; eauto. }
  assert (Hitems : forall sa len sb, clone_list_items sa st en index len = Ok sb -> ext sa sb).
  { intros sa len sb Hc. unfold clone_list_items in Hc. eapply for_range_ext; [|exact Hc].
    intros i x y Hb. eapply (slot_body_ext st en); exact Hb. }
  destruct c; cbn [clone_cell] in H; try discriminate H;
    try (eapply push_ext; exact H);
    try (bind_as H a1; bind_as H a2; eapply push_ext; exact H);
    try (bind_as H a1; eapply push_ext; exact H).
  - bind_as H pr. destruct pr as [sa li]. bind_as H sb. inversion H; subst.
    eapply ext_trans; [eapply push_ext; eauto|eauto].
  - bind_as H pr. destruct pr as [sa li]. bind_as H sb. inversion H; subst.
    eapply ext_trans; [eapply push_ext; eauto|eauto].
  - bind_as H pr. destruct pr as [sa li]. bind_as H sb. inversion H; subst.
    eapply ext_trans; [eapply push_ext; eauto|eauto].
  - bind_as H pr. destruct pr as [sa li]. bind_as H sb. inversion H; subst.
    eapply ext_trans; [eapply push_ext; eauto|eauto].
  - bind_as H pr. destruct pr as [sa li]. bind_as H sb. inversion H; subst.
    eapply ext_trans; [eapply push_ext; eauto|eauto].
  - bind_as H pt. bind_as H a1. bind_as H a2. bind_as H sa.
    eapply ext_trans; [eapply push__ext; eauto|eapply push_ext; eauto].
  - bind_as H pt. bind_as H a1. bind_as H sa.
    eapply ext_trans; [eapply push__ext; eauto|eapply push_ext; eauto].
  - bind_as H pt. bind_as H a1. bind_as H sa.
    eapply ext_trans; [eapply push__ext; eauto|eapply push_ext; eauto].
  - bind_as H pt. bind_as H sa.
    eapply ext_trans; [eapply push__ext; eauto|eapply push_ext; eauto].
Qed.

(* ---------------------------------------------------------------- the loop *)
Variable sI : store.    (* the store when clone_index_stack starts (only its non-cell fields matter here) *)

(* positions [j, c0) of the index list have been rewritten to CloneMap cells that are faithful *)
Definition Inv (j : nat) (s : store) : Prop :=
  Base j s /\ same_meta sI s /\
  (forall k, k < j -> nth_error (cells s) k = nth_error h0 k) /\
  (forall k orig, j <= k -> k < c0 -> nth_error h0 k = Some (CCloneItem orig) ->
                  exists new, nth_error (cells s) k = Some (CCloneMap orig new)).

Lemma clone_step_inv : forall i s st s' st', i < c0 -> Inv (S i) s -> st = ds + S i ->
  clone_step o (ds + c0) (s, st) i = Ok (s', st') ->
  Inv i s' /\ st' = ds + i.
Proof.
  intros i s st s' st' Hi (HB & HM & Hun & Hmp) -> H.
  pose proof HB as (Hr & Hd & Hlen & Hag & Hm).
  unfold clone_step in H. bind_as H c. apply get_ok in E.
  assert (Eh : nth_error h0 i = Some c) by (rewrite <- Hun by lia; exact E).
  destruct c; try discriminate H. rename a into index.
  bind_as H ex. bind_as H pr. destruct pr as [s1 ni]. bind_as H s2.
  assert (Hst : st' = ds + i /\ s' = s2).
  { destruct (ds + S i) eqn:Ed; [lia|]. inversion H; subst. split; [lia|reflexivity]. }
  destruct Hst as [-> ->]. clear H. split; [|reflexivity].
  (* the state after the optional copy *)
  assert (Hs1 : ext s s1 /\ Good (cells s1) index ni).
  { destruct ex as [x|].
    - inversion E1; subst. split; [apply ext_refl|]. eapply lookup_opt_good; eauto.
    - bind_as E1 tgt. apply get_ok in E3. bind_as E1 pr. destruct pr as [sc nc].
      pose proof (clone_cell_ext _ _ _ _ _ _ _ E4) as Hext.
      assert (Hretc : retention sc = ret) by (destruct Hext as [Hme _]; unfold same_meta in Hme; intuition congruence).
      assert (Hspec : forall t, Reads h0 index t -> c0 <= nc /\ Reads (lview (cells sc)) (nc - o) t).
      { intros t Ht. destruct (clone_cell_spec (S i) s index tgt sc nc t HB ltac:(lia) Ht E3 E4) as [_ [H1 [_ H2]]]. tauto. }
      rewrite Hretc in E1.
      destruct (nc <? ret) eqn:Enr.
      + inversion E1; subst. split; auto. intros t Ht. destruct (Hspec t Ht) as [Hge HR].
        apply Nat.ltb_lt in Enr. destruct Hro as [Hz|Hle]; [|lia].
        match type of HR with Reads _ (?x - o) _ => replace (x - o) with x in HR by lia end. exact HR.
      + destruct (nc <? o) eqn:Eno; [discriminate E1|]. inversion E1; subst. split; auto.
        intros t Ht. destruct (Hspec t Ht) as [Hge HR]. exact HR. }
  destruct Hs1 as [Hext HG].
  pose proof (Base_ext _ _ _ HB Hext) as HB1. pose proof HB1 as (Hr1 & Hd1 & Hlen1 & Hag1 & Hm1).
  apply set_ok in E2. destruct E2 as [Hi1 [Ec2 [Hmeta2 _]]].
  assert (Ei1 : nth_error (cells s1) i = Some (CCloneItem index)) by (eapply ext_nth; eauto).
  assert (Hag12 : agree (cells s1) (cells s2)) by (rewrite Ec2; eapply agree_set_clone_item; eauto).
  assert (Hlen2 : length (cells s2) = length (cells s1)) by (rewrite Ec2; apply set_nth_length).
  assert (Hnth2 : forall k, k <> i -> nth_error (cells s2) k = nth_error (cells s1) k)
    by (intros k Hk; rewrite Ec2; apply nth_set_nth_neq; exact Hk).
  assert (Hnth1 : forall k, k < c0 -> nth_error (cells s1) k = nth_error (cells s) k)
    by (intros k Hk; eapply ext_nth_lt; eauto; lia).
  unfold same_meta in Hmeta2.
  split; [|split; [|split]].
  - (* Base *)
    split; [intuition congruence|]. split; [intuition congruence|]. split; [lia|].
    split; [eapply agree_trans; eauto|].
    intros k orig new Hik Hk Hn. destruct (Nat.eq_dec k i) as [->|Hne].
    + rewrite Ec2, nth_set_nth_eq in Hn by lia. inversion Hn; subst.
      eapply Good_mono; eauto; lia.
    + rewrite Hnth2 in Hn by exact Hne.
      eapply Good_mono; [eapply (Hm1 k); eauto; lia|exact Hag12|lia|lia].
  - destruct Hext as [Hme _]. unfold same_meta in *. intuition congruence.
  - intros k Hk. rewrite Hnth2 by lia. rewrite Hnth1 by lia. apply Hun. lia.
  - intros k orig Hik Hk Hn. destruct (Nat.eq_dec k i) as [->|Hne].
    + rewrite Eh in Hn. inversion Hn; subst. exists ni. rewrite Ec2. apply nth_set_nth_eq. lia.
    + destruct (Hmp k orig ltac:(lia) Hk Hn) as [new Hnew]. exists new.
      rewrite Hnth2 by exact Hne. rewrite Hnth1 by exact Hk. exact Hnew.
Qed.

Lemma clone_fold_inv : forall n top s st s' st', top + n <= c0 -> Inv (top + n) s -> st = ds + top + n ->
  fold_res (clone_step o (ds + c0)) (rev (seq top n)) (s, st) = Ok (s', st') ->
  Inv top s' /\ st' = ds + top.
Proof.
  induction n as [|n IH]; intros top s st s' st' Hle HI -> H.
  - cbn in H. inversion H; subst. rewrite Nat.add_0_r in *. split; [exact HI|lia].
  - rewrite seq_S, rev_app_distr in H. cbn [rev app fold_res] in H.
    bind_as H acc. destruct acc as [s1 st1].
    apply clone_step_inv in E; [|lia|replace (S (top + n)) with (top + S n) by lia; exact HI|lia].
    destruct E as [HI1 ->]. apply (IH top s1 (ds + (top + n)) s' st'); [lia|exact HI1|lia|exact H].
Qed.

End CloneLoop.

(* ---------------------------------------------------------------- clone_index_stack *)
(* If the call succeeds: the store's other fields are unchanged, cells below [top] are unchanged,
   every cell of the index list is now a CloneMap cell whose target is a faithful copy (in the
   view) of the value the cell named, and the result is the target of the cell at [top]. *)
Lemma clone_index_stack_inv : forall s top off s' a',
  off <= length (cells s) ->
  (off = 0 \/ retention s <= length (cells s)) ->
  (forall idx t, idx < retention s -> Reads (cells s) idx t ->
                 Reads (firstn (length (cells s) - off) (cells s)) idx t) ->
  clone_index_stack s top off = Ok (s', a') ->
  Inv (cells s) (length (cells s)) off (retention s) (dstart s) s top s' /\
  top < length (cells s) /\
  exists orig, nth_error (cells s') top = Some (CCloneMap orig a').
Proof.
  intros s top off s' a' Ho Hro Hret H.
  unfold clone_index_stack, cursor in H. bind_as H acc. destruct acc as [s1 st1]. bind_as H c.
  destruct c; try discriminate H. inversion H; subst s1 new. clear H.
  set (c0 := length (cells s)) in *.
  assert (Hlt : top < c0).
  { destruct (Nat.lt_ge_cases top c0) as [Hl|Hg]; auto. exfalso.
    replace (c0 - top) with 0 in E by lia. cbn in E. inversion E; subst.
    apply get_ok in E0. assert (top < length (cells s')) by (apply nth_error_Some; congruence). lia. }
  assert (HI0 : Inv (cells s) c0 off (retention s) (dstart s) s c0 s).
  { split; [|split; [apply same_meta_refl|split]].
    - unfold Base. repeat split; auto. apply agree_refl. intros; lia.
    - intros; reflexivity.
    - intros; lia. }
  apply (clone_fold_inv (cells s) c0 off (retention s) (dstart s) eq_refl Ho Hro Hret s (c0 - top) top) in E;
    [|lia|replace (top + (c0 - top)) with c0 by lia; exact HI0|lia].
  destruct E as [HI _]. split; [exact HI|]. split; [exact Hlt|].
  apply get_ok in E0. eauto.
Qed.

Lemma clone_index_stack_spec : forall s top off from s' a',
  off <= length (cells s) ->
  (off = 0 \/ retention s <= length (cells s)) ->
  (forall idx t, idx < retention s -> Reads (cells s) idx t ->
                 Reads (firstn (length (cells s) - off) (cells s)) idx t) ->
  nth_error (cells s) top = Some (CCloneItem from) ->
  clone_index_stack s top off = Ok (s', a') ->
  Inv (cells s) (length (cells s)) off (retention s) (dstart s) s top s' /\
  Good (cells s) (length (cells s)) off (cells s') from a'.
Proof.
  intros s top off from s' a' Ho Hro Hret Htop H.
  destruct (clone_index_stack_inv _ _ _ _ _ Ho Hro Hret H) as [HI [Hlt [orig Hn]]].
  split; [exact HI|].
  destruct HI as (HB & HM & Hun & Hmp).
  destruct (Hmp top from ltac:(lia) Hlt Htop) as [new Hnew].
  rewrite Hnew in Hn. inversion Hn; subst.
  destruct HB as (_ & _ & _ & _ & Hm). eapply Hm; eauto.
Qed.
