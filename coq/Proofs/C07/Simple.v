(* C07: SimpleGarnishData internals: association probing, end_list placement,
   slice-of-concatenation windows, iterators. *)
From Coq Require Import ZArith NArith List Bool Lia.
From GV Require Import Base.Result Model.Num Model.RuntimeIndex Proofs.C07.Arith.
Import ListNotations.
Local Open Scope N_scope.

Theorem simple_assoc_probe_no_panic : forall sym assoc_len, no_panic (simple_assoc_probe_start sym assoc_len).
Proof.
  intros sym n. unfold simple_assoc_probe_start. destruct (n =? 0) eqn:E; [exact I|].
  apply N.eqb_neq in E. rewrite umod_ok by assumption. exact I.
Qed.

(* ---- end_list *)
Lemma set_nth_length {A} (l : list A) i x : length (set_nth l i x) = length l.
Proof. revert i. induction l as [| h t IH]; intros [| j]; cbn; auto. Qed.

Lemma place_probe_inv : forall fuel ordered len i count item,
  len_N ordered = len -> i < len ->
  match place_probe fuel ordered len i count item with
  | Ok o' => len_N o' = len
  | Panic _ => False
  | _ => True
  end.
Proof.
  induction fuel as [| f IH]; intros ordered len i count item Hlen Hi; cbn [place_probe]; [exact I|].
  rewrite Hlen. rewrite vec_index_ok by assumption. cbn [bind].
  destruct (nth_N ordered i) as [[| p] |].
  - unfold len_N. rewrite set_nth_length. exact Hlen.
  - destruct (len <? count + 1); [exact I|].
    apply IH; [assumption|].
    destruct (len <=? i + 1) eqn:E; [lia | apply N.leb_gt in E; exact E].
  - unfold len_N. rewrite set_nth_length. exact Hlen.
Qed.

Lemma place_all_inv : forall assocs todo index ordered,
  len_N ordered = len_N assocs ->
  index + len_N todo = len_N assocs ->
  no_panic (place_all assocs todo index ordered).
Proof.
  intros assocs todo. induction todo as [| t rest IH]; intros index ordered Hord Hidx; cbn [place_all]; [exact I|].
  assert (Hlt : index < len_N assocs).
  { unfold len_N in *. cbn [length] in Hidx. lia. }
  rewrite vec_index_ok by assumption. cbn [bind].
  destruct (nth_N assocs index) as [item |] eqn:En.
  2:{ unfold nth_N in En. apply nth_error_None in En. unfold len_N in Hlt. lia. }
  assert (Hnz : len_N assocs <> 0) by lia.
  rewrite umod_ok by assumption. cbn [bind].
  pose proof (place_probe_inv (S (S (length assocs))) ordered (len_N assocs) (item mod len_N assocs) 0 item Hord
                (N.mod_lt _ _ Hnz)) as Hp.
  destruct (place_probe (S (S (length assocs))) ordered (len_N assocs) (item mod len_N assocs) 0 item) as [o' | c | s |];
    cbn [bind]; try exact I; try contradiction.
  apply IH; [exact Hp|]. unfold len_N in *. cbn [length] in Hidx. lia.
Qed.

(* for EVERY list of item addresses *)
Theorem simple_end_list_no_panic : forall assocs, no_panic (simple_end_list assocs).
Proof.
  intros assocs. unfold simple_end_list. apply place_all_inv.
  - unfold len_N. rewrite repeat_length. reflexivity.
  - lia.
Qed.

(* ---- slice of a concatenation inside a concatenation (collect_concatenation_indices) *)
Theorem simple_concat_slice_window_no_panic : forall s e,
  in_i32 s = true -> in_i32 e = true -> no_panic (simple_concat_slice_window s e).
Proof.
  intros s e Hs He. unfold simple_concat_slice_window.
  assert (H : in_i64 (e - s) && in_i64 (e - s + 1) = true).
  { unfold in_i64, in_i32, i32_min, i32_max in *. lia. }
  rewrite H. exact I.
Qed.

(* before 59cf91b: a reversed range (stored end one below start) and the full i32 span both panicked *)
Lemma simple_concat_slice_window_v0_refuted :
  simple_concat_slice_window_v0 3 2 = Panic site_concat_window /\
  simple_concat_slice_window_v0 (-2147483648) 2147483647 = Panic site_concat_window /\
  simple_concat_slice_window 3 2 = Ok (3, 0).
Proof. repeat split; vm_compute; reflexivity. Qed.

(* ---- iterators of data/src/data/iterators.rs: for every state *)
Theorem size_iter_no_panic : forall front back,
  no_panic (size_iter_next front back) /\ no_panic (size_iter_next_back front back).
Proof.
  intros front back. split.
  - unfold size_iter_next. destruct (back <=? front); [exact I|]. rewrite usub_ok by lia. exact I.
  - unfold size_iter_next_back. destruct (back =? 0) eqn:E; cbn [orb]; [exact I|].
    destruct (back <=? front); [exact I|]. apply N.eqb_neq in E. rewrite usub_ok by lia. exact I.
Qed.

Theorem vec_iter_no_panic : forall len current, no_panic (vec_iter_next len current).
Proof.
  intros len c. unfold vec_iter_next. destruct (len <=? c) eqn:E; [exact I|].
  apply N.leb_gt in E. rewrite vec_index_ok by assumption. exact I.
Qed.

Corollary iterators_no_panic : forall a b,
  (no_panic (size_iter_next a b) /\ no_panic (size_iter_next_back a b)) /\ no_panic (vec_iter_next a b).
Proof. intros a b. split; [exact (size_iter_no_panic a b) | exact (vec_iter_no_panic a b)]. Qed.
