"""Inventory of potential panic sites in the runtime path of /repo (C07, DESIGN.md section 4).

Regenerated from /repo's working tree on every run.  A *site* is a syntactic place where Rust can unwind or
abort: `.unwrap()`, `.expect(`, indexing / slicing `x[..]`, the macros `panic! unreachable! unimplemented!
todo! assert*!`, `-`/`*`/`<<`/`>>`/`/`/`%` arithmetic and `as usize` casts (index arithmetic that can under/overflow),
calls of std methods that panic on some arguments (`remove`, `insert`, `pow`, `to_digit`, ...),
and functions that call themselves (recursion without an evident depth bound).  `#[cfg(test)]` items and
`#[test]` functions are skipped.  A site is keyed by  file :: function :: normalised line text  (plus an
occurrence counter when the same text occurs twice in one function); line numbers are informational only.

Outputs:
  coq/Gen/PanicSites.v      the inventory as a Coq list + the ids the hand-maintained map classifies as
                            covered by a model `Panic` point (Proofs/C07/Coverage.v checks them)
  tools/panic_sites.json    the inventory for tools/props/c07.py (written as a side effect)
`tools/panic_map.json` (committed, hand-maintained) maps every key to a classification; a site whose exact key is
missing may inherit the entry of a stale key by the conservative re-matching of rematch() (same file, function and
kind, equally many rewritten as disappeared; or a helper extracted from the function that lost them); ids of unmapped
sites start at 900000 so that they are visible in the Coq file as well.
"""
import glob, hashlib, json, os, re
from . import rustsrc

REPO = rustsrc.REPO
VERIF = "/verif"
MAP_PATH = os.path.join(VERIF, "tools", "panic_map.json")
SITES_PATH = os.path.join(VERIF, "tools", "panic_sites.json")

FILE_GLOBS = [
    "runtime/src/*.rs", "runtime/src/runtime/*.rs",
    "data/src/runtime.rs", "data/src/simple.rs", "data/src/lib.rs", "data/src/clone.rs",
    "data/src/data/number.rs", "data/src/data/parsing.rs", "data/src/data/iterators.rs", "data/src/data/mod.rs",
    "data/src/data/stack_frame.rs",
    "data/src/basic/*.rs", "data/src/basic/garnish/*.rs", "data/src/basic/garnish/conversions/*.rs",
    "data/src/basic/object/*.rs",
    "traits/src/helpers/*.rs", "traits/src/data.rs",
]
MACROS = ["panic", "unreachable", "unimplemented", "todo", "assert", "assert_eq", "assert_ne", "debug_assert",
          "debug_assert_eq", "debug_assert_ne"]
KINDS = ["unwrap", "expect", "index", "slice", "macro", "arith", "div", "cast", "call", "recursion"]
COMMON_NAMES = {"new", "next", "next_back", "get", "len", "fmt", "from", "into", "clone", "default", "eq", "cmp",
                "partial_cmp", "hash", "reset", "iter", "push", "pop", "insert", "remove", "to_string", "as_ref"}


def files():
    out = []
    for g in FILE_GLOBS:
        out += sorted(glob.glob(os.path.join(REPO, g)))
    seen, res = set(), []
    for f in out:
        rel = os.path.relpath(f, REPO)
        if rel not in seen:
            seen.add(rel)
            res.append(rel)
    if len(res) < 30:
        raise ValueError("panic-site inventory: only %d source files found (layout changed?)" % len(res))
    return res


def blank_strings(src):
    """Replace the content of string and char literals by spaces (same length, newlines kept)."""
    out, i, n = [], 0, len(src)
    while i < n:
        c = src[i]
        if c == '"':
            out.append('"')
            i += 1
            while i < n and src[i] != '"':
                if src[i] == "\\" and i + 1 < n:
                    out.append("  " if src[i + 1] != "\n" else " \n")
                    i += 2
                else:
                    out.append(src[i] if src[i] == "\n" else " ")
                    i += 1
            out.append('"')
            i += 1
        elif c == "'" and i + 2 < n and src[i + 2] == "'" and src[i + 1] != "\\":
            out.append("' '")
            i += 3
        elif c == "'" and i + 3 < n and src[i + 1] == "\\" and src[i + 3] == "'":
            out.append("'  '")
            i += 4
        elif c == "'" and src.startswith("'\\u{", i):
            j = src.index("'", i + 1)
            out.append("'" + " " * (j - i - 1) + "'")
            i = j + 1
        else:
            out.append(c)
            i += 1
    return "".join(out)


def strip_line_comments_keep_lines(src):
    src = re.sub(r"/\*.*?\*/", lambda m: re.sub(r"[^\n]", " ", m.group(0)), src, flags=re.S)
    out = []
    for line in src.split("\n"):
        i = line.find("//")
        out.append(line if i < 0 else line[:i])
    return "\n".join(out)


def remove_test_items(src):
    """Blank out items annotated #[cfg(test)] or #[test] (the annotated item up to its closing brace / semicolon)."""
    out = src
    pos = 0
    while True:
        m = re.compile(r"#\[\s*(cfg\s*\(\s*test\s*\)|test)\s*\]").search(out, pos)
        if not m:
            break
        j = m.end()
        # skip further attributes
        while True:
            m2 = re.compile(r"\s*#\[[^\]]*\]").match(out, j)
            if not m2:
                break
            j = m2.end()
        k = j
        depth_par = 0
        end = None
        while k < len(out):
            ch = out[k]
            if ch == "(":
                depth_par += 1
            elif ch == ")":
                depth_par -= 1
            elif ch == ";" and depth_par == 0:
                end = k + 1
                break
            elif ch == "{":
                end = rustsrc.match_brace(out, k)
                break
            k += 1
        if end is None:
            raise ValueError("unterminated #[cfg(test)] item")
        out = out[:m.start()] + re.sub(r"[^\n]", " ", out[m.start():end]) + out[end:]
        pos = end
    return out


FN_RE = re.compile(r"\bfn\s+([A-Za-z_]\w*)")
IMPL_RE = re.compile(r"\bimpl\b(?:\s*<[^{;]*?>)?\s+([^{;]+?)\s*(?:where\b[^{;]*)?\{", re.S)


def impl_label(head):
    head = re.sub(r"\s+", " ", head.strip())
    m = re.match(r"(.*?)\s+for\s+(.*)$", head)
    strip_generics = lambda t: re.sub(r"<.*$", "", t).strip().split("::")[-1]
    if m:
        return "%s for %s" % (strip_generics(m.group(1)), strip_generics(m.group(2)))
    return strip_generics(head)


def functions(src):
    """Yield (qualified name, body start offset, body end offset) for every fn with a body; nested fns are
    reported on their own and their text is excluded from the enclosing function by the caller."""
    impls = []
    for m in IMPL_RE.finditer(src):
        o = m.end() - 1
        try:
            e = rustsrc.match_brace(src, o)
        except Exception:
            continue
        impls.append((o, e, impl_label(m.group(1))))
    res = []
    for m in FN_RE.finditer(src):
        name = m.group(1)
        k = m.end()
        depth = 0
        body = None
        while k < len(src):
            ch = src[k]
            if ch in "(<[":
                depth += 1
            elif ch in ")>]":
                if not (ch == ">" and src[k - 1] == "-"):
                    depth -= 1
            elif ch == ";" and depth <= 0:
                break
            elif ch == "{" and depth <= 0:
                body = k
                break
            k += 1
        if body is None:
            continue
        end = rustsrc.match_brace(src, body)
        label = ""
        for (o, e, lab) in impls:
            if o < m.start() < e:
                label = lab  # innermost wins (later in list = started later)
        res.append((("%s::%s" % (label, name)) if label else name, body, end))
    return res


INDEX_RE = re.compile(r"[\w\)\]\?]\[")
ARITH_RE = re.compile(r" (-|\*|-=|\*=|<<|>>|<<=|>>=) ")
DIV_RE = re.compile(r" (/|%|/=|%=) ")
CAST_RE = re.compile(r"\bas usize\b")
MACRO_RE = re.compile(r"\b(%s)!\s*[\(\[\{]" % "|".join(MACROS))
# std methods that panic on some arguments (index out of range, zero chunk size, overflow in debug builds, radix > 36)
CALL_RE = re.compile(r"\.(remove|insert|swap|swap_remove|split_at|split_at_mut|split_off|drain|copy_from_slice|clone_from_slice|"
                     r"chunks|chunks_exact|windows|step_by|pow|abs|to_digit|rotate_left|rotate_right|repeat|unwrap_unchecked|"
                     r"expect_err|unwrap_err)\(")


def bracket_content(line, i):
    depth, j = 0, i
    while j < len(line):
        if line[j] == "[":
            depth += 1
        elif line[j] == "]":
            depth -= 1
            if depth == 0:
                return line[i + 1:j]
        j += 1
    return line[i + 1:]


def scan_line(line):
    """kinds found on one (string-blanked, comment-free) source line; one entry per occurrence"""
    found = []
    for _ in re.finditer(r"\.unwrap\(\)", line):
        found.append("unwrap")
    for _ in re.finditer(r"\.expect\(", line):
        found.append("expect")
    for _ in MACRO_RE.finditer(line):
        found.append("macro")
    for m in INDEX_RE.finditer(line):
        before = line[:m.start() + 1]
        if re.search(r"#!?$", before) or re.search(r"\b(vec|matches|format|println|write|writeln|trace|debug|info|error|warn)!?$", before):
            continue
        inner = bracket_content(line, m.end() - 1)
        # a type like  Foo<[u8; 4]>  or an attribute never has an identifier glued to '['; generics `x: [T; 4]` have a space
        found.append("slice" if ".." in inner else "index")
    for _ in ARITH_RE.finditer(line):
        found.append("arith")
    for _ in DIV_RE.finditer(line):
        found.append("div")
    for _ in CAST_RE.finditer(line):
        found.append("cast")
    for _ in CALL_RE.finditer(line):
        found.append("call")
    return found


def normalise(line):
    return re.sub(r"\s+", " ", line.strip())


def inventory():
    sites = []
    all_fn_names = {}
    per_file_fns = {}
    for rel in files():
        raw = rustsrc.read(rel)
        blanked = remove_test_items(strip_line_comments_keep_lines(blank_strings(raw)))
        raw_lines = raw.split("\n")
        fns = functions(blanked)
        per_file_fns[rel] = fns
        # offsets -> line numbers
        line_starts = [0]
        for m in re.finditer("\n", blanked):
            line_starts.append(m.end())

        def line_of(off):
            lo, hi = 0, len(line_starts) - 1
            while lo < hi:
                mid = (lo + hi + 1) // 2
                if line_starts[mid] <= off:
                    lo = mid
                else:
                    hi = mid - 1
            return lo

        # innermost function for each line
        owner = {}
        for (name, b, e) in sorted(fns, key=lambda t: t[2] - t[1], reverse=True):
            for ln in range(line_of(b), line_of(e - 1) + 1):
                owner[ln] = name
        counters = {}
        blines = blanked.split("\n")
        for ln, bl in enumerate(blines):
            if ln not in owner:
                continue
            kinds = scan_line(bl)
            if not kinds:
                continue
            text = normalise(raw_lines[ln].split("//")[0] if '"' not in raw_lines[ln] else raw_lines[ln])
            for kind in kinds:
                base = "%s :: %s :: %s :: %s" % (rel, owner[ln], kind, text)
                c = counters.get(base, 0)
                counters[base] = c + 1
                key = base if c == 0 else "%s #%d" % (base, c + 1)
                sites.append({"key": key, "file": rel, "function": owner[ln], "kind": kind, "text": text, "line": ln + 1})
        # recursion: a function whose body mentions a call of its own simple name
        for (name, b, e) in fns:
            simple = name.split("::")[-1]
            all_fn_names.setdefault(simple, []).append((rel, name))
            body = blanked[b:e]
            # remove nested fn bodies
            for (n2, b2, e2) in fns:
                if b < b2 and e2 <= e and (n2, b2) != (name, b):
                    body = body[:b2 - b] + " " * (e2 - b2) + body[e2 - b:]
            if simple in COMMON_NAMES:
                continue
            if re.search(r"(?<![\w.])%s\s*(::<[^>]*>)?\(" % re.escape(simple), body) or \
               re.search(r"\b(self|Self|this)\s*(\.|::)\s*%s\s*(::<[^>]*>)?\(" % re.escape(simple), body):
                key = "%s :: %s :: recursion :: calls itself" % (rel, name)
                sites.append({"key": key, "file": rel, "function": name, "kind": "recursion", "text": "calls itself",
                              "line": line_of(b) + 1})
    return sites


def reachable_functions(roots=("execute_current_instruction",)):
    """Name-based over-approximation of the functions reachable from the roots: a function body that mentions an
    identifier equal to the simple name of any inventoried function is taken to call (or pass around) every
    function of that name.  Returns (set of qualified 'file :: function' names reachable, all functions)."""
    bodies = {}     # (file, qualified name) -> set of identifiers in the body
    by_simple = {}
    for rel in files():
        raw = rustsrc.read(rel)
        blanked = remove_test_items(strip_line_comments_keep_lines(blank_strings(raw)))
        fns = functions(blanked)
        for (name, b, e) in fns:
            body = blanked[b:e]
            for (n2, b2, e2) in fns:
                if b < b2 and e2 <= e and (n2, b2) != (name, b):
                    body = body[:b2 - b] + " " * (e2 - b2) + body[e2 - b:]
            ids = set(re.findall(r"[A-Za-z_]\w*", body))
            key = (rel, name)
            bodies[key] = bodies.get(key, set()) | ids
            by_simple.setdefault(name.split("::")[-1], set()).add(key)
    # operators: `a + b` on SimpleNumber etc. are calls of the trait methods add/mul/...; treat the operator impls of
    # number.rs as reachable whenever any reachable body contains the operator on a non-literal -- conservatively: always
    seen, work = set(), []
    for r in roots:
        for key in by_simple.get(r, ()):
            work.append(key)
    while work:
        key = work.pop()
        if key in seen:
            continue
        seen.add(key)
        for ident in bodies[key]:
            for k2 in by_simple.get(ident, ()):
                if k2 not in seen:
                    work.append(k2)
    _BODIES.clear()
    _BODIES.update(bodies)
    return seen, set(bodies.keys())


_BODIES = {}   # (file, qualified function) -> identifiers of the body, filled by reachable_functions()


def load_map():
    if not os.path.exists(MAP_PATH):
        return {"sites": {}}
    return json.load(open(MAP_PATH))


def coq_string(s):
    return '"' + s.replace('"', '""') + '"'


def ascii_only(t):
    return "".join(c if 32 <= ord(c) < 127 else "?" for c in t)


def rematch(rows, pmap):
    """Conservative re-matching of sites whose exact key is not in the map (the exact key stays the primary tie).

    Rule 1 (rewritten in place): per (file, function, kind) let U be the unmapped current sites and S the stale
    map entries (keys of that file/function/kind that no longer occur in the source).  Only if |U| == |S| are they
    paired, in source order (S by id), and each site inherits the stale entry's id and classification.  If a site
    was ADDED (|U| > |S|) the whole group stays unmapped; nothing is ever matched across functions by this rule.

    Rule 2 (helper extracted): a function that has NO entry in the map at all may inherit from exactly one other
    function of the same file -- one whose current body mentions the new function's name, that has at least |U|
    stale entries of that kind left, all of them with the same class and lemma.  (A renamed or moved function is not
    called by the function that lost the sites, so renames and moves still alarm.)

    Returns the list of re-matched records."""
    present = {r["key"] for r in rows}
    stale = {}
    fn_has_entries = set()
    for key, ent in pmap.items():
        parts = key.split(" :: ", 3)
        if len(parts) < 4:
            continue
        fn_has_entries.add((parts[0], parts[1]))
        if key not in present:
            stale.setdefault((parts[0], parts[1], parts[2]), []).append((ent["id"], key, ent))
    for g in stale:
        stale[g].sort(key=lambda t: t[0])
    groups = {}
    for r in rows:
        if r["class"] == "UNMAPPED":
            groups.setdefault((r["file"], r["function"], r["kind"]), []).append(r)
    out = []

    def inherit(r, st, rule):
        (sid, skey, ent) = st
        r["id"], r["class"] = sid, ent["class"]
        r["rematched_from"] = skey
        r["rematch_rule"] = rule
        if ent.get("lemma"):
            r["lemma"] = ent["lemma"]
        out.append({"id": sid, "class": ent["class"], "lemma": ent.get("lemma"), "rule": rule, "file": r["file"],
                    "function": r["function"], "kind": r["kind"], "old_key": skey, "old_text": skey.split(" :: ", 3)[3],
                    "new_text": r["text"], "line": r["line"]})

    # rule 1
    for g, us in sorted(groups.items()):
        ss = stale.get(g, [])
        if us and len(us) == len(ss):
            for r, st in zip(sorted(us, key=lambda r: r["line"]), ss):
                inherit(r, st, "rewritten-in-place")
            stale[g] = []
    # rule 2
    for g, us in sorted(groups.items()):
        if not us or us[0]["class"] != "UNMAPPED":
            continue
        (rel, fn, kind) = g
        if (rel, fn) in fn_has_entries:
            continue
        simple = fn.split("::")[-1]
        cands = []
        for (rel2, fn2, kind2), ss in stale.items():
            if rel2 != rel or kind2 != kind or fn2 == fn or len(ss) < len(us):
                continue
            if len({(e["class"], e.get("lemma")) for (_, _, e) in ss}) != 1:
                continue
            if simple in _BODIES.get((rel2, fn2), set()):
                cands.append((rel2, fn2, kind2))
        if len(cands) == 1:
            ss = stale[cands[0]]
            for r, st in zip(sorted(us, key=lambda r: r["line"]), ss[:len(us)]):
                inherit(r, st, "helper-extracted-from " + cands[0][1])
            stale[cands[0]] = ss[len(us):]
    return out


def generate():
    sites = inventory()
    if len(sites) < 100:
        raise ValueError("panic-site inventory: only %d sites found (scanner broken?)" % len(sites))
    pmap = load_map().get("sites", {})
    reach, _all = reachable_functions()
    next_unmapped = 900000
    modelled = []
    modelled_lemmas = []
    rows = []
    by_kind = {}
    for s in sites:
        ent = pmap.get(s["key"])
        if ent is None:
            s["id"] = next_unmapped
            next_unmapped += 1
            s["class"] = "UNMAPPED"
        else:
            s["id"] = ent["id"]
            s["class"] = ent["class"]
            if ent["class"] == "model":
                modelled.append(ent["id"])
                modelled_lemmas.append((ent["id"], ent.get("lemma", "")))
        s["reachable"] = (s["file"], s["function"]) in reach
        by_kind[s["kind"]] = by_kind.get(s["kind"], 0) + 1
        rows.append(s)
    rematched = rematch(rows, pmap)
    for s in rows:
        if s.get("rematched_from") and s["class"] == "model":
            modelled.append(s["id"])
            modelled_lemmas.append((s["id"], s.get("lemma", "")))
    blob = json.dumps({"sites": rows, "by_kind": by_kind, "files": files(), "rematched": rematched}, indent=1, sort_keys=True)
    old = open(SITES_PATH).read() if os.path.exists(SITES_PATH) else None
    if old != blob:
        with open(SITES_PATH, "w") as f:
            f.write(blob)
    out = [rustsrc.HEADER % "the runtime path (tools/sync/panicsites.py; classifications from tools/panic_map.json)"]
    out[0] = out[0].replace("From Coq Require Import NArith List.", "From Coq Require Import NArith List String.")
    out.append("Inductive site_kind : Type := " + " | ".join("K_" + k for k in KINDS) + ".\n")
    out.append("Inductive site_class : Type := C_model | C_argument | C_out_of_scope | C_finding | C_unmapped.\n")
    out.append("Local Open Scope string_scope.\n")
    out.append("(* id, kind, classification, file, function *)")
    out.append("Definition panic_sites : list (N * site_kind * site_class * string * string) :=\n  [")
    cls = {"model": "C_model", "argument": "C_argument", "out_of_scope": "C_out_of_scope", "finding": "C_finding", "UNMAPPED": "C_unmapped"}
    lines = []
    for s in rows:
        lines.append("   (%d%%N, K_%s, %s, %s, %s)" % (s["id"], s["kind"], cls.get(s["class"], "C_unmapped"), coq_string(s["file"]), coq_string(s["function"])))
    out.append(";\n".join(lines))
    out.append("  ].\n")
    out.append("(* ids of the sites that tools/panic_map.json says are covered by a [Panic] point of a model *)")
    out.append("Definition modelled_sites : list N := [%s].\n" % "; ".join("%d" % i for i in sorted(set(modelled))))
    out.append("(* ... and the lemma of coq/Proofs/C07 that the map cites for each (Proofs/C07/Coverage.v checks that every name is proved) *)")
    out.append("Definition modelled_site_lemmas : list (N * string) :=\n  [%s].\n" % ";\n   ".join(
        "(%d%%N, %s)" % (i, coq_string(l)) for (i, l) in sorted(set(modelled_lemmas))))
    out.append("(* sites whose line was rewritten (exact key not in the map) and that inherited the classification of the stale entry\n"
               "   they replace, by the conservative re-matching rule of tools/sync/panicsites.py: id, old text, new text *)")
    out.append("Definition rematched_sites : list (N * string * string) :=\n  [%s].\n" % ";\n   ".join(
        "(%d%%N, %s, %s)" % (r["id"], coq_string(ascii_only(r["old_text"])), coq_string(ascii_only(r["new_text"]))) for r in rematched))
    out.append("Definition unmapped_sites : list N := [%s].\n" % "; ".join("%d" % s["id"] for s in rows if s["class"] == "UNMAPPED"))
    return {"PanicSites.v": "\n".join(out) + "\n"}


if __name__ == "__main__":
    import collections
    ss = inventory()
    print(len(ss), collections.Counter(s["kind"] for s in ss))
