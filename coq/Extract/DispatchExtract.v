(* Extraction of the operation-dispatch model and the C08 / C10 specs for the
   correspondence check and the direct oracle.
   ExtrOcamlBasic only; nat / N / Z stay Coq datatypes. No Extract Constant. *)
Require Import ExtrOcamlBasic.
From Coq Require Import NArith ZArith List.
From GV Require Import Gen.Instr Gen.Exec Gen.Truth Gen.Dispatch Model.OpDispatch Spec.Defined Spec.Falsy
  Proofs.C08.Enum Proofs.C08.Statement Proofs.C10.Classify.
Cd "../build/ocaml".
Extraction "dispatch_model.ml" step arity depth_delta wf_operand
  all_instruction all_data_type instruction_index data_type_index
  operands defined well_shaped undefined_case defined_case c08_expected expected_call escapes
  falsy truth testing_constructs classify classify_xor_right verdict logic_shape
  is_true_value_falsy jump_if_true_falsy jump_if_false_falsy.
Cd "../../coq".
