//! Shared by the `wfcode` (C05), `depth` (C06) and `multi` (C20) harness binaries
//! (included with `#[path = "../codekit.rs"] mod codekit;`): turning case lines
//! into tokens, building on either data implementation, printing the built
//! instruction stream / jump table / metadata exactly as `pipeline` does (so
//! that the model driver output can be diffed), plus the facts the native
//! oracles need (data type of every data operand, node definitions), stack
//! depth probes that work through the public API only (by popping a clone),
//! and a single-stepping executor.
#![allow(dead_code)]
use garnish_lang_compiler::build::build;
use garnish_lang_compiler::lex::{lex, LexerToken, TokenType};
use garnish_lang_compiler::parse::{parse, ParseNode};
use garnish_lang_runtime::{execute_current_instruction, SimpleRuntimeState};
use garnish_lang_simple_data::{BasicGarnishData, NoOpCompanion, SimpleGarnishData, SimpleNumber};
use garnish_lang_traits::{GarnishData, GarnishDataType, Instruction, SymbolListPart};
use garnish_verif_harness::gen_tables::TOKEN_TYPES;
use garnish_verif_harness::*;

pub type Simple = SimpleGarnishData;
pub type Basic = BasicGarnishData<(), NoOpCompanion>;

/// What the harness needs from a data implementation beyond `GarnishData`.
pub trait Kit: GarnishData<Size = usize, Number = SimpleNumber, Char = char, Byte = u8, Symbol = u64> + Clone {
    fn fresh() -> Self;
    const NAME: &'static str;
    /// Simple keeps frame markers inside the register vector
    const FRAME_MARKERS: usize;
}

impl Kit for Simple {
    fn fresh() -> Self {
        SimpleGarnishData::new()
    }
    const NAME: &'static str = "S";
    const FRAME_MARKERS: usize = 1;
}

impl Kit for Basic {
    fn fresh() -> Self {
        BasicGarnishData::new(NoOpCompanion::new()).expect("basic")
    }
    const NAME: &'static str = "B";
    const FRAME_MARKERS: usize = 0;
}

pub fn tt_index(t: TokenType) -> usize {
    TOKEN_TYPES.iter().position(|x| *x == t).expect("token type in table")
}

/// Same representative texts as `pipeline` (the model's `lit_ok` is constantly true for them).
pub fn repr_text(t: TokenType) -> &'static str {
    match t {
        TokenType::Number => "5",
        TokenType::Identifier => "a",
        TokenType::CharList => "\"s\"",
        TokenType::ByteList => "'b'",
        TokenType::Symbol => ":s",
        TokenType::Whitespace => " ",
        TokenType::Subexpression => "\n\n",
        TokenType::PrefixIdentifier => "`f",
        TokenType::SuffixIdentifier => "f`",
        TokenType::InfixIdentifier => "`f`",
        TokenType::Annotation => "@a",
        TokenType::LineAnnotation => "@@ c",
        _ => "op",
    }
}

pub fn opt(o: Option<usize>) -> String {
    match o {
        None => "-".to_string(),
        Some(v) => v.to_string(),
    }
}

pub fn parse_class(msg: &str) -> u32 {
    if msg.starts_with("Syntax Error: A ") {
        1
    } else if msg.starts_with("Syntax Error: Unmatched grouping") {
        2
    } else if msg.starts_with("Syntax Error: Unclosed grouping") {
        3
    } else if msg.starts_with("Implementation Error") {
        4
    } else if msg.starts_with("Syntax Error: Expected") {
        5
    } else if msg.starts_with("Syntax Error: Missing operand") {
        6
    } else {
        9
    }
}

pub fn show_nodes(nodes: &Vec<ParseNode>) -> String {
    nodes
        .iter()
        .map(|n| {
            let tok = n.get_lex_token();
            let t = if tok.get_line() == 0 { "e".to_string() } else { tok.get_column().to_string() };
            format!(
                "{}.{}.{}.{}.{}.{}",
                n.get_definition() as usize,
                n.get_secondary_definition() as usize,
                opt(n.get_parent()),
                opt(n.get_left()),
                opt(n.get_right()),
                t
            )
        })
        .collect::<Vec<_>>()
        .join(";")
}

/// Tokens of a `T i j ..` (token-type indices) or `S hex,..` (source text) payload.
/// Tokens are re-created with line 1 and column = index, as `pipeline` does, so that
/// node listings name tokens by index.
pub enum Lexed {
    Tokens(Vec<LexerToken>, Vec<usize>),
    Fail(&'static str),
}

pub fn tokens_of(kind: &str, rest: &str) -> Lexed {
    match kind {
        "T" => {
            let idx: Vec<usize> = rest.split(' ').filter(|x| !x.is_empty()).map(|x| x.parse().expect("idx")).collect();
            let tokens: Vec<LexerToken> = idx
                .iter()
                .enumerate()
                .map(|(i, k)| LexerToken::new(repr_text(TOKEN_TYPES[*k]).to_string(), TOKEN_TYPES[*k], 1, i))
                .collect();
            Lexed::Tokens(tokens, idx)
        }
        "S" => {
            let src = hex_to_string(rest);
            match catch(|| lex(&src)) {
                Err(_) => Lexed::Fail("PANIC"),
                Ok(Err(_)) => Lexed::Fail("ERR"),
                Ok(Ok(toks)) => {
                    let idx: Vec<usize> = toks.iter().map(|t| tt_index(t.get_token_type())).collect();
                    let tokens: Vec<LexerToken> = toks
                        .iter()
                        .enumerate()
                        .map(|(i, t)| LexerToken::new(t.get_text().clone(), t.get_token_type(), 1, i))
                        .collect();
                    Lexed::Tokens(tokens, idx)
                }
            }
        }
        _ => Lexed::Fail("BADCASE"),
    }
}

pub fn toks_field(idx: &Vec<usize>) -> String {
    format!("toks={}", idx.iter().map(|x| x.to_string()).collect::<Vec<_>>().join(","))
}

pub struct Parsed {
    pub root: usize,
    pub nodes: Vec<ParseNode>,
}

/// `Ok(parsed)` or the P= field text of the failure.
pub fn parse_tokens(tokens: &Vec<LexerToken>) -> Result<Parsed, String> {
    match catch(|| parse(tokens)) {
        Err(_) => Err("PANIC".to_string()),
        Ok(Err(e)) => Err(format!("ERR{}", parse_class(e.get_message()))),
        Ok(Ok(r)) => {
            let root = r.get_root();
            Ok(Parsed { root, nodes: r.get_nodes_owned() })
        }
    }
}

pub struct Built {
    pub entry: usize,
    pub meta: Vec<Option<usize>>,
    pub instr_from: usize,
    pub instr_to: usize,
    pub jump_from: usize,
    pub jump_to: usize,
    pub data_from: usize,
    pub data_to: usize,
}

/// Build into `data`; `Err(class)` where class is ERR10 (builder's own error), ERR11 (data error) or PANIC.
pub fn build_into<D: Kit>(data: &mut D, p: &Parsed) -> Result<Built, String> {
    let instr_from = data.get_instruction_len();
    let jump_from = data.get_jump_table_len();
    let data_from = data.get_data_len();
    let nodes = p.nodes.clone();
    let root = p.root;
    let r = catch(|| {
        let r = build(root, nodes, data);
        r.map(|bd| (*bd.jump_index(), bd.instruction_metadata().iter().map(|m| m.get_parse_node_index()).collect::<Vec<_>>()))
    });
    match r {
        Err(_) => Err("PANIC".to_string()),
        Ok(Err(e)) => Err(format!("ERR{}", if e.get_message().is_empty() { 11 } else { 10 })),
        Ok(Ok((entry, meta))) => Ok(Built {
            entry,
            meta,
            instr_from,
            instr_to: data.get_instruction_len(),
            jump_from,
            jump_to: data.get_jump_table_len(),
            data_from,
            data_to: data.get_data_len(),
        }),
    }
}

/// Operand in `pipeline` notation: `-`, `d` (data constant), `x<j>` (expression value), `n<k>`.
pub fn show_operand<D: Kit>(data: &D, instr: Instruction, d: Option<usize>) -> String {
    match (instr, d) {
        (_, None) => "-".to_string(),
        (Instruction::Put, Some(a)) => match data.get_data_type(a) {
            Ok(GarnishDataType::Expression) => match data.get_expression(a) {
                Ok(j) => format!("x{}", j),
                Err(_) => "x?".to_string(),
            },
            Ok(_) => "d".to_string(),
            Err(_) => "d?".to_string(),
        },
        (Instruction::Resolve, Some(_)) => "d".to_string(),
        (_, Some(k)) => format!("n{}", k),
    }
}

/// `I[..]:J[..]` for the index ranges given (whole tables for a fresh data object).
pub fn show_tables<D: Kit>(data: &D, i_from: usize, i_to: usize, j_from: usize, j_to: usize) -> String {
    let mut ins = vec![];
    for i in i_from..i_to {
        match data.get_instruction(i) {
            Some((instr, d)) => ins.push(format!("{}{}", instr as usize, show_operand(data, instr, d))),
            None => ins.push("?".to_string()),
        }
    }
    let mut js = vec![];
    for j in j_from..j_to {
        js.push(opt(data.get_from_jump_table(j)));
    }
    format!("I[{}]:J[{}]", ins.join(","), js.join(","))
}

pub fn show_meta(meta: &Vec<Option<usize>>) -> String {
    format!("M[{}]", meta.iter().map(|m| opt(*m)).collect::<Vec<_>>().join(","))
}

/// The `OK:entry:I[..]:J[..]:M[..]` text of `pipeline`, restricted to what this build added.
pub fn show_built<D: Kit>(data: &D, b: &Built) -> String {
    format!("OK:{}:{}:{}", b.entry, show_tables(data, b.instr_from, b.instr_to, b.jump_from, b.jump_to), show_meta(&b.meta))
}

/// Per instruction: the data type the operand address holds (`-` when the instruction has no
/// data-address operand, `!` when the address is outside the data or unreadable).
pub fn show_kinds<D: Kit>(data: &D, i_from: usize, i_to: usize) -> String {
    let mut ks = vec![];
    for i in i_from..i_to {
        let k = match data.get_instruction(i) {
            Some((Instruction::Put, Some(a))) | Some((Instruction::Resolve, Some(a))) => {
                if a >= data.get_data_len() {
                    "!".to_string()
                } else {
                    match data.get_data_type(a) {
                        Ok(t) => (t as usize).to_string(),
                        Err(_) => "!".to_string(),
                    }
                }
            }
            Some((Instruction::Put, None)) | Some((Instruction::Resolve, None)) => "!".to_string(),
            _ => "-".to_string(),
        };
        ks.push(k);
    }
    format!("K[{}]", ks.join(","))
}

// ---------------------------------------------------------------- value trees
pub fn show_num(n: SimpleNumber) -> String {
    match n {
        SimpleNumber::Integer(i) => format!("i{}", hex_i64(i as i64)),
        SimpleNumber::Float(f) => format!("f{:016x}", f.to_bits()),
    }
}

/// Structural value read through the getters; expression values are printed relative to
/// `jump_base` (so that a program built at an offset prints like the program built alone).
pub fn tree<D: Kit>(d: &D, addr: usize, depth: usize, jump_base: usize) -> String {
    let t = match d.get_data_type(addr) {
        Err(_) => return "Err".to_string(),
        Ok(t) => t,
    };
    if depth == 0 {
        return "~".to_string();
    }
    let two = |name: &str, r: Result<(usize, usize), D::Error>| -> String {
        match r {
            Err(_) => format!("{}(Err)", name),
            Ok((a, b)) => format!("{}({},{})", name, tree(d, a, depth - 1, jump_base), tree(d, b, depth - 1, jump_base)),
        }
    };
    match t {
        GarnishDataType::Invalid => "Inv".to_string(),
        GarnishDataType::Unit => "U".to_string(),
        GarnishDataType::True => "T".to_string(),
        GarnishDataType::False => "F".to_string(),
        GarnishDataType::Custom => "Cu".to_string(),
        GarnishDataType::Type => match d.get_type(addr) {
            Ok(t) => format!("Ty({})", t as usize),
            Err(_) => "Ty(Err)".to_string(),
        },
        GarnishDataType::Number => match d.get_number(addr) {
            Ok(n) => format!("N({})", show_num(n)),
            Err(_) => "N(Err)".to_string(),
        },
        GarnishDataType::Char => match d.get_char(addr) {
            Ok(c) => format!("Ch({:x})", c as u32),
            Err(_) => "Ch(Err)".to_string(),
        },
        GarnishDataType::Byte => match d.get_byte(addr) {
            Ok(c) => format!("By({:x})", c),
            Err(_) => "By(Err)".to_string(),
        },
        GarnishDataType::Symbol => match d.get_symbol(addr) {
            Ok(c) => format!("Sy({:x})", c),
            Err(_) => "Sy(Err)".to_string(),
        },
        GarnishDataType::Expression => match d.get_expression(addr) {
            Ok(c) => format!("Ex({})", c as i64 - jump_base as i64),
            Err(_) => "Ex(Err)".to_string(),
        },
        GarnishDataType::External => match d.get_external(addr) {
            Ok(c) => format!("Xt({})", c),
            Err(_) => "Xt(Err)".to_string(),
        },
        GarnishDataType::CharList => match d.get_char_list_len(addr) {
            Err(_) => "Cl(Err)".to_string(),
            Ok(len) => format!(
                "Cl({})",
                (0..len)
                    .map(|i| match d.get_char_list_item(addr, SimpleNumber::Integer(i as i32)) {
                        Ok(Some(c)) => format!("{:x}", c as u32),
                        Ok(None) => "?".to_string(),
                        Err(_) => "!".to_string(),
                    })
                    .collect::<Vec<_>>()
                    .join(".")
            ),
        },
        GarnishDataType::ByteList => match d.get_byte_list_len(addr) {
            Err(_) => "Bl(Err)".to_string(),
            Ok(len) => format!(
                "Bl({})",
                (0..len)
                    .map(|i| match d.get_byte_list_item(addr, SimpleNumber::Integer(i as i32)) {
                        Ok(Some(c)) => format!("{:x}", c),
                        Ok(None) => "?".to_string(),
                        Err(_) => "!".to_string(),
                    })
                    .collect::<Vec<_>>()
                    .join(".")
            ),
        },
        GarnishDataType::SymbolList => match d.get_symbol_list_len(addr) {
            Err(_) => "SyL(Err)".to_string(),
            Ok(len) => format!(
                "SyL({})",
                (0..len)
                    .map(|i| match d.get_symbol_list_item(addr, SimpleNumber::Integer(i as i32)) {
                        Ok(Some(SymbolListPart::Symbol(s))) => format!("s{:x}", s),
                        Ok(Some(SymbolListPart::Number(n))) => format!("n{}", show_num(n)),
                        Ok(None) => "?".to_string(),
                        Err(_) => "!".to_string(),
                    })
                    .collect::<Vec<_>>()
                    .join(".")
            ),
        },
        GarnishDataType::Pair => two("P", d.get_pair(addr)),
        GarnishDataType::Concatenation => two("Cc", d.get_concatenation(addr)),
        GarnishDataType::Range => two("Rg", d.get_range(addr)),
        GarnishDataType::Slice => two("Sl", d.get_slice(addr)),
        GarnishDataType::Partial => two("Pt", d.get_partial(addr)),
        GarnishDataType::List => match d.get_list_len(addr) {
            Err(_) => "L(Err)".to_string(),
            Ok(len) => {
                let items: Vec<String> = (0..len)
                    .map(|i| match d.get_list_item(addr, SimpleNumber::Integer(i as i32)) {
                        Ok(Some(a)) => tree(d, a, depth - 1, jump_base),
                        Ok(None) => "?".to_string(),
                        Err(_) => "!".to_string(),
                    })
                    .collect();
                format!("L({})", items.join(","))
            }
        },
    }
}

// ---------------------------------------------------------------- stack probes
pub fn value_depth<D: Kit>(d: &D) -> usize {
    let mut c = d.clone();
    let mut n = 0;
    while c.pop_value_stack().is_some() {
        n += 1;
        if n > 100000 {
            break;
        }
    }
    n
}

pub fn frame_depth<D: Kit>(d: &D) -> usize {
    let mut c = d.clone();
    let mut n = 0;
    while let Ok(Some(_)) = c.pop_frame() {
        n += 1;
        if n > 100000 {
            break;
        }
    }
    n
}

/// Registers above the base of the innermost frame (all registers when no frame is active).
/// Negative when the callee has popped below its base (possible on Basic, whose register chain
/// has no frame barrier).
pub fn rel_register_depth<D: Kit>(d: &D) -> i64 {
    let total = d.get_register_len() as i64;
    let mut c = d.clone();
    match c.pop_frame() {
        Ok(Some(_)) => total - c.get_register_len() as i64 - D::FRAME_MARKERS as i64,
        _ => total,
    }
}

pub struct Probe {
    pub pc: usize,
    pub reg_total: usize,
    pub reg_rel: i64,
    pub values: usize,
    pub frames: usize,
}

pub fn probe<D: Kit>(d: &D) -> Probe {
    let frames = frame_depth(d);
    // Simple keeps one marker per frame inside the register vector: not an operand
    let reg_total = d.get_register_len().saturating_sub(D::FRAME_MARKERS * frames);
    Probe { pc: d.get_instruction_cursor(), reg_total, reg_rel: rel_register_depth(d), values: value_depth(d), frames }
}

impl Probe {
    pub fn show(&self) -> String {
        format!("{}.{}.{}.{}.{}", self.pc, self.reg_rel, self.values, self.frames, self.reg_total)
    }
}

pub enum RunEnd {
    End,
    Error,
    Panic,
    Limit,
    NoEntry,
}

pub struct Run {
    pub end: RunEnd,
    pub steps: usize,
    /// state before the first step and after every step: pc.rel.values.frames.total
    pub trace: Vec<String>,
    /// instruction executed by each step (index into Instruction)
    pub executed: Vec<usize>,
    pub result: String,
}

/// Run from the jump-table entry `entry` with `input` as the input value (unit when `None`),
/// one `execute_current_instruction` at a time. `trace_limit` bounds the recorded trace, `step_limit` the run.
pub fn run_from<D: Kit>(d: &mut D, entry: usize, input: Option<i32>, step_limit: usize, trace_limit: usize, jump_base: usize) -> Run {
    let mut run = Run { end: RunEnd::End, steps: 0, trace: vec![], executed: vec![], result: "-".to_string() };
    let start = match d.get_from_jump_table(entry) {
        Some(s) => s,
        None => {
            run.end = RunEnd::NoEntry;
            return run;
        }
    };
    if d.set_instruction_cursor(start).is_err() {
        run.end = RunEnd::Error;
        return run;
    }
    let pushed = match input {
        None => d.add_unit().and_then(|a| d.push_value_stack(a)),
        Some(n) => d.add_number(SimpleNumber::Integer(n)).and_then(|a| d.push_value_stack(a)),
    };
    if pushed.is_err() {
        run.end = RunEnd::Error;
        return run;
    }
    run.trace.push(probe(d).show());
    loop {
        let pc = d.get_instruction_cursor();
        let ins = d.get_instruction(pc).map(|(i, _)| i as usize).unwrap_or(999);
        let r = catch(|| execute_current_instruction(d));
        run.steps += 1;
        if run.executed.len() < trace_limit {
            run.executed.push(ins);
        }
        match r {
            Err(_) => {
                run.end = RunEnd::Panic;
                break;
            }
            Ok(Err(_)) => {
                run.end = RunEnd::Error;
                if run.trace.len() <= trace_limit {
                    run.trace.push(probe(d).show());
                }
                break;
            }
            Ok(Ok(info)) => {
                if run.trace.len() <= trace_limit {
                    run.trace.push(probe(d).show());
                }
                if info.get_state() == SimpleRuntimeState::End {
                    run.end = RunEnd::End;
                    break;
                }
            }
        }
        if run.steps >= step_limit {
            run.end = RunEnd::Limit;
            break;
        }
    }
    if let RunEnd::End = run.end {
        run.result = match d.get_current_value() {
            Some(a) => tree(d, a, 12, jump_base),
            None => "novalue".to_string(),
        };
    }
    run
}

impl Run {
    pub fn end_name(&self) -> &'static str {
        match self.end {
            RunEnd::End => "END",
            RunEnd::Error => "ERROR",
            RunEnd::Panic => "PANIC",
            RunEnd::Limit => "LIMIT",
            RunEnd::NoEntry => "NOENTRY",
        }
    }
}
