(* Bounded static theorem of C06 (the bound is in the name): for every token
   triple over the full alphabet and every token sequence of length <= 5 over
   the reduced alphabet, a program accepted by the parser and builder models,
   without a bare `;;` and outside the finding classes C06-K1..K4, is typable
   (for three initial states of the data object).  By vm_compute. *)
From Coq Require Import List Arith Bool NArith Lia.
From GV Require Import Base.Result Gen.TokenTypes Gen.Defs Gen.Instr Model.Parser Model.BuilderWL Model.Compile
  Spec.Depth Proofs.C05.Known Proofs.C05.Bounded Proofs.C06.Known Proofs.C06.DepthSound.
Import ListNotations.

Definition typable_b (init : binit) (r : bstate * nat) : bool :=
  match infer_depths (prog_of_build init r) with Some _ => true | None => false end.

Definition check_depth (nodes : list pnode) (root : nat) (init : binit) : bool :=
  match build nodes init lit_all (build_fuel nodes) root with
  | Ok r =>
    match tree_of nodes root with
    | Some t => has_terminator t || c06_known_b t || typable_b init r
    | None => match nodes with [] => true | _ => false end     (* the empty program: excluded, see C20-K2 *)
    end
  | _ => true
  end.

Definition check_d (toks : list token_type) : bool :=
  match parse toks with
  | Ok (root, nodes) => forallb (check_depth nodes root) inits
  | _ => true
  end.

Definition check3d (a b c : token_type) : bool := check_d [a; b; c].

Lemma triples_d_true :
  forallb (fun a => forallb (fun b => forallb (fun c => check3d a b c) all_token_type) all_token_type) all_token_type = true.
Proof. vm_cast_no_check (@eq_refl bool true). Qed.

Lemma triples_check_d : forall a b c, check_d [a; b; c] = true.
Proof.
  intros a b c.
  exact (forallb3_spec token_type check3d all_token_type triples_d_true a b c
           (all_token_type_complete a) (all_token_type_complete b) (all_token_type_complete c)).
Qed.

Definition reduced_d (n : nat) : bool := forallb check_d (seqs reduced_alphabet n).
Lemma reduced_d_0 : reduced_d 0 = true.
Proof. vm_cast_no_check (@eq_refl bool true). Qed.
Lemma reduced_d_1 : reduced_d 1 = true.
Proof. vm_cast_no_check (@eq_refl bool true). Qed.
Lemma reduced_d_2 : reduced_d 2 = true.
Proof. vm_cast_no_check (@eq_refl bool true). Qed.
Lemma reduced_d_3 : reduced_d 3 = true.
Proof. vm_cast_no_check (@eq_refl bool true). Qed.
Lemma reduced_d_4 : reduced_d 4 = true.
Proof. vm_cast_no_check (@eq_refl bool true). Qed.
Lemma reduced_d_5 : reduced_d 5 = true.
Proof. vm_cast_no_check (@eq_refl bool true). Qed.

Lemma reduced_d_spec : forall n toks, reduced_d n = true -> length toks = n ->
  (forall x, In x toks -> In x reduced_alphabet) -> check_d toks = true.
Proof.
  intros n toks Hn Hl Hin. unfold reduced_d in Hn. rewrite forallb_forall in Hn. apply Hn.
  apply seqs_complete; assumption.
Qed.

Lemma reduced_check_d : forall toks, length toks <= 5 -> (forall x, In x toks -> In x reduced_alphabet) -> check_d toks = true.
Proof.
  intros toks Hlen Hin.
  destruct toks as [|t1 [|t2 [|t3 [|t4 [|t5 [|t6 toks]]]]]].
  - exact (reduced_d_spec 0 [] reduced_d_0 eq_refl Hin).
  - exact (reduced_d_spec 1 [t1] reduced_d_1 eq_refl Hin).
  - exact (reduced_d_spec 2 [t1; t2] reduced_d_2 eq_refl Hin).
  - exact (reduced_d_spec 3 [t1; t2; t3] reduced_d_3 eq_refl Hin).
  - exact (reduced_d_spec 4 [t1; t2; t3; t4] reduced_d_4 eq_refl Hin).
  - exact (reduced_d_spec 5 [t1; t2; t3; t4; t5] reduced_d_5 eq_refl Hin).
  - cbn [length] in Hlen. lia.
Qed.

(* what a passed check means: a typing exists, entered at (0,0), with every
   expression end at operand depth one *)
Definition built_typable (toks : list token_type) (init : binit) : Prop :=
  forall root nodes r t,
    parse toks = Ok (root, nodes) ->
    build nodes init lit_all (build_fuel nodes) root = Ok r ->
    tree_of nodes root = Some t ->
    ~ Excluded_C06 t -> ~ Known_C06_K1 t -> ~ Known_C06_K2 t -> ~ Known_C06_K3 t -> ~ Known_C06_K4 t ->
    exists d, typed (prog_of_build init r) d /\ ends_at_one (prog_of_build init r) d /\
              exists e, pjump (prog_of_build init r) (snd r) = Some e /\ d e = Some (0, 0).

Lemma check_d_meaning : forall toks init, check_d toks = true -> In init inits -> built_typable toks init.
Proof.
  intros toks init Hc Hi root nodes r t Hp Hb Ht Hx H1 H2 H3 H4.
  unfold check_d in Hc. rewrite Hp in Hc. rewrite forallb_forall in Hc. specialize (Hc init Hi).
  unfold check_depth in Hc. rewrite Hb, Ht in Hc.
  unfold Excluded_C06, Known_C06_K1, Known_C06_K2, Known_C06_K3, Known_C06_K4 in *.
  destruct (has_terminator t); [congruence|].
  unfold c06_known_b in Hc.
  destruct (has_chain_no_else t); [congruence|].
  destruct (has_empty_value t); [congruence|].
  destruct (has_reapply_pending t); [congruence|].
  destruct (has_chain_early_else t); [congruence|].
  cbn [orb] in Hc. unfold typable_b in Hc.
  destruct (infer_depths (prog_of_build init r)) as [l|] eqn:Hi'; [|discriminate].
  pose proof (infer_depths_sound _ _ Hi') as Hty.
  exists (dmap_of (prog_of_build init r) l). split; [exact Hty|]. split; [apply typed_ends_at_one; exact Hty|].
  destruct Hty as [Hent _]. destruct (Hent (snd r)) as [e [He Hd]]; [left; reflexivity|].
  exists e. auto.
Qed.
