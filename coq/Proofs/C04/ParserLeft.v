(* C04, attribution clause, parser side: the parser never links a LEFT child below a
   node whose left child build() ignores (prefix operator, group, nested expression,
   reapply, prefix apply).  Unbounded, by an invariant of the parser's main loop: the
   left link of a node is fixed when the node is appended (every later step only sets
   parent / right links), and the nodes appended for prefix operators and opening
   brackets have no left link; every other token's definition uses its left child.
   Hence every accepted parse satisfies [all_children_used], and the attribution clause
   holds for every accepted token list outside C05-K2. *)
From Coq Require Import List Arith Bool NArith Lia.
From GV Require Import Base.Result Gen.TokenTypes Gen.Defs Gen.Instr Model.Parser Model.BuilderWL Model.Compile
  Spec.TreeShape Proofs.C05.InlBase Proofs.C05.Known Proofs.Builder.TreeAt Proofs.Builder.Transport
  Proofs.C04.Tokens Proofs.C04.Attribution Proofs.C04.AttributionNodes.
Import ListNotations.

Definition good (n : pnode) : Prop := ignores_left (n_def n) = true -> n_left n = None.

(* the part of a node no step changes once the node exists, as far as [good] goes *)
Definition view_of (n : pnode) : definition * option nat := (n_def n, n_left n).
Definition views (l : list pnode) : list (definition * option nat) := map view_of l.
Definition goodv (v : definition * option nat) : Prop := ignores_left (fst v) = true -> snd v = None.

Lemma good_views l : Forall goodv (views l) <-> Forall good l.
Proof. unfold views. rewrite Forall_map. split; intros H; (eapply Forall_impl; [|exact H]); intros n Hn; exact Hn. Qed.

Lemma upd_views (l : list pnode) k f l' :
  (forall n, view_of (f n) = view_of n) -> upd l k f = Some l' -> views l' = views l.
Proof.
  intros Hf. revert k l'. induction l as [|x r IH]; intros k l' H; [discriminate|].
  destruct k as [|k]; simpl in H.
  - inversion H; subst. unfold views. simpl. rewrite Hf. reflexivity.
  - destruct (upd r k f) as [r'|] eqn:E; [|discriminate]. inversion H; subst.
    unfold views in *. simpl. f_equal. eapply IH. exact E.
Qed.

Lemma upd_const_views (l : list pnode) k x y l' :
  nth_error l k = Some x -> view_of y = view_of x -> upd l k (fun _ => y) = Some l' -> views l' = views l.
Proof.
  revert k l'. induction l as [|a r IH]; intros k l' Hn Hy H; [discriminate|].
  destruct k as [|k]; simpl in H, Hn.
  - inversion H; inversion Hn; subst. unfold views. simpl. rewrite Hy. reflexivity.
  - destruct (upd r k (fun _ => y)) as [r'|] eqn:E; [|discriminate]. inversion H; subst.
    unfold views in *. simpl. f_equal. eapply IH; eassumption.
Qed.

Lemma parse_token_views id d lf nodes ug rtl :
  ens (fun r => views (fst (fst r)) = views nodes) (parse_token id d lf nodes ug rtl).
Proof.
  unfold parse_token.
  eapply ens_bind; [apply ens_true|]. intros my _.
  eapply ens_bind; [apply ens_true|]. intros [parent tl] _.
  set (tl' := if opt_nat_eqb parent tl then None else tl). clearbody tl'.
  eapply ens_bind with (Q := fun ns1 => views ns1 = views nodes).
  - destruct tl' as [ix|]; [|reflexivity].
    destruct (upd nodes ix (set_parent (Some id))) as [l|] eqn:E; [|exact I].
    simpl. eapply upd_views; [|exact E]. reflexivity.
  - intros ns1 H1. destruct parent as [ix|]; [|exact H1].
    destruct (nth_error ns1 ix) as [pn|]; [|exact I].
    destruct (upd ns1 ix (set_right (Some id))) as [ns2|] eqn:E2; [|exact I].
    assert (H2 : views ns2 = views nodes).
    { rewrite <- H1. eapply upd_views; [|exact E2]. reflexivity. }
    destruct (n_right pn) as [r|]; [|exact H2].
    destruct (upd ns2 r (set_parent (Some id))) as [ns3|] eqn:E3; [|exact H2].
    simpl. rewrite <- H2. eapply upd_views; [|exact E3]. reflexivity.
Qed.

Definition list_view (v : definition * option nat) : Prop := fst v = D_List.

Lemma make_list_node_views cid oid st ug :
  ens (fun ns => exists v, views ns = views (nodes st) ++ [v] /\ list_view v)
      (make_list_node cid oid st ug).
Proof.
  unfold make_list_node.
  eapply ens_bind; [apply parse_token_views|]. intros [[ns1 p] tl] H. simpl in H.
  simpl. exists (D_List, tl). unfold views in *. rewrite map_app, H. split; reflexivity.
Qed.

(* the token table: only prefix operators and opening brackets ignore a left child *)
Lemma ignores_left_table t :
  snd (get_definition t) = S_UnaryPrefix \/ snd (get_definition t) = S_StartGrouping \/
  ignores_left (fst (get_definition t)) = false.
Proof. destruct t; vm_compute; auto. Qed.

(* what the per-token match hands on: the old views, possibly followed by the implicit
   list node, and an info whose left link is empty or whose definition uses its left child *)
Definition mid_good (st0 : pstate) (r : pstate * info) : Prop :=
  let '(st1, (d, _, l, _)) := r in
  (exists pre, views (nodes st1) = views (nodes st0) ++ pre /\ Forall list_view pre) /\
  (l = None \/ ignores_left d = false).

Lemma midg_same st0 st1 (d : definition) (p l r : option nat) :
  views (nodes st1) = views (nodes st0) -> (l = None \/ ignores_left d = false) ->
  mid_good st0 (st1, (d, p, l, r)).
Proof. intros H Hd. split; [exists []; rewrite app_nil_r; auto | exact Hd]. Qed.

Lemma midg_list st0 st1 (d : definition) (p l r : option nat) :
  (exists v, views (nodes st1) = views (nodes st0) ++ [v] /\ list_view v) -> (l = None \/ ignores_left d = false) ->
  mid_good st0 (st1, (d, p, l, r)).
Proof. intros [v [H Hv]] Hd. split; [exists [v]; split; [exact H | constructor; [exact Hv | constructor]] | exact Hd]. Qed.

Ltac good_step :=
  match goal with
  | |- ens _ (bind (parse_token _ _ _ _ _ _) _) =>
      eapply ens_bind; [apply parse_token_views | intros [[? ?] ?] ?]
  | |- ens _ (bind (make_list_node _ _ _ _) _) =>
      eapply ens_bind; [apply make_list_node_views | intros ? ?]
  | |- ens _ (bind (space_list_check _ _) _) =>
      eapply ens_bind; [apply ens_true | intros ? _]
  | |- ens _ (match ?x with _ => _ end) => destruct x eqn:?
  | |- ens _ (if ?x then _ else _) => destruct x
  | |- ens _ (let '(_, _) := ?x in _) => destruct x
  | |- ens _ (Err _) => exact I
  | |- ens _ impl_err => exact I
  end.

Ltac good_lab := cbn [nodes last_token fst snd] in *; congruence.
Ltac good_def Htab :=
  first [ left; reflexivity
        | right; reflexivity
        | right; destruct Htab as [Htab|[Htab|Htab]]; [discriminate Htab | discriminate Htab | exact Htab] ].
Ltac good_leaf Htab :=
  cbn [ens]; first [ apply midg_same; [good_lab | good_def Htab]
                   | apply midg_list;
                     [ cbn [nodes last_token fst snd] in *;
                       match goal with
                       | H : exists v, views ?a = _ /\ _, H2 : views ?b = views ?a |- exists v, views ?b = _ /\ _ =>
                         rewrite H2; exact H
                       | H : exists v, views ?a = _ /\ _ |- exists v, views ?a = _ /\ _ => exact H
                       end
                     | good_def Htab ] ].

Ltac upd_vhyps :=
  repeat match goal with
  | E : upd ?a ?k ?f = Some ?b |- _ =>
      first [ apply upd_views in E; [|intro; reflexivity]
            | eapply upd_const_views in E;
              [| eassumption | match goal with |- view_of (if ?c then _ else _) = _ => destruct c; reflexivity end ] ]
  end.
Ltac relink_good :=
  repeat match goal with
  | |- ens _ (match upd ?l ?k ?f with _ => _ end) => destruct (upd l k f) eqn:?
  | |- ens _ (match ?x with _ => _ end) => destruct x eqn:?
  | |- ens _ (if ?x then _ else _) => destruct x
  | |- ens _ impl_err => exact I
  | |- ens _ (Err _) => exact I
  end;
  cbn [ens fst]; upd_vhyps; congruence.

Lemma step_views ntoks i tok st0 :
  ens (fun st' => exists added, views (nodes st') = views (nodes st0) ++ added /\ Forall goodv added)
      (step ntoks i tok st0).
Proof.
  unfold step.
  eapply ens_bind; [apply ens_true|]. intros ug _.
  eapply ens_bind; [apply ens_true|]. intros [[ll psec] psig] _.
  cbv zeta.
  cbn [nodes next_parent last_left check_for_list last_token next_last_left group_stack current_group prev_sec prev_sig separated se_prev].
  pose proof (ignores_left_table tok) as Htab.
  destruct (get_definition tok) as [definition sec] eqn:Hdef. cbn [fst snd] in Htab.
  match goal with |- ens _ (if ?c then _ else _) => destruct c; [exact I|] end.
  match goal with |- ens _ (if ?c then _ else _) => destruct c; [exact I|] end.
  match goal with |- ens _ (match ?x with _ => _ end) => destruct x as [[new_sig new_sep] new_se] end.
  eapply ens_bind with (Q := mid_good st0).
  - destruct sec.
    all: try (repeat good_step; good_leaf Htab).
    + (* S_EndSideEffect *)
      repeat good_step.
      eapply ens_bind with (Q := fun ns => views ns = views (nodes st0)); [relink_good|].
      intros ns Hns. good_leaf Htab.
    + (* S_EndGrouping *)
      repeat good_step.
      eapply ens_bind with (Q := fun ns => views ns = views (nodes st0)); [relink_good|].
      intros ns Hns. good_leaf Htab.
    + (* S_Subexpression *)
      eapply ens_bind; [apply ens_true|]. intros [in_group group_index] _.
      destruct (definition_eqb in_group D_Group); [repeat good_step; good_leaf Htab|].
      eapply ens_bind with (Q := fun dr => views (fst dr) = views (nodes st0)); [relink_good|].
      intros [ns1 drop] Hns. destruct drop; [good_leaf Htab|].
      repeat good_step. good_leaf Htab.
  - intros [st1 [[[d p] l] r]] [[pre [Hv Hpre]] Hl].
    cbv beta iota zeta. cbn [ens nodes].
    assert (Hpg : Forall goodv pre).
    { eapply Forall_impl; [|exact Hpre]. intros v Hv' Hig. unfold list_view in Hv'. rewrite Hv' in Hig. discriminate Hig. }
    destruct (definition_eqb d D_Drop); [exists pre; split; [exact Hv | exact Hpg]|].
    match goal with |- context [mkNode ?dd sec p l r (Some i)] => set (d' := dd) end.
    exists (pre ++ [(d', l)]). split.
    { unfold views in *. rewrite map_app, Hv, app_assoc. reflexivity. }
    apply Forall_app. split; [exact Hpg|]. constructor; [|constructor].
    intros Hig. cbn [fst snd] in *.
    destruct Hl as [Hl|Hl]; [exact Hl|]. exfalso. subst d'.
    destruct (definition_eqb d D_Identifier) eqn:Ei.
    + destruct p as [pp|]; [|congruence].
      destruct (nth_error (nodes st1) pp) as [pn|]; [|congruence].
      destruct (definition_eqb (n_def pn) D_Access); [discriminate Hig | congruence].
    + congruence.
Qed.

Lemma step_good ntoks i tok st0 : Forall good (nodes st0) ->
  ens (fun st' => Forall good (nodes st')) (step ntoks i tok st0).
Proof.
  intros Hg. pose proof (step_views ntoks i tok st0) as H.
  destruct (step ntoks i tok st0) as [st'| | |]; try exact I. cbn [ens] in *.
  destruct H as [added [Hv Ha]]. apply good_views. rewrite Hv. apply Forall_app. split; [apply good_views; exact Hg | exact Ha].
Qed.

Lemma good_set_right p n : good n -> good (set_right p n).
Proof. intros H. exact H. Qed.

Lemma nth_good (l : list pnode) k n : Forall good l -> nth_error l k = Some n -> good n.
Proof. intros H Hn. rewrite Forall_forall in H. apply H. eapply nth_error_In; eauto. Qed.

Lemma run_steps_good ntoks toks : forall i st, Forall good (nodes st) ->
  ens (fun st' => Forall good (nodes st')) (run_steps ntoks i toks st).
Proof.
  induction toks as [|t r IH]; intros i st Hg; cbn [run_steps]; [exact Hg|].
  eapply ens_bind; [apply step_good; exact Hg|]. intros st1 H1. apply IH. exact H1.
Qed.

Theorem parse_nodes_good toks root ns : parse toks = Ok (root, ns) -> Forall good ns.
Proof.
  unfold parse, parse_trimmed. set (tr := snd (trim_tokens toks)). intros H.
  destruct tr as [|t0 tr0] eqn:Etr.
  { inversion H; subst. constructor. }
  rewrite <- Etr in *. clear Etr t0 tr0.
  pose proof (run_steps_good (length tr) tr 0 init_state (Forall_nil _)) as Hrun.
  destruct (run_steps (length tr) 0 tr init_state) as [st| | |]; try discriminate.
  cbn [ens bind] in *.
  destruct (forbidden _ _ _); [discriminate|].
  destruct (_ && _); [discriminate|].
  destruct (group_stack st); [|discriminate].
  match type of H with context [map ?f (nodes st)] => set (fx := f) in * end.
  assert (Hm : Forall good (map fx (nodes st))).
  { apply Forall_map. eapply Forall_impl; [|exact Hrun]. intros n Hn. subst fx. cbn beta.
    destruct (n_right n) as [rr|]; [|exact Hn]. destruct (Nat.leb _ _); [apply good_set_right|]; exact Hn. }
  destruct (map fx (nodes st)) as [|n0 rest] eqn:Em.
  { inversion H; subst. constructor. }
  destruct (find_root _ _ _ _ _) as [rt| | |]; try discriminate. cbn [bind] in H.
  destruct (validate_tree _ _) as [u| | |]; try discriminate. cbn [bind] in H.
  inversion H; subst. exact Hm.
Qed.

Lemma good_tree_used : forall ns t, Forall good ns -> tree_at ns t -> all_children_used t = true.
Proof.
  intros ns t Hg. induction t as [ix d l r IHl IHr] using tree_ind'. intros Hat.
  destruct Hat as [[pn [Hpn [Hd [Hln Hrn]]]] [Hal Har]].
  cbn [all_children_used]. apply andb_true_iff. split; [apply andb_true_iff; split|].
  - destruct (ignores_left d) eqn:E; [|reflexivity].
    pose proof (nth_good ns ix pn Hg Hpn) as Hgn. unfold good in Hgn. rewrite Hd in Hgn.
    specialize (Hgn E). rewrite Hln in Hgn. destruct l; [discriminate Hgn | reflexivity].
  - destruct l as [a|]; [apply (IHl a eq_refl Hal) | reflexivity].
  - destruct r as [b|]; [apply (IHr b eq_refl Har) | reflexivity].
Qed.

Theorem parsed_children_used : forall toks root ns t,
  parse toks = Ok (root, ns) -> tree_of ns root = Some t -> all_children_used t = true.
Proof.
  intros toks root ns t Hp Ht. destruct (tree_of_at _ _ _ Ht) as [Hat _].
  exact (good_tree_used ns t (parse_nodes_good toks root ns Hp) Hat).
Qed.

(* the attribution clause for every accepted token list, outside C05-K2 only *)
Theorem parsed_covered_tree_K2 : forall toks root ns,
  parse toks = Ok (root, ns) -> ns <> [] ->
  exists t, tree_of ns root = Some t /\
    forall init lit fuel r, ~ Known_C05_K2 t ->
      build ns init lit fuel root = Ok r -> covered_tree_b ns root (fst r) = true.
Proof.
  intros toks root ns Hp Hne.
  destruct (parsed_covered_tree toks root ns Hp Hne) as [t [Ht H]].
  exists t. split; [exact Ht|]. intros init lit fuel r Hk Hb.
  exact (H init lit fuel r Hk (parsed_children_used toks root ns t Hp Ht) Hb).
Qed.
