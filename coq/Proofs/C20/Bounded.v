(* Bounded theorems of C20 (the bound is in the name): for every token triple
   over the full alphabet and every token sequence of length <= 5 over the
   reduced alphabet, building into a data object that already holds a program
   (two such initial states) gives the code of the build into an empty object
   relocated by the two table lengths, and that code refers to its own jump
   entries and instructions only -- except for the empty program (C20-K2) and
   class C05-K2 (not produced by the parser).  vm_compute. *)
From Coq Require Import List Arith Bool NArith Lia.
From GV Require Import Base.Result Gen.TokenTypes Gen.Defs Gen.Instr Model.Parser Model.BuilderWL Model.Compile
  Spec.WfCode Spec.Reloc Proofs.C05.Known Proofs.C05.Bounded.
Import ListNotations.

(* (the former class C20-K1 -- a program that compiles to nothing built after a
   program ending in EndExpression -- was repaired in build.rs, commit b7aaffe) *)
(* C20-K2: the empty program (no parse node) pushes EndExpression, pushes no
   jump entry and reports entry 0 -- which, in a shared object, is the first
   program's entry *)
Definition Known_C20_K2 (nodes : list pnode) : Prop := nodes = [].

Definition known20_b (init : binit) (nodes : list pnode) (root : nat) : bool :=
  match nodes with
  | [] => true
  | _ => match tree_of nodes root with
         | Some t => drops_arms t
         | None => false
         end
  end.

Definition check_reloc (nodes : list pnode) (root : nat) (init : binit) : bool :=
  match build nodes init lit_all (build_fuel nodes) root, build nodes empty_init lit_all (build_fuel nodes) root with
  | Ok r, Ok r0 =>
    (relocated init (code_of_build r0) (code_of_build r) && own_code init (code_of_build r))
    || known20_b init nodes root
  | Err e, Err e' => N.eqb e e'
  | _, _ => false
  end.

Definition check_r (toks : list token_type) : bool :=
  match parse toks with
  | Ok (root, nodes) => forallb (check_reloc nodes root) inits
  | _ => true
  end.

Definition check3r (a b c : token_type) : bool := check_r [a; b; c].

Lemma triples_r_true :
  forallb (fun a => forallb (fun b => forallb (fun c => check3r a b c) all_token_type) all_token_type) all_token_type = true.
Proof. vm_cast_no_check (@eq_refl bool true). Qed.

Lemma triples_check_r : forall a b c, check_r [a; b; c] = true.
Proof.
  intros a b c.
  exact (forallb3_spec token_type check3r all_token_type triples_r_true a b c
           (all_token_type_complete a) (all_token_type_complete b) (all_token_type_complete c)).
Qed.

Definition reduced_r (n : nat) : bool := forallb check_r (seqs reduced_alphabet n).
Lemma reduced_r_0 : reduced_r 0 = true.
Proof. vm_cast_no_check (@eq_refl bool true). Qed.
Lemma reduced_r_1 : reduced_r 1 = true.
Proof. vm_cast_no_check (@eq_refl bool true). Qed.
Lemma reduced_r_2 : reduced_r 2 = true.
Proof. vm_cast_no_check (@eq_refl bool true). Qed.
Lemma reduced_r_3 : reduced_r 3 = true.
Proof. vm_cast_no_check (@eq_refl bool true). Qed.
Lemma reduced_r_4 : reduced_r 4 = true.
Proof. vm_cast_no_check (@eq_refl bool true). Qed.
Lemma reduced_r_5 : reduced_r 5 = true.
Proof. vm_cast_no_check (@eq_refl bool true). Qed.

Lemma reduced_r_spec : forall n toks, reduced_r n = true -> length toks = n ->
  (forall x, In x toks -> In x reduced_alphabet) -> check_r toks = true.
Proof.
  intros n toks Hn Hl Hin. unfold reduced_r in Hn. rewrite forallb_forall in Hn. apply Hn.
  apply seqs_complete; assumption.
Qed.

Lemma reduced_check_r : forall toks, length toks <= 5 -> (forall x, In x toks -> In x reduced_alphabet) -> check_r toks = true.
Proof.
  intros toks Hlen Hin.
  destruct toks as [|t1 [|t2 [|t3 [|t4 [|t5 [|t6 toks]]]]]].
  - exact (reduced_r_spec 0 [] reduced_r_0 eq_refl Hin).
  - exact (reduced_r_spec 1 [t1] reduced_r_1 eq_refl Hin).
  - exact (reduced_r_spec 2 [t1; t2] reduced_r_2 eq_refl Hin).
  - exact (reduced_r_spec 3 [t1; t2; t3] reduced_r_3 eq_refl Hin).
  - exact (reduced_r_spec 4 [t1; t2; t3; t4] reduced_r_4 eq_refl Hin).
  - exact (reduced_r_spec 5 [t1; t2; t3; t4; t5] reduced_r_5 eq_refl Hin).
  - cbn [length] in Hlen. lia.
Qed.

(* what a passed check says about one token sequence and one initial state *)
Definition relocates (toks : list token_type) (init : binit) : Prop :=
  forall root nodes r,
    parse toks = Ok (root, nodes) ->
    build nodes init lit_all (build_fuel nodes) root = Ok r ->
    exists r0, build nodes empty_init lit_all (build_fuel nodes) root = Ok r0 /\
      ((relocated init (code_of_build r0) (code_of_build r) = true /\ own_code init (code_of_build r) = true)
       \/ Known_C20_K2 nodes
       \/ exists t, tree_of nodes root = Some t /\ Known_C05_K2 t).

Lemma check_r_meaning : forall toks init, check_r toks = true -> In init inits -> relocates toks init.
Proof.
  intros toks init Hc Hi root nodes r Hp Hb.
  unfold check_r in Hc. rewrite Hp in Hc. rewrite forallb_forall in Hc. specialize (Hc init Hi).
  unfold check_reloc in Hc. rewrite Hb in Hc.
  destruct (build nodes empty_init lit_all (build_fuel nodes) root) as [r0| | |]; try discriminate.
  exists r0. split; [reflexivity|].
  apply orb_true_iff in Hc. destruct Hc as [Hc|Hk].
  - left. apply andb_true_iff in Hc. exact Hc.
  - right. unfold known20_b in Hk. destruct nodes as [|n ns]; [left; reflexivity|].
    right. destruct (tree_of (n :: ns) root) as [t|]; [|discriminate]. exists t. split; [reflexivity|].
    exact Hk.
Qed.
