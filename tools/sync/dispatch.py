"""Gen/Dispatch.v: the type-dispatch tables of the runtime operations (C08, C10, C12).

For every runtime function that dispatches on `GarnishDataType`s:
  * which popped register / parameter each component of the scrutinee is the type of,
  * the ordered list of match arms: patterns (alternatives over `GarnishDataType`,
    `_`/binders, the one known guard `(l, r) if l == r`) and a body descriptor:
      BDefer ..   the catch-all shape
                    if !this.defer_op(I, (tl, al), (tr, ar))? { push_unit(this)? }
                  with where I, tl, al, tr, ar come from (recognised syntactically),
      BNamed n .. any other body, classified by the FEATURES read from its current text:
                  contains no defer_op (one in an unrecognised shape raises), which look-up
                  helpers it calls, whether it tests for the `UnsupportedOpTypes` code, whether
                  it produces that code itself.  `n` only refines what the correspondence run
                  compares (top type, jump, data dependence; meaning hand-written in
                  Model/OpDispatch.v): exact body hash in tools/arms.json, else the name of the
                  arm of the same function with the same patterns (body changed; noted), else
                  `other` (generic listed arm).  `python3 -m sync.dispatch --refresh` (cwd
                  tools/) re-keys arms.json to the current bodies.
  * first-match semantics `arm_of`,
  * (Gen/Truth.v, through tools/sync/truth.py) the falsy sets of is_true_value /
    jump_if_true / jump_if_false, extracted separately from the shape of those three
    functions, and what and/or/xor/not/tis do on a true / false test,
  * the shape of every op function execute.rs calls (Gen/Exec.v `op_fn`): which
    dispatch function it goes through, with which `Instruction` constant.
A dispatch function or op function that is not understood is written with an empty arm
list / ShUnknown and reported by tools/sync/dispatch_strict.py (a broken tie for C08; C10
only needs Gen/Truth.v and the op shapes of its seven constructs).
"""
import hashlib, json, os, re
from . import rustsrc as R
from . import execmap

RT = "runtime/src/runtime/"
ARMS_JSON = os.path.join(os.path.dirname(os.path.dirname(os.path.abspath(__file__))), "arms.json")

# dispatch functions: name -> file.  `params`: parameter names that carry operand addresses.
DISPATCH = [
    ("perform_unary_op", "arithmetic.rs"),
    ("perform_op", "arithmetic.rs"),
    ("access", "access.rs"),
    ("get_access_addr", "list.rs"),
    ("access_with_integer", "list.rs"),
    ("access_with_symbol", "list.rs"),
    ("apply_internal", "apply.rs"),
    ("type_cast", "casting.rs"),
    ("perform_comparison", "comparison.rs"),
    ("access_left_internal", "internals.rs"),
    ("access_right_internal", "internals.rs"),
    ("access_length_internal", "internals.rs"),
    ("make_range_internal", "range.rs"),
    ("data_equal", "equality.rs"),
    ("is_true_value", "logical.rs"),
    ("jump_if_true", "jumps.rs"),
    ("jump_if_false", "jumps.rs"),
]
HELPERS = ["get_access_addr", "access_with_integer", "access_with_symbol", "narrow_range"]
# op functions without a type dispatch of their own whose meaning is hand-written in the model
PLAIN_OPS = {"put", "put_value", "push_value", "update_value", "start_side_effect", "end_side_effect", "type_of",
             "type_equal", "equal", "not_equal", "make_pair", "concat", "end_expression", "partial_apply",
             "make_list", "resolve", "reapply", "jump"}


def norm(s):
    return re.sub(r"\s+", " ", s).strip()


def all_rt_sources():
    out = {}
    for fn in sorted(os.listdir(R.REPO + "/" + RT)):
        if fn.endswith(".rs"):
            src = R.strip_comments(R.read(RT + fn))
            i = src.find("#[cfg(test)]")
            out[fn] = src if i < 0 else src[:i]
    return out


def fn_header_and_body(src, name):
    m = re.search(r"\bfn %s\b" % re.escape(name), src)
    if not m:
        raise ValueError("function %s not found" % name)
    i = src.index("{", m.end())
    # a `{` inside the generic/where clause would be unusual; make sure the header has balanced parens
    header = src[m.start():i]
    if header.count("(") != header.count(")"):
        raise ValueError("cannot isolate header of %s" % name)
    j = R.match_brace(src, i)
    return header, src[i + 1:j - 1]


def params_of(header):
    inner = header[header.index("(") + 1:header.rindex(")")]
    names = []
    depth = 0
    cur = ""
    for c in inner:
        if c in "(<[":
            depth += 1
        if c in ")>]":
            depth -= 1
        if c == "," and depth == 0:
            names.append(cur)
            cur = ""
        else:
            cur += c
    if cur.strip():
        names.append(cur)
    out = []
    for p in names:
        m = re.match(r"\s*(?:mut\s+)?(\w+)\s*:\s*(.*)", p, re.S)
        if m:
            out.append((m.group(1), norm(m.group(2))))
    return out


def split_top(s, sep):
    """split s on sep (a single char or '=>') at bracket depth 0, outside string literals"""
    parts, depth, cur, i = [], 0, "", 0
    while i < len(s):
        c = s[i]
        if c == '"':
            j = i + 1
            while j < len(s) and s[j] != '"':
                j += 2 if s[j] == "\\" else 1
            cur += s[i:j + 1]
            i = j + 1
            continue
        if c in "([{":
            depth += 1
        elif c in ")]}":
            depth -= 1
        if depth == 0 and s.startswith(sep, i) and not (sep == "|" and (s.startswith("||", i) or (i > 0 and s[i - 1] == "|"))):
            parts.append(cur)
            cur = ""
            i += len(sep)
            continue
        cur += c
        i += 1
    parts.append(cur)
    return parts


def parse_arms(body):
    """body: text between the braces of a match.  Returns [(pattern text, body text)]."""
    arms, i, n = [], 0, len(body)
    while True:
        while i < n and body[i] in " \t\r\n,":
            i += 1
        if i >= n:
            break
        # pattern up to `=>` at depth 0
        depth, j = 0, i
        while j < n:
            c = body[j]
            if c in "([{":
                depth += 1
            elif c in ")]}":
                depth -= 1
            elif depth == 0 and body.startswith("=>", j):
                break
            j += 1
        if j >= n:
            raise ValueError("match arm without `=>`: %r" % body[i:i + 60])
        pat = body[i:j]
        k = j + 2
        while k < n and body[k] in " \t\r\n":
            k += 1
        if k < n and body[k] == "{":
            e = R.match_brace(body, k)
            arm_body = body[k:e]
            # a block may be followed by method calls etc.; only a `,` or nothing is accepted
            rest = e
            while rest < n and body[rest] in " \t\r\n":
                rest += 1
            if rest < n and body[rest] in ".?":
                # expression continues (e.g. `{..}.foo()`); treat as expression arm
                arm_body, e = read_expr(body, k)
            i = e
        else:
            arm_body, i = read_expr(body, k)
        arms.append((norm(pat), norm(arm_body)))
    return arms


def read_expr(body, k):
    depth, j, n = 0, k, len(body)
    while j < n:
        c = body[j]
        if c == '"':
            j += 1
            while j < n and body[j] != '"':
                j += 2 if body[j] == "\\" else 1
        elif c in "([{":
            depth += 1
        elif c in ")]}":
            depth -= 1
        elif c == "," and depth == 0:
            break
        j += 1
    return body[k:j], j


def find_matches(body):
    """all `match <scrutinee> { arms }` in body, in textual order: [(scrutinee, arms_text, start)]"""
    out = []
    for m in re.finditer(r"\bmatch\b", body):
        i = m.end()
        depth = 0
        j = i
        while j < len(body):
            c = body[j]
            if c in "([":
                depth += 1
            elif c in ")]":
                depth -= 1
            elif c == "{" and depth == 0:
                break
            j += 1
        if j >= len(body):
            continue
        e = R.match_brace(body, j)
        out.append((norm(body[i:j]), body[j + 1:e - 1], m.start()))
    return out


TYPE_OF = re.compile(r"^this\.get_data_type\((\w+)(?:\.clone\(\))*\)\?$")


def pops_of(body):
    """variables bound to popped registers, in pop order"""
    pops = []
    for m in re.finditer(r"let\s+(?:\((\w+)\s*,\s*(\w+)\)\s*=\s*next_two_raw_ref\(this\)\?|(\w+)\s*=\s*next_ref\(this\)\?)\s*;", body):
        if m.group(1):
            pops += [m.group(1), m.group(2)]
        else:
            pops.append(m.group(3))
    return pops


def resolve_scrutinee(scrut, body, upto):
    """-> list of variable names whose types the scrutinee components are, and the
    list of scrutinee component variable names (for `mut` correction detection)"""
    pre = body[:upto]

    def comp_var(expr):
        expr = norm(expr)
        m = TYPE_OF.match(expr)
        if m:
            return m.group(1), None
        if re.match(r"^\w+$", expr):
            # a local bound earlier
            m1 = re.search(r"let\s+(?:mut\s+)?%s\s*=\s*([^;]+);" % re.escape(expr), pre)
            if m1:
                v, _ = comp_var(m1.group(1))
                return v, expr
            # bound in a tuple let
            for mt in re.finditer(r"let\s+\(([^)]*)\)\s*=\s*\((.*?)\)\s*;", pre, re.S):
                names = [re.sub(r"^mut\s+", "", x.strip()) for x in mt.group(1).split(",")]
                if expr in names:
                    exprs = split_top(mt.group(2), ",")
                    if len(exprs) == len(names):
                        v, _ = comp_var(exprs[names.index(expr)])
                        return v, expr
        raise ValueError("scrutinee component not understood: %r" % expr)

    s = scrut
    if re.match(r"^\w+$", s):
        m1 = re.search(r"let\s+%s\s*=\s*([^;]+);" % re.escape(s), pre)
        if not m1:
            raise ValueError("scrutinee variable %s not bound by a let" % s)
        s = norm(m1.group(1))
    if s.startswith("(") and s.endswith(")"):
        comps = split_top(s[1:-1], ",")
    else:
        comps = [s]
    return [comp_var(c) for c in comps]


def parse_pattern(pat):
    """-> (list of alternatives, guard) ; alternative = list of components, component = ('is', T) | ('any', name)"""
    guard = None
    parts = split_top(pat, " if ")
    if len(parts) == 2:
        pat, guard = parts[0].strip(), norm(parts[1])
    elif len(parts) > 2:
        raise ValueError("pattern with several guards: %r" % pat)
    alts = []
    for alt in split_top(pat, "|"):
        alt = alt.strip()
        comps = split_top(alt[1:-1], ",") if alt.startswith("(") and alt.endswith(")") else [alt]
        cs = []
        for c in comps:
            c = c.strip()
            m = re.match(r"^GarnishDataType::(\w+)$", c)
            if m:
                cs.append(("is", m.group(1)))
            elif re.match(r"^[a-z_]\w*$", c):
                cs.append(("any", c))
            else:
                raise ValueError("pattern component not understood: %r in %r" % (c, pat))
        alts.append(cs)
    return alts, guard



def alt_texts(pat):
    """normalised alternatives of a pattern: ['(Pair,Number)', ...]"""
    p = split_top(pat, " if ")[0]
    return [re.sub(r"\s+", "", a).replace("GarnishDataType::", "") for a in split_top(p, "|")]


def name_for(fname, pat, abody, arm_names, notes):
    """stable name of a non-deferring arm body.  Exact body hash first; a body that changed
    keeps the name of the arm of the same function whose patterns it (mostly) shares -- the
    features the theorems use (defer_op? helpers? unsupported-types code?) are re-read from
    the new body anyway, and what else the body does is the correspondence run's business;
    an arm that matches nothing known is `other` (generic defined arm)."""
    if norm(abody.strip("{} ")) == "Err(RuntimeError::unsupported_types())":
        return "unsupported"
    h = hashlib.sha256(abody.encode()).hexdigest()[:12]
    table = arm_names.get(fname, {})
    if h in table:
        return table[h]["name"]
    mine = set(alt_texts(pat))
    best = None
    for hh, e in sorted(table.items()):
        pats = set(e.get("patterns") or [re.sub(r"\s+", "", e.get("first_pattern", ""))])
        ov = len(pats & mine)
        if ov and e["name"] != "unsupported" and (best is None or ov > best[0]):
            best = (ov, e["name"])
    if best:
        notes.append("%s: body of arm %s changed (hash %s); kept the name %s" % (fname, pat[:60], h, best[1]))
        return best[1]
    notes.append("%s: arm %s (hash %s) is not in tools/arms.json; treated as a generic defined arm" % (fname, pat[:60], h))
    return "other"

DEFER_RE = re.compile(
    r"^\{ if !this\.defer_op\(([\w:]+), \(([\w:]+), ([\w:()]+)\), \(([\w:]+), ([\w:()]+)\)\)\? \{ push_unit\(this\)\?;? \} \}$")


class Fn:
    pass


def analyse(name, src, type_names, arm_names):
    f = Fn()
    f.name = name
    header, body = fn_header_and_body(src, name)
    f.params = params_of(header)
    f.pops = pops_of(body)
    chosen = None
    for scrut, arms_text, start in find_matches(body):
        arms = parse_arms(arms_text)
        if any("GarnishDataType::" in p for p, _ in arms):
            chosen = (scrut, arms, start)
            break
    if not chosen:
        raise ValueError("%s: no match over GarnishDataType found" % name)
    scrut, arms, start = chosen
    comps = resolve_scrutinee(scrut, body, start)
    param_names = [p for p, _ in f.params]

    def role(var):
        if var in f.pops:
            return "SPop%d" % (f.pops.index(var) + 1)
        if var in param_names:
            return "(SParam %d%%nat)" % param_names.index(var)
        raise ValueError("%s: %s is neither a popped register nor a parameter" % (name, var))

    f.scrut = [role(v) for v, _ in comps]
    f.scrut_locals = [loc for _, loc in comps]
    # `mut` scrutinee locals: only the known Type-value correction is recognised
    f.corrects = []
    for idx, loc in enumerate(f.scrut_locals):
        if loc and re.search(r"\bmut\s+%s\b" % re.escape(loc), body[:start]):
            var = comps[idx][0]
            shape = r"if %s == GarnishDataType::Type \{\s*%s = this\.get_type\(%s(?:\.clone\(\))*\)\?;\s*\}" % (loc, loc, var)
            between = body[:start]
            if len(re.findall(shape, between)) != 1:
                raise ValueError("%s: mutable scrutinee %s is not corrected in the recognised way" % (name, loc))
            rest = re.sub(shape, "", between)
            if re.search(r"(?<!let )(?<!mut )\b%s\s*[-+*/|&^]?=[^=]" % re.escape(loc), rest):
                raise ValueError("%s: mutable scrutinee %s is changed in an unrecognised way" % (name, loc))
            f.corrects.append(idx)
    f.arms = []
    f.named = []
    f.notes = []
    for pat, abody in arms:
        alts, guard = parse_pattern(pat)
        width = len(f.scrut)
        for a in alts:
            if len(a) == 1 and a[0][0] == "any" and width > 1:
                pass  # `_`/binder for the whole tuple
            elif len(a) != width:
                raise ValueError("%s: pattern %r does not have %d components" % (name, pat, width))
        for a in alts:
            for k, t in a:
                if k == "is" and t not in type_names:
                    raise ValueError("%s: unknown type %s" % (name, t))
        gtxt = None
        if guard is not None:
            if not (len(alts) == 1 and len(alts[0]) == 2 and all(k == "any" for k, _ in alts[0])
                    and guard == "%s == %s" % (alts[0][0][1], alts[0][1][1])):
                raise ValueError("%s: guard not understood: %r if %r" % (name, pat, guard))
            gtxt = "eq"
        # bound variables -> scrutinee component index
        bound = {}
        if len(alts) == 1:
            a = alts[0]
            if len(a) == width:
                for idx, (k, v) in enumerate(a):
                    if k == "any" and v != "_":
                        bound[v] = idx
            elif len(a) == 1 and a[0][0] == "any" and a[0][1] != "_" and width == 1:
                bound[a[0][1]] = 0
        desc = None
        wrapped = abody if abody.startswith("{") else "{ " + abody + " }"
        m = DEFER_RE.match(wrapped)
        if m:
            itxt, tl, al, tr, ar = m.groups()

            def instr_src(t):
                mm = re.match(r"^Instruction::(\w+)$", t)
                if mm:
                    return "(IConst I_%s)" % mm.group(1)
                if t in param_names and dict(f.params)[t] == "Instruction":
                    return "IParam"
                raise ValueError("%s: defer_op instruction argument not understood: %s" % (name, t))

            def ty_src(t):
                if t == "GarnishDataType::Unit":
                    return "TyUnit"
                if t in bound:
                    return "(TyOf %s)" % f.scrut[bound[t]]
                raise ValueError("%s: defer_op type argument not understood: %s" % (name, t))

            def addr_src(t):
                if t == "Data::Size::zero()":
                    return "AddrZero"
                if re.match(r"^\w+$", t):
                    return "(AddrOf %s)" % role(t)
                raise ValueError("%s: defer_op address argument not understood: %s" % (name, t))

            desc = "BDefer %s %s %s %s %s" % (instr_src(itxt), ty_src(tl), addr_src(al), ty_src(tr), addr_src(ar))
        else:
            if "defer_op" in abody:
                raise ValueError("%s: defer_op call in an unrecognised shape: %s" % (name, abody[:160]))
            nm = name_for(name, pat, abody, arm_names, f.notes)
            helpers = [x for x in HELPERS if re.search(r"\b%s\(" % x, abody)]
            absorbs = bool(re.search(r"UnsupportedOpTypes|absorb_unsupported\(", abody))
            raises = "unsupported_types()" in abody
            desc = "BNamed A_%s [%s] %s %s" % (nm, "; ".join("H_" + x for x in helpers), "true" if absorbs else "false",
                                               "true" if raises else "false")
            f.named.append((nm, hashlib.sha256(abody.encode()).hexdigest()[:12], pat))
        f.arms.append((alts, gtxt, desc, pat))
    return f


def falsy_of(name, src):
    """falsy set of a truth-testing function, from its shape only"""
    header, body = fn_header_and_body(src, name)
    ms = [(s, parse_arms(a)) for s, a, _ in find_matches(body)]
    ms = [(s, arms) for s, arms in ms if any("GarnishDataType::" in p for p, _ in arms)]
    if len(ms) != 1 or len(ms[0][1]) != 2:
        raise ValueError("%s: expected exactly one two-armed match over GarnishDataType" % name)
    (p1, b1), (p2, b2) = ms[0][1]
    alts, guard = parse_pattern(p1)
    if guard or any(len(a) != 1 or a[0][0] != "is" for a in alts):
        raise ValueError("%s: first arm is not a plain list of types: %r" % (name, p1))
    alts2, guard2 = parse_pattern(p2)
    if guard2 or len(alts2) != 1 or alts2[0][0][0] != "any":
        raise ValueError("%s: second arm is not a catch-all: %r" % (name, p2))
    types = [a[0][1] for a in alts]

    def kind(b):
        b = re.sub(r"trace!\(.*?\);", "", b)
        b = norm(b.strip("{} "))
        if b in ("false", "true"):
            return b
        if b == "Ok(None)":
            return "stay"
        if b == "Ok(Some(point))":
            return "jump"
        raise ValueError("%s: arm body not understood: %r" % (name, b))

    k1, k2 = kind(b1), kind(b2)
    expect = {"is_true_value": ("false", "true"), "jump_if_true": ("stay", "jump"), "jump_if_false": ("jump", "stay")}[name]
    if (k1, k2) == expect:
        return types, False
    if (k2, k1) == expect:
        return types, True      # the listed types are the *true* ones: falsy set is the complement
    raise ValueError("%s: arms do (%s, %s), expected %s" % (name, k1, k2, expect))


def inline_local_helpers(src, keep):
    """Replace calls of private helper functions of this file whose body is a single expression by
    that expression with the arguments substituted for the parameters (plain identifiers / paths /
    `x.clone()` arguments only).  Functions named in [keep] are never inlined.  A harmless
    extract-function refactoring then leaves the recognised shapes unchanged."""
    helpers = {}
    for m in re.finditer(r"(?m)^(pub(?:\([^)]*\))? )?fn (\w+)\b", src):
        name = m.group(2)
        if name in keep:
            continue
        try:
            header, body = fn_header_and_body(src, name)
        except ValueError:
            continue
        b = norm(body)
        if not b or split_top(b, ";")[1:] or b.startswith("let "):
            continue
        helpers[name] = (params_of(header), b)
    for _ in range(3):
        changed = False
        for name, (params, body) in helpers.items():
            pos = 0
            while True:
                m = re.compile(r"(?<![\w.:])%s\(" % re.escape(name)).search(src, pos)
                if not m:
                    break
                before = src[max(0, m.start() - 3):m.start()]
                if before.endswith("fn "):
                    pos = m.end()
                    continue
                j = R.match_brace(src, m.end() - 1, "(", ")")
                args = [norm(a) for a in split_top(src[m.end():j - 1], ",") if a.strip()]
                if len(args) != len(params) or not all(re.match(r"^&?(mut )?[\w.:]+(\.clone\(\))?$", a) for a in args):
                    pos = m.end()
                    continue
                e = body
                tmp = {}
                for k, (pn, a) in enumerate(zip(params, args)):
                    tmp["\x00%d\x00" % k] = a
                    e = re.sub(r"(?<![\w.])%s\b" % re.escape(pn[0]), "\x00%d\x00" % k, e)
                for k, a in tmp.items():
                    e = e.replace(k, a)
                src = src[:m.start()] + e + src[j:]
                pos = m.start() + len(e)
                changed = True
        if not changed:
            break
    return src


def logic_shapes(src):
    src = inline_local_helpers(src, keep=("and", "or", "xor", "not", "tis", "is_true_value"))
    out = {}
    for name in ("and", "or"):
        _, body = fn_header_and_body(src, name)
        b = norm(body)
        m = re.match(r"^let (\w+) = next_ref\(this\)\?; match is_true_value\(this, \1\)\? \{(.*)\}$", b)
        if not m:
            raise ValueError("%s: body shape not recognised" % name)
        arms = dict(parse_arms(m.group(2)))
        if set(arms) != {"true", "false"}:
            raise ValueError("%s: expected arms true/false" % name)
        sh = {}
        for k, v in arms.items():
            v = norm(v)
            mm = re.match(r"^\{ push_boolean\(this, (true|false)\)\?; Ok\(None\) \}$", v)
            if mm:
                sh[k] = "(LPush %s)" % mm.group(1)
            elif re.match(r"^match this\.get_from_jump_table\(data(\.clone\(\))+\) \{ Some\((\w+)\) => Ok\(Some\(\2\)\), None => state_error\(.*\),? \}$", v):
                sh[k] = "LJump"
            else:
                raise ValueError("%s: arm %s not recognised: %s" % (name, k, v))
        out[name] = sh
    _, body = fn_header_and_body(src, "xor")
    b = norm(body)
    m = re.match(r"^let \((\w+), (\w+)\) = next_two_raw_ref\(this\)\?; let result = match \(is_true_value\(this, \1\)\?, is_true_value\(this, \2\)\?\) \{(.*)\}; push_boolean\(this, result\)\?; Ok\(None\)$", b)
    if not m:
        raise ValueError("xor: body shape not recognised")
    arms = parse_arms(m.group(3))
    table = {}
    for x in (False, True):
        for y in (False, True):
            val = None
            for pat, ab in arms:
                hit = False
                for alt in split_top(pat, "|"):
                    alt = alt.strip()
                    if alt == "_":
                        hit = True
                    else:
                        mm = re.match(r"^\((true|false|_), (true|false|_)\)$", alt)
                        if not mm:
                            raise ValueError("xor: pattern %r" % alt)
                        ok = lambda p, v: p == "_" or (p == "true") == v
                        hit = hit or (ok(mm.group(1), x) and ok(mm.group(2), y))
                if hit:
                    if ab not in ("true", "false"):
                        raise ValueError("xor: arm body %r" % ab)
                    val = ab
                    break
            if val is None:
                raise ValueError("xor: no arm for (%s, %s)" % (x, y))
            table[(x, y)] = val
    out["xor"] = table
    for name in ("not", "tis"):
        _, body = fn_header_and_body(src, name)
        b = norm(body)
        m = re.match(r"^let (\w+) = next_ref\(this\)\?; let result = is_true_value\(this, \1\)\?; push_boolean\(this, (!?)result\)\?; Ok\(None\)$", b)
        if not m:
            raise ValueError("%s: body shape not recognised" % name)
        out[name] = "true" if m.group(2) == "!" else "false"
    return out


def op_shape(fname, sources, dispatch_names):
    """shape of an op function named in execute.rs"""
    for fn, src in sources.items():
        if re.search(r"\bpub fn %s\b" % re.escape(fname), src):
            header, body = fn_header_and_body(src, fname)
            b = norm(body)
            if fname in ("jump_if_true", "jump_if_false"):
                return "ShJumpIf %s" % ("true" if fname == "jump_if_true" else "false"), b
            if fname in dispatch_names:
                return "ShSelf F_%s" % fname, b
            m = re.match(r"^(push_unit\(this\)\?; )?(perform_op|perform_unary_op|apply_internal|make_range_internal)\(this, (.*)\)$", b)
            if m:
                args = [a.strip() for a in split_top(m.group(3), ",")]
                ic = "None"
                flags = []
                for a in args:
                    mm = re.match(r"^Instruction::(\w+)$", a)
                    if mm:
                        ic = "(Some I_%s)" % mm.group(1)
                    elif a in ("true", "false"):
                        flags.append(a)
                    elif re.match(r"^Data::Number::\w+$", a):
                        pass
                    else:
                        raise ValueError("%s: argument %r not understood" % (fname, a))
                return "ShVia F_%s %s %s [%s]" % (m.group(2), ic, "true" if m.group(1) else "false", "; ".join(flags)), b
            m = re.match(r"^perform_comparison\(this, Ordering::(\w+)\)\.and_then\(\|result\| match result \{ Some\(result\) => push_boolean\(this, result\.is_(\w+)\(\)\), None => push_unit\(this\), \}\)\?; Ok\(None\)$", b)
            if m:
                return "ShCompare", b
            if fname in ("and", "or", "xor", "not", "tis"):
                return "ShLogic L_%s" % fname, b
            if fname in PLAIN_OPS:
                if "defer_op" in b or "GarnishDataType::" in b and fname not in ("type_equal", "resolve"):
                    raise ValueError("%s: expected no type dispatch in this function" % fname)
                return "ShPlain P_%s" % fname, b
            raise ValueError("op function %s has an unrecognised shape" % fname)
    raise ValueError("op function %s not found under %s" % (fname, RT))


def pat_coq(alts, guard):
    if guard == "eq":
        return "[PEq]"
    out = []
    for a in alts:
        cs = ["(PIs T_%s)" % t if k == "is" else "PAny" for k, t in a]
        if len(cs) == 1:
            out.append("P1 %s" % cs[0])
        else:
            out.append("P2 %s %s" % (cs[0], cs[1]))
    return "[" + "; ".join(out) + "]"


STATIC = r"""
(* where a value mentioned in a dispatch comes from *)
Inductive src : Type := SPop1 | SPop2 | SParam (k : nat).
Inductive instr_src : Type := IConst (i : instruction) | IParam.
Inductive ty_src : Type := TyOf (s : src) | TyUnit.
Inductive addr_src : Type := AddrOf (s : src) | AddrZero.

Inductive tpat : Type := PAny | PIs (t : data_type).
(* P1/P2: one alternative over a single type / a pair of types;
   PEq: the guarded arm `(l, r) if l == r` *)
Inductive pat : Type := P1 (a : tpat) | P2 (a b : tpat) | PEq.

Definition tpat_matches (p : tpat) (t : data_type) : bool :=
  match p with PAny => true | PIs u => data_type_eqb u t end.

(* a one-component pattern (`_`, a binder) also matches a pair *)
Definition pat_matches (p : pat) (tys : list data_type) : bool :=
  match p, tys with
  | P1 a, [t] => tpat_matches a t
  | P1 PAny, [_; _] => true
  | P2 a b, [t; u] => tpat_matches a t && tpat_matches b u
  | PEq, [t; u] => data_type_eqb t u
  | _, _ => false
  end.
"""

STATIC2 = r"""
Record arm : Type := { arm_pats : list pat; arm_body : body }.

(* first-match semantics of a Rust `match` *)
Fixpoint arm_of_list (arms : list arm) (n : nat) (tys : list data_type) : option (nat * arm) :=
  match arms with
  | [] => None
  | a :: rest => if existsb (fun p => pat_matches p tys) (arm_pats a) then Some (n, a) else arm_of_list rest (S n) tys
  end.
"""


ERRORS = {}      # per-function problems of the last analysis (function -> message)
NOTES = []       # changed / unknown arm bodies that were still classified


def analyse_all():
    """-> (fns, shapes, ops, arm_names); fills ERRORS / NOTES.  A function whose dispatch is not
    understood gets an empty arm list (its operations then no longer satisfy C08's theorems, which
    is a broken tie for C08 only); an op function of unrecognised shape becomes ShUnknown."""
    global ERRORS, NOTES
    ERRORS, NOTES = {}, []
    sources = all_rt_sources()
    type_names = R.enum_variants(R.read("traits/src/data.rs"), "GarnishDataType")
    arm_names = json.load(open(ARMS_JSON))
    # the only sources of the 'unsupported types' code the model knows how to follow
    for fn, src in sources.items():
        for m in re.finditer(r"\bfn (\w+)\b", src):
            try:
                _, b = fn_header_and_body(src, m.group(1))
            except Exception:
                continue
            if "RuntimeError::unsupported_types()" in b and m.group(1) not in HELPERS:
                ERRORS[m.group(1)] = "%s returns the unsupported-types error but is not a known helper" % m.group(1)
    fns = []
    for name, file in DISPATCH:
        if name in ("is_true_value", "jump_if_true", "jump_if_false"):
            continue
        try:
            f = analyse(name, sources[file], type_names, arm_names)
            NOTES += f.notes
        except Exception as e:
            ERRORS[name] = "%s: %s" % (type(e).__name__, e)
            f = Fn()
            f.name, f.scrut, f.pops, f.corrects, f.arms, f.named, f.notes = name, [], [], [], [], [], []
        fns.append(f)
    dispatch_names = [n for n, _ in DISPATCH]
    ops = execmap.op_functions()
    shapes = {}
    for op in ops:
        try:
            shapes[op], _ = op_shape(op, sources, dispatch_names)
        except Exception as e:
            ERRORS["op " + op] = "%s: %s" % (type(e).__name__, e)
            shapes[op] = "ShUnknown"
    return fns, shapes, ops, arm_names


def generate():
    fns, shapes, ops, arm_names = analyse_all()
    # arm names in use: every name in arms.json (stable inductive) + the generic one
    all_named = sorted({v["name"] for k, t in arm_names.items() if not k.startswith("_") for v in t.values()} | {"other", "unsupported"})

    t = R.HEADER % "runtime/src/runtime/*.rs (type-dispatch tables), runtime/src/execute.rs"
    t = t.replace("From Coq Require Import NArith List.", "From Coq Require Import NArith List Bool.\nFrom GV Require Import Gen.Instr Gen.Exec.")
    t += STATIC
    t += "\n(* helper functions a listed arm may call *)\n"
    t += R.coq_inductive("helper", HELPERS, "H_") + "\n\n"
    t += "(* stable names of the hand-interpreted arm bodies (tools/arms.json) *)\n"
    t += R.coq_inductive("arm_name", all_named, "A_") + "\n"
    t += R.coq_eqb("arm_name", all_named, "A_") + "\n\n"
    t += ("(* BNamed: which helpers the body calls, whether it tests for the UnsupportedOpTypes code,\n"
          "   whether it produces that code itself (`RuntimeError::unsupported_types()`) -- read from the\n"
          "   current body text whatever its name *)\n"
          "Inductive body : Type :=\n"
          "| BDefer (i : instr_src) (lt : ty_src) (la : addr_src) (rt : ty_src) (ra : addr_src)\n"
          "| BNamed (n : arm_name) (calls : list helper) (tests_unsupported : bool) (raises_unsupported : bool).\n")
    t += STATIC2
    t += "\n" + R.coq_inductive("disp_fn", [f.name for f in fns], "F_") + "\n"
    t += R.coq_eqb("disp_fn", [f.name for f in fns], "F_") + "\n\n"
    for f in fns:
        if f.name in ERRORS:
            t += "(* %s: NOT UNDERSTOOD by the translator (%s) *)\n" % (f.name, ERRORS[f.name].replace("*)", "* )")[:300])
        t += "(* %s: scrutinee components are the types of %s; pops %d register(s) *)\n" % (f.name, ", ".join(f.scrut), len(f.pops))
        t += "Definition %s_arms : list arm :=\n  [" % f.name
        rows = []
        for alts, guard, desc, pat in f.arms:
            rows.append("{| arm_pats := %s;\n      arm_body := %s |}" % (pat_coq(alts, guard), desc))
        t += ";\n   ".join(rows) + "].\n\n"
    t += "Definition arms_of (f : disp_fn) : list arm :=\n  match f with\n"
    for f in fns:
        t += "  | F_%s => %s_arms\n" % (f.name, f.name)
    t += "  end.\n\n"
    t += "Definition scrutinee_of (f : disp_fn) : list src :=\n  match f with\n"
    for f in fns:
        t += "  | F_%s => [%s]\n" % (f.name, "; ".join(f.scrut))
    t += "  end.\n\n"
    t += "(* registers the function itself pops, before dispatching *)\nDefinition pops_of (f : disp_fn) : nat :=\n  match f with\n"
    for f in fns:
        t += "  | F_%s => %d%%nat\n" % (f.name, len(f.pops))
    t += "  end.\n\n"
    t += ("(* scrutinee components that are first replaced by the type a Type value denotes\n"
          "   (`if right_type == GarnishDataType::Type { right_type = this.get_type(right)? }`) *)\n"
          "Definition corrected_components (f : disp_fn) : list nat :=\n  match f with\n")
    for f in fns:
        t += "  | F_%s => [%s]\n" % (f.name, "; ".join("%d%%nat" % i for i in f.corrects))
    t += "  end.\n\n"
    t += "Definition arm_of (f : disp_fn) (tys : list data_type) : option (nat * arm) := arm_of_list (arms_of f) 0%nat tys.\n\n"
    # op shapes
    t += "(* ---- the op functions execute.rs calls ---- *)\n"
    t += "Inductive logic_op : Type := L_and | L_or | L_xor | L_not | L_tis.\n"
    t += R.coq_inductive("plain_op", sorted(PLAIN_OPS), "P_") + "\n"
    t += ("Inductive op_shape : Type :=\n"
          "| ShSelf (f : disp_fn)\n"
          "| ShVia (f : disp_fn) (i : option instruction) (pre_push_unit : bool) (flags : list bool)\n"
          "| ShCompare\n| ShLogic (l : logic_op)\n| ShJumpIf (on_true : bool)\n| ShPlain (p : plain_op)\n"
          "| ShUnknown.   (* shape not recognised by the translator *)\n")
    t += "Definition op_shape_of (o : op_fn) : op_shape :=\n  match o with\n"
    for op in ops:
        t += "  | Op_%s => %s\n" % (op, shapes[op])
    t += "  end.\n"
    return {"Dispatch.v": t}


def refresh_arms():
    """rewrite tools/arms.json for the current tree: every non-deferring arm body gets an entry
    under its current hash (name kept through name_for), old entries stay; arms that could only
    be classified as `other` are listed for a human to name."""
    fns, shapes, ops, arm_names = analyse_all()
    unnamed = []
    for f in fns:
        for nm, h, pat in f.named:
            if nm == "other":
                unnamed.append((f.name, h, pat))
                continue
            e = arm_names.setdefault(f.name, {}).setdefault(h, {"name": nm})
            e["name"] = nm
            e["first_pattern"] = alt_texts(pat)[0]
            e["patterns"] = alt_texts(pat)
    arm_names["_fingerprints"] = body_fingerprints()
    json.dump(arm_names, open(ARMS_JSON, "w"), indent=1, sort_keys=True)
    return unnamed


def body_fingerprints():
    """normalised-body hashes of the dispatch functions and of every op function execute.rs
    calls.  Not proof obligations: a changed fingerprint only makes the quick tier run the
    thorough matrix (DESIGN.md section 4)."""
    sources = all_rt_sources()
    out = {}
    names = [n for n, _ in DISPATCH] + [o for o in execmap.op_functions()]
    for name in names:
        for fn, src in sources.items():
            if re.search(r"\bfn %s\b" % re.escape(name), src):
                _, b = fn_header_and_body(src, name)
                out[name] = hashlib.sha256(norm(b).encode()).hexdigest()[:12]
                break
    return out


def truth_generate():
    """Gen/Truth.v (tools/sync/truth.py): falsy sets and logical-operator shapes"""
    sources = all_rt_sources()
    falsy = {}
    for name, file in DISPATCH:
        if name in ("is_true_value", "jump_if_true", "jump_if_false"):
            falsy[name] = falsy_of(name, sources[file])
    logic = logic_shapes(sources["logical.rs"])
    t = R.HEADER % "runtime/src/runtime/logical.rs, runtime/src/runtime/jumps.rs"
    t = t.replace("From Coq Require Import NArith List.", "From Coq Require Import NArith List Bool.\nFrom GV Require Import Gen.Instr.")
    t += "(* ---- truth: the sets of types each testing function treats as false ---- *)\n"
    for name in ("is_true_value", "jump_if_true", "jump_if_false"):
        types, complement = falsy[name]
        lst = "[" + "; ".join("T_" + x for x in types) + "]"
        if complement:
            t += "Definition %s_falsy : list data_type := filter (fun t => negb (existsb (data_type_eqb t) %s)) all_data_type.\n" % (name, lst)
        else:
            t += "Definition %s_falsy : list data_type := %s.\n" % (name, lst)
    t += "\n(* ---- logical operators: what `and`/`or` do when the tested value is true / false ---- *)\n"
    t += "Inductive logic_branch : Type := LJump | LPush (b : bool).\n"
    for name in ("and", "or"):
        t += "Definition %s_on_true : logic_branch := %s.\nDefinition %s_on_false : logic_branch := %s.\n" % (
            name, logic[name]["true"], name, logic[name]["false"])
    x = logic["xor"]
    t += ("(* `let (left, right) = next_two_raw_ref(this)?`: [l] is the FIRST pop *)\n"
          "Definition xor_table (l r : bool) : bool :=\n  match l, r with\n  | false, false => %s | false, true => %s\n"
          "  | true, false => %s | true, true => %s\n  end.\n" % (x[(False, False)], x[(False, True)], x[(True, False)], x[(True, True)]))
    t += "Definition not_negates : bool := %s.\nDefinition tis_negates : bool := %s.\n" % (logic["not"], logic["tis"])
    return {"Truth.v": t}


def fingerprint_changes():
    snap = json.load(open(ARMS_JSON)).get("_fingerprints", {})
    cur = body_fingerprints()
    return sorted(k for k in set(snap) | set(cur) if snap.get(k) != cur.get(k))


if __name__ == "__main__":
    import sys
    if "--refresh" in sys.argv:
        for fn, h, pat in refresh_arms():
            print("UNNAMED arm (give it a name in tools/arms.json and a meaning in Model/OpDispatch.v): %s %s %s" % (fn, h, pat))
        print("errors:", ERRORS)
        print("\n".join(NOTES))
