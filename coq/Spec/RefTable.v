(* Reference operator table for C02, PINNED by hand (a snapshot of the intended table taken from
   make_priority_map / get_definition and cross-read against docs/src/precedence.md and the property
   text: tighter = smaller rank; equal rank groups left-to-right except pair `=`; prefix operators
   group right-to-left).  It is deliberately NOT generated: Proofs/C02 shows that the tables the
   translator extracts from the current parser.rs order every pair of definitions the same way. *)
From Coq Require Import NArith List.
From GV Require Import Gen.TokenTypes Gen.Defs.
Import ListNotations.
Local Open Scope N_scope.

Definition ref_rank (d : definition) : option N :=
  match d with
  | D_Number => Some 10
  | D_CharList => Some 10
  | D_ByteList => Some 10
  | D_Identifier => Some 10
  | D_Property => Some 10
  | D_Addition => Some 100
  | D_AbsoluteValue => Some 75
  | D_Subtraction => Some 100
  | D_Division => Some 90
  | D_MultiplicationSign => Some 90
  | D_ExponentialSign => Some 80
  | D_IntegerDivision => Some 90
  | D_Remainder => Some 90
  | D_Opposite => Some 75
  | D_BitwiseNot => Some 75
  | D_BitwiseAnd => Some 111
  | D_BitwiseOr => Some 113
  | D_BitwiseXor => Some 112
  | D_BitwiseLeftShift => Some 110
  | D_BitwiseRightShift => Some 110
  | D_And => Some 410
  | D_Or => Some 430
  | D_Xor => Some 420
  | D_Not => Some 400
  | D_Tis => Some 400
  | D_EmptyApply => Some 40
  | D_TypeOf => Some 69
  | D_TypeCast => Some 70
  | D_TypeEqual => Some 400
  | D_Equality => Some 400
  | D_Inequality => Some 400
  | D_LessThan => Some 300
  | D_LessThanOrEqual => Some 300
  | D_GreaterThan => Some 300
  | D_GreaterThanOrEqual => Some 300
  | D_Pair => Some 210
  | D_Range => Some 200
  | D_StartExclusiveRange => Some 200
  | D_EndExclusiveRange => Some 200
  | D_ExclusiveRange => Some 200
  | D_Concatenation => Some 240
  | D_Access => Some 30
  | D_AccessLeftInternal => Some 50
  | D_AccessRightInternal => Some 60
  | D_AccessLengthInternal => Some 60
  | D_List => Some 220
  | D_CommaList => Some 900
  | D_Symbol => Some 10
  | D_Value => Some 10
  | D_Unit => Some 10
  | D_Subexpression => Some 1000
  | D_ExpressionTerminator => Some 500
  | D_ExpressionSeparator => Some 990
  | D_Group => Some 20
  | D_NestedExpression => Some 20
  | D_SideEffect => Some 5
  | D_Apply => Some 550
  | D_ApplyTo => Some 550
  | D_PartialApply => Some 230
  | D_Reapply => Some 600
  | D_JumpIfTrue => Some 700
  | D_JumpIfFalse => Some 700
  | D_ElseJump => Some 800
  | D_True => Some 10
  | D_False => Some 10
  | D_PrefixApply => Some 150
  | D_SuffixApply => Some 151
  | D_InfixApply => Some 152
  | _ => None
  end.

(* the only right-to-left binary operator *)
Definition ref_rtl (d : definition) : bool := match d with D_Pair => true | _ => false end.

(* the two kinds of brackets of the expression fragment: round brackets `( )` (a group) and
   curly brackets `{ }` (a nested expression) *)
Inductive bkind : Type := BRound | BCurly.
Definition bkind_eqb (a b : bkind) : bool :=
  match a, b with BRound, BRound | BCurly, BCurly => true | _, _ => false end.
Definition bdef (b : bkind) : definition :=
  match b with BRound => D_Group | BCurly => D_NestedExpression end.

Definition open_tok (b : bkind) : token_type :=
  match b with BRound => TT_StartGroup | BCurly => TT_StartExpression end.
Definition close_tok (b : bkind) : token_type :=
  match b with BRound => TT_EndGroup | BCurly => TT_EndExpression end.

(* the expression separator `;`: the loosest binary operator, but never directly inside
   round brackets (there the parser treats it as whitespace): the operand of a round
   bracket is built under a limit just below the separator's rank *)
Definition is_sep_def (d : definition) : bool :=
  match d with D_ExpressionSeparator => true | _ => false end.
Definition ROUND_LIMIT : N := 985.

Inductive tok_kind : Type :=
  KValue | KBinary | KPrefix | KSuffix | KOpen (b : bkind) | KClose (b : bkind) | KSpace | KOther.

Definition ref_kind (t : token_type) : tok_kind :=
  match t with
  | TT_Unknown => KOther
  | TT_UnitLiteral => KValue
  | TT_PlusSign => KBinary
  | TT_Subtraction => KBinary
  | TT_Division => KBinary
  | TT_MultiplicationSign => KBinary
  | TT_ExponentialSign => KBinary
  | TT_IntegerDivision => KBinary
  | TT_Remainder => KBinary
  | TT_AbsoluteValue => KPrefix
  | TT_Opposite => KPrefix
  | TT_BitwiseNot => KPrefix
  | TT_BitwiseAnd => KBinary
  | TT_BitwiseOr => KBinary
  | TT_BitwiseXor => KBinary
  | TT_BitwiseLeftShift => KBinary
  | TT_BitwiseRightShift => KBinary
  | TT_And => KBinary
  | TT_Or => KBinary
  | TT_Xor => KBinary
  | TT_Not => KPrefix
  | TT_Tis => KPrefix
  | TT_StartExpression => KOpen BCurly
  | TT_EndExpression => KClose BCurly
  | TT_StartGroup => KOpen BRound
  | TT_EndGroup => KClose BRound
  | TT_StartSideEffect => KOther
  | TT_EndSideEffect => KOther
  | TT_Value => KValue
  | TT_Comma => KBinary
  | TT_Symbol => KValue
  | TT_Number => KValue
  | TT_Identifier => KValue
  | TT_CharList => KValue
  | TT_ByteList => KValue
  | TT_Whitespace => KSpace
  | TT_Subexpression => KOther
  | TT_ExpressionTerminator => KOther
  | TT_ExpressionSeparator => KBinary
  | TT_Annotation => KOther
  | TT_LineAnnotation => KOther
  | TT_JumpIfFalse => KBinary
  | TT_JumpIfTrue => KBinary
  | TT_ElseJump => KBinary
  | TT_TypeOf => KPrefix
  | TT_Apply => KBinary
  | TT_ApplyTo => KBinary
  | TT_PartialApply => KBinary
  | TT_Reapply => KPrefix
  | TT_EmptyApply => KSuffix
  | TT_TypeCast => KBinary
  | TT_TypeEqual => KBinary
  | TT_Equality => KBinary
  | TT_Inequality => KBinary
  | TT_LessThan => KBinary
  | TT_LessThanOrEqual => KBinary
  | TT_GreaterThan => KBinary
  | TT_GreaterThanOrEqual => KBinary
  | TT_Period => KBinary
  | TT_LeftInternal => KPrefix
  | TT_RightInternal => KSuffix
  | TT_LengthInternal => KSuffix
  | TT_Pair => KBinary
  | TT_Concatenation => KBinary
  | TT_Range => KBinary
  | TT_StartExclusiveRange => KBinary
  | TT_EndExclusiveRange => KBinary
  | TT_ExclusiveRange => KBinary
  | TT_False => KValue
  | TT_True => KValue
  | TT_PrefixIdentifier => KPrefix
  | TT_SuffixIdentifier => KSuffix
  | TT_InfixIdentifier => KBinary
  end.

(* the definition a token denotes (pinned) *)
Definition ref_def (t : token_type) : definition :=
  match t with
  | TT_Unknown => D_Drop
  | TT_UnitLiteral => D_Unit
  | TT_PlusSign => D_Addition
  | TT_Subtraction => D_Subtraction
  | TT_Division => D_Division
  | TT_MultiplicationSign => D_MultiplicationSign
  | TT_ExponentialSign => D_ExponentialSign
  | TT_IntegerDivision => D_IntegerDivision
  | TT_Remainder => D_Remainder
  | TT_AbsoluteValue => D_AbsoluteValue
  | TT_Opposite => D_Opposite
  | TT_BitwiseNot => D_BitwiseNot
  | TT_BitwiseAnd => D_BitwiseAnd
  | TT_BitwiseOr => D_BitwiseOr
  | TT_BitwiseXor => D_BitwiseXor
  | TT_BitwiseLeftShift => D_BitwiseLeftShift
  | TT_BitwiseRightShift => D_BitwiseRightShift
  | TT_And => D_And
  | TT_Or => D_Or
  | TT_Xor => D_Xor
  | TT_Not => D_Not
  | TT_Tis => D_Tis
  | TT_StartExpression => D_NestedExpression
  | TT_EndExpression => D_Drop
  | TT_StartGroup => D_Group
  | TT_EndGroup => D_Drop
  | TT_StartSideEffect => D_SideEffect
  | TT_EndSideEffect => D_Drop
  | TT_Value => D_Value
  | TT_Comma => D_CommaList
  | TT_Symbol => D_Symbol
  | TT_Number => D_Number
  | TT_Identifier => D_Identifier
  | TT_CharList => D_CharList
  | TT_ByteList => D_ByteList
  | TT_Whitespace => D_Drop
  | TT_Subexpression => D_Subexpression
  | TT_ExpressionTerminator => D_ExpressionTerminator
  | TT_ExpressionSeparator => D_ExpressionSeparator
  | TT_Annotation => D_Drop
  | TT_LineAnnotation => D_Drop
  | TT_JumpIfFalse => D_JumpIfFalse
  | TT_JumpIfTrue => D_JumpIfTrue
  | TT_ElseJump => D_ElseJump
  | TT_TypeOf => D_TypeOf
  | TT_Apply => D_Apply
  | TT_ApplyTo => D_ApplyTo
  | TT_PartialApply => D_PartialApply
  | TT_Reapply => D_Reapply
  | TT_EmptyApply => D_EmptyApply
  | TT_TypeCast => D_TypeCast
  | TT_TypeEqual => D_TypeEqual
  | TT_Equality => D_Equality
  | TT_Inequality => D_Inequality
  | TT_LessThan => D_LessThan
  | TT_LessThanOrEqual => D_LessThanOrEqual
  | TT_GreaterThan => D_GreaterThan
  | TT_GreaterThanOrEqual => D_GreaterThanOrEqual
  | TT_Period => D_Access
  | TT_LeftInternal => D_AccessLeftInternal
  | TT_RightInternal => D_AccessRightInternal
  | TT_LengthInternal => D_AccessLengthInternal
  | TT_Pair => D_Pair
  | TT_Concatenation => D_Concatenation
  | TT_Range => D_Range
  | TT_StartExclusiveRange => D_StartExclusiveRange
  | TT_EndExclusiveRange => D_EndExclusiveRange
  | TT_ExclusiveRange => D_ExclusiveRange
  | TT_False => D_False
  | TT_True => D_True
  | TT_PrefixIdentifier => D_PrefixApply
  | TT_SuffixIdentifier => D_SuffixApply
  | TT_InfixIdentifier => D_InfixApply
  end.
