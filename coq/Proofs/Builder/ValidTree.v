(* What the parser's validate_tree establishes: when it accepts a node array
   and root, the links below the root form a proper tree -- [tree_of nodes root]
   is defined.  The depth-first walk with an explicit stack is read as a
   recursive traversal: once a marked node is on top of the stack, the walk
   marks exactly the (previously unmarked) nodes of the subtree below it and
   continues with the rest of the stack. *)
From Coq Require Import List Arith Bool NArith Lia Wf_nat.
From GV Require Import Base.Result Gen.TokenTypes Gen.Defs Gen.Instr Model.Parser Model.BuilderWL Model.Compile
  Proofs.C05.InlBase Proofs.Builder.BState Proofs.Builder.TreeAt.
Import ListNotations.

Lemma tree_at_of_aux : forall ns t, tree_at ns t -> forall fuel, size t <= fuel ->
  tree_of_aux fuel ns (t_ix t) = Some t.
Proof.
  intros ns. induction t as [ix d l r IHl IHr] using tree_ind'. intros Hat fuel Hsz.
  destruct Hat as [[pn [Hn [Hd [Hl Hr]]]] [Hal Har]].
  destruct fuel as [|f]; [cbn [size] in Hsz; lia|].
  cbn [tree_of_aux t_ix]. rewrite Hn, Hl, Hr. cbn [size] in Hsz.
  destruct l as [a|]; destruct r as [b|]; cbn [oix].
  - rewrite (IHl a eq_refl Hal f) by lia. rewrite (IHr b eq_refl Har f) by lia. subst d. reflexivity.
  - rewrite (IHl a eq_refl Hal f) by lia. subst d. reflexivity.
  - rewrite (IHr b eq_refl Har f) by lia. subst d. reflexivity.
  - subst d. reflexivity.
Qed.

Lemma tree_at_in_range : forall ns t, tree_at ns t -> forall x, In x (indices t) -> x < length ns.
Proof.
  intros ns. induction t as [ix d l r IHl IHr] using tree_ind'. intros Hat x Hx.
  destruct Hat as [[pn [Hn _]] [Hal Har]]. rewrite indices_T in Hx. destruct Hx as [Hx|Hx].
  - subst x. apply nth_error_Some. rewrite Hn. discriminate.
  - apply in_app_or in Hx. destruct Hx as [Hx|Hx].
    + destruct l as [a|]; [exact (IHl a eq_refl Hal x Hx) | contradiction].
    + destruct r as [b|]; [exact (IHr b eq_refl Har x Hx) | contradiction].
Qed.

Lemma NoDup_nodup_b : forall l, NoDup l -> nodup_b l = true.
Proof.
  induction l as [|x l IH]; intros H; [reflexivity|]. inversion H; subst. cbn [nodup_b].
  rewrite (IH H3), andb_true_r. apply negb_true_iff.
  destruct (existsb (Nat.eqb x) l) eqn:E; [|reflexivity].
  apply existsb_exists in E. destruct E as [y [Hy Exy]]. apply Nat.eqb_eq in Exy. subst y. contradiction.
Qed.

Section VT.
Variable ns : list pnode.

Lemma visit_child_ok : forall v st i c v' st',
  visit_child ns v st i c = Ok (v', st') ->
  match c with
  | None => v' = v /\ st' = st
  | Some k =>
    (exists cn, nth_error ns k = Some cn) /\ nth_error v k = Some false /\ nth_error v' k = Some true /\
    (forall j, j <> k -> nth_error v' j = nth_error v j) /\ length v' = length v /\ st' = k :: st
  end.
Proof.
  intros v st i c v' st' H. unfold visit_child in H. destruct c as [k|]; [|inversion H; auto].
  destruct (nth_error ns k) as [cn|] eqn:Hk; [|discriminate].
  destruct (nth_error v k) as [[|]|] eqn:Hv; try discriminate.
  destruct (opt_nat_eqb (n_parent cn) (Some i)); [|discriminate].
  destruct (upd v k (fun _ => true)) as [v2|] eqn:Hu; [|discriminate]. inversion H; subst.
  destruct (upd_spec _ _ _ _ _ Hu) as [x [Hx [Hlen [Hn Hother]]]].
  split; [exists cn; reflexivity|]. repeat split; auto.
Qed.

Definition marks (v v' : list bool) (t : tree) : Prop :=
  length v' = length v /\
  (forall k, In k (tl (indices t)) -> nth_error v k = Some false) /\
  (forall k, In k (tl (indices t)) -> nth_error v' k = Some true) /\
  (forall k, ~ In k (tl (indices t)) -> nth_error v' k = nth_error v k).

Lemma vgo_sub : forall fuel v i rest vf,
  validate_go fuel ns v (i :: rest) = Ok vf ->
  (exists n, nth_error ns i = Some n) -> nth_error v i = Some true ->
  exists t fuel' v',
    t_ix t = i /\ tree_at ns t /\ NoDup (indices t) /\
    validate_go fuel' ns v' rest = Ok vf /\ fuel' < fuel /\ marks v v' t.
Proof.
  induction fuel as [fuel IH] using lt_wf_ind. intros v i rest vf H [n Hn] Hvi.
  destruct fuel as [|f]; [discriminate|]. cbn [validate_go] in H. rewrite Hn in H.
  apply bind_ok in H. destruct H as [[v1 st1] [H1 H]].
  apply bind_ok in H. destruct H as [[v2 st2] [H2 H]].
  apply visit_child_ok in H1. apply visit_child_ok in H2.
  destruct (n_left n) as [kl|] eqn:El; destruct (n_right n) as [kr|] eqn:Er.
  - (* both children: the right one is on top of the stack *)
    destruct H1 as [[cl Hcl] [L1 [L2 [L3 [L4 L5]]]]]. subst st1.
    destruct H2 as [[cr Hcr] [R1 [R2 [R3 [R4 R5]]]]]. subst st2.
    assert (Nlr : kl <> kr) by (intros E; subst; congruence).
    assert (Nil : i <> kl) by (intros E; subst; congruence).
    assert (Nir : i <> kr) by (intros E; subst; rewrite L3 in R1 by auto; congruence).
    destruct (IH f (Nat.lt_succ_diag_r f) v2 kr (kl :: rest) vf H (ex_intro _ cr Hcr) R2)
      as [tr [f2 [v3 [Ir [Atr [Ndr [Hgo2 [Hf2 [Mr1 [Mr2 [Mr3 Mr4]]]]]]]]]]].
    assert (Hkl3 : nth_error v3 kl = Some true).
    { destruct (in_dec Nat.eq_dec kl (tl (indices tr))) as [Hin|Hin]; [apply Mr3; exact Hin|].
      rewrite Mr4 by exact Hin. rewrite R3 by auto. exact L2. }
    destruct (IH f2 ltac:(lia) v3 kl rest vf Hgo2 (ex_intro _ cl Hcl) Hkl3)
      as [tl0 [f3 [v4 [Il [Atl [Ndl [Hgo3 [Hf3 [Ml1 [Ml2 [Ml3 Ml4]]]]]]]]]]].
    exists (T i (n_def n) (Some tl0) (Some tr)), f3, v4.
    assert (Htl_l : indices tl0 = kl :: tl (indices tl0)) by (destruct tl0; cbn in *; subst; reflexivity).
    assert (Htl_r : indices tr = kr :: tl (indices tr)) by (destruct tr; cbn in *; subst; reflexivity).
    (* where every index of the two subtrees stands in v *)
    assert (Fr : forall k, In k (tl (indices tr)) -> nth_error v k = Some false /\ k <> kl /\ k <> kr /\ k <> i).
    { intros k Hk. pose proof (Mr2 k Hk) as A.
      assert (k <> kr) by (intros E; subst; rewrite Htl_r in Ndr; inversion Ndr; contradiction).
      rewrite R3 in A by assumption.
      assert (k <> kl) by (intros E; subst; congruence).
      rewrite L3 in A by assumption. repeat split; auto. intros E; subst; congruence. }
    assert (Fl : forall k, In k (tl (indices tl0)) -> nth_error v k = Some false /\ k <> kl /\ k <> kr /\ k <> i /\ ~ In k (tl (indices tr))).
    { intros k Hk. pose proof (Ml2 k Hk) as A.
      assert (Nkr : ~ In k (tl (indices tr))) by (intros Hc; rewrite (Mr3 k Hc) in A; discriminate).
      rewrite Mr4 in A by exact Nkr.
      assert (k <> kr) by (intros E; subst; congruence).
      rewrite R3 in A by assumption.
      assert (k <> kl) by (intros E; subst; rewrite Htl_l in Ndl; inversion Ndl; contradiction).
      rewrite L3 in A by assumption. repeat split; auto. intros E; subst; congruence. }
    split; [reflexivity|]. split.
    { cbn [tree_at]. split; [exists n; rewrite El, Er; cbn [oix]; subst; auto | split; assumption]. }
    split.
    { rewrite indices_T. cbn [oindices]. constructor.
      - rewrite in_app_iff, Htl_l, Htl_r. cbn [In]. intros [[E|E]|[E|E]]; try congruence.
        + destruct (Fl i E) as [_ [_ [_ [A _]]]]. congruence.
        + destruct (Fr i E) as [_ [_ [_ A]]]. congruence.
      - apply nodup_app_intro; [exact Ndl | exact Ndr |].
        intros x Hx Hy. rewrite Htl_l in Hx. rewrite Htl_r in Hy. destruct Hx as [Hx|Hx]; destruct Hy as [Hy|Hy].
        + congruence.
        + subst x. destruct (Fr kl Hy) as [_ [A _]]. congruence.
        + subst x. destruct (Fl kr Hx) as [_ [_ [A _]]]. congruence.
        + destruct (Fl x Hx) as [_ [_ [_ [_ A]]]]. contradiction. }
    split; [exact Hgo3|]. split; [lia|].
    unfold marks. cbn [indices tl]. split; [congruence|].
    assert (Hin : forall k, In k (indices tl0 ++ indices tr) <-> k = kl \/ In k (tl (indices tl0)) \/ k = kr \/ In k (tl (indices tr))).
    { intros k. rewrite in_app_iff.
      assert (A : In k (indices tl0) <-> k = kl \/ In k (tl (indices tl0))).
      { destruct tl0 as [i0 d0 l0 r0]. cbn [t_ix indices tl In] in *. subst i0. intuition congruence. }
      assert (B : In k (indices tr) <-> k = kr \/ In k (tl (indices tr))).
      { destruct tr as [i0 d0 l0 r0]. cbn [t_ix indices tl In] in *. subst i0. intuition congruence. }
      tauto. }
    split; [|split].
    + intros k Hk. apply Hin in Hk. destruct Hk as [E|[E|[E|E]]]; [subst; exact L1 | apply Fl; exact E | subst; rewrite <- R1; symmetry; apply L3; auto | apply Fr; exact E].
    + intros k Hk. apply Hin in Hk.
      destruct (in_dec Nat.eq_dec k (tl (indices tl0))) as [A|A]; [apply Ml3; exact A|]. rewrite Ml4 by exact A.
      destruct (in_dec Nat.eq_dec k (tl (indices tr))) as [B|B]; [apply Mr3; exact B|]. rewrite Mr4 by exact B.
      destruct Hk as [E|[E|[E|E]]]; try contradiction; subst; [rewrite R3 by auto; exact L2 | exact R2].
    + intros k Hk. assert (Nk : k <> kl /\ ~ In k (tl (indices tl0)) /\ k <> kr /\ ~ In k (tl (indices tr))).
      { repeat split; intros E; apply Hk; apply Hin; auto. }
      destruct Nk as [A [B [C D]]]. rewrite Ml4, Mr4, R3, L3; auto.
  - (* left child only *)
    destruct H1 as [[cl Hcl] [L1 [L2 [L3 [L4 L5]]]]]. subst st1. destruct H2 as [? ?]; subst v2 st2.
    assert (Nil : i <> kl) by (intros E; subst; congruence).
    destruct (IH f (Nat.lt_succ_diag_r f) v1 kl rest vf H (ex_intro _ cl Hcl) L2)
      as [tl0 [f3 [v4 [Il [Atl [Ndl [Hgo3 [Hf3 [Ml1 [Ml2 [Ml3 Ml4]]]]]]]]]]].
    exists (T i (n_def n) (Some tl0) None), f3, v4.
    assert (Htl_l : indices tl0 = kl :: tl (indices tl0)) by (destruct tl0; cbn in *; subst; reflexivity).
    assert (Fl : forall k, In k (tl (indices tl0)) -> nth_error v k = Some false /\ k <> kl /\ k <> i).
    { intros k Hk. pose proof (Ml2 k Hk) as A.
      assert (k <> kl) by (intros E; subst; rewrite Htl_l in Ndl; inversion Ndl; contradiction).
      rewrite L3 in A by assumption. repeat split; auto. intros E; subst; congruence. }
    split; [reflexivity|]. split.
    { cbn [tree_at]. split; [exists n; rewrite El, Er; cbn [oix]; subst; auto | split; [assumption | exact I]]. }
    split.
    { rewrite indices_T. cbn [oindices]. rewrite app_nil_r. constructor; [|exact Ndl].
      rewrite Htl_l. cbn [In]. intros [E|E]; [congruence|]. destruct (Fl i E) as [_ [_ A]]. congruence. }
    split; [exact Hgo3|]. split; [lia|].
    unfold marks. cbn [indices tl]. rewrite app_nil_r. split; [congruence|]. split; [|split].
    + intros k Hk. rewrite Htl_l in Hk. destruct Hk as [E|E]; [subst; exact L1 | apply Fl; exact E].
    + intros k Hk. rewrite Htl_l in Hk.
      destruct (in_dec Nat.eq_dec k (tl (indices tl0))) as [A|A]; [apply Ml3; exact A|]. rewrite Ml4 by exact A.
      destruct Hk as [E|E]; [subst; exact L2 | contradiction].
    + intros k Hk. rewrite Htl_l in Hk. cbn [In] in Hk. rewrite Ml4, L3; auto.
  - (* right child only *)
    destruct H1 as [? ?]; subst v1 st1. destruct H2 as [[cr Hcr] [R1 [R2 [R3 [R4 R5]]]]]. subst st2.
    assert (Nir : i <> kr) by (intros E; subst; congruence).
    destruct (IH f (Nat.lt_succ_diag_r f) v2 kr rest vf H (ex_intro _ cr Hcr) R2)
      as [tr [f3 [v4 [Ir [Atr [Ndr [Hgo3 [Hf3 [Mr1 [Mr2 [Mr3 Mr4]]]]]]]]]]].
    exists (T i (n_def n) None (Some tr)), f3, v4.
    assert (Htl_r : indices tr = kr :: tl (indices tr)) by (destruct tr; cbn in *; subst; reflexivity).
    assert (Fr : forall k, In k (tl (indices tr)) -> nth_error v k = Some false /\ k <> kr /\ k <> i).
    { intros k Hk. pose proof (Mr2 k Hk) as A.
      assert (k <> kr) by (intros E; subst; rewrite Htl_r in Ndr; inversion Ndr; contradiction).
      rewrite R3 in A by assumption. repeat split; auto. intros E; subst; congruence. }
    split; [reflexivity|]. split.
    { cbn [tree_at]. split; [exists n; rewrite El, Er; cbn [oix]; subst; auto | split; [exact I | assumption]]. }
    split.
    { rewrite indices_T. cbn [oindices app]. constructor; [|exact Ndr].
      rewrite Htl_r. cbn [In]. intros [E|E]; [congruence|]. destruct (Fr i E) as [_ [_ A]]. congruence. }
    split; [exact Hgo3|]. split; [lia|].
    unfold marks. cbn [indices tl app]. split; [congruence|]. split; [|split].
    + intros k Hk. rewrite Htl_r in Hk. destruct Hk as [E|E]; [subst; exact R1 | apply Fr; exact E].
    + intros k Hk. rewrite Htl_r in Hk.
      destruct (in_dec Nat.eq_dec k (tl (indices tr))) as [A|A]; [apply Mr3; exact A|]. rewrite Mr4 by exact A.
      destruct Hk as [E|E]; [subst; exact R2 | contradiction].
    + intros k Hk. rewrite Htl_r in Hk. cbn [In] in Hk. rewrite Mr4, R3; auto.
  - (* a leaf *)
    destruct H1 as [? ?]; subst v1 st1. destruct H2 as [? ?]; subst v2 st2.
    exists (T i (n_def n) None None), f, v.
    split; [reflexivity|]. split; [cbn [tree_at]; split; [exists n; rewrite El, Er; auto | auto]|].
    split; [cbn; constructor; [intros [] | constructor]|]. split; [exact H|]. split; [lia|].
    unfold marks. cbn. repeat split; auto; intros k [].
Qed.

Theorem validate_tree_of : forall root, validate_tree ns root = Ok tt -> exists t, tree_of ns root = Some t.
Proof.
  intros root H. unfold validate_tree in H.
  destruct (upd (map (fun _ : pnode => false) ns) root (fun _ => true)) as [v0|] eqn:Hu; [|discriminate].
  apply bind_ok in H. destruct H as [vf [Hgo _]].
  destruct (upd_spec _ _ _ _ _ Hu) as [x [Hx [Hlen [Hn _]]]].
  assert (Hr : root < length ns).
  { rewrite <- (map_length (fun _ : pnode => false)). apply nth_error_Some. rewrite Hx. discriminate. }
  destruct (nth_error ns root) as [n|] eqn:En; [|apply nth_error_None in En; lia].
  destruct (vgo_sub _ _ _ _ _ Hgo (ex_intro _ n En) Hn) as [t [f' [v' [Hi [Hat [Hnd _]]]]]].
  exists t. unfold tree_of.
  assert (Hsz : size t <= length ns).
  { rewrite size_indices. rewrite <- (seq_length (length ns) 0). apply NoDup_incl_length; [exact Hnd|].
    intros k Hk. apply in_seq. pose proof (tree_at_in_range ns t Hat k Hk). lia. }
  rewrite <- Hi. rewrite (tree_at_of_aux ns t Hat (length ns) Hsz). rewrite (NoDup_nodup_b _ Hnd). reflexivity.
Qed.

End VT.

(* what the parser returns is the empty program or a proper tree *)
Theorem parse_tree_of : forall toks root nodes,
  parse toks = Ok (root, nodes) -> nodes = [] \/ exists t, tree_of nodes root = Some t.
Proof.
  intros toks root nodes H. unfold parse, parse_trimmed in H.
  destruct (snd (trim_tokens toks)) as [|t0 ts]; [inversion H; left; reflexivity|].
  apply bind_ok in H. destruct H as [st [_ H]].
  destruct (forbidden (prev_sec st) S_None (check_for_list st)); [discriminate|].
  destruct (separated st && forbidden_separated (prev_sig st) S_None (check_for_list st)); [discriminate|].
  destruct (group_stack st); [|discriminate].
  match type of H with match ?l with _ => _ end = _ => destruct l as [|n0 l0] eqn:El end; [inversion H; left; reflexivity|].
  apply bind_ok in H. destruct H as [rt [_ H]]. apply bind_ok in H. destruct H as [u [Hv H]].
  inversion H; subst. right. destruct u. rewrite <- El. apply validate_tree_of. rewrite El. exact Hv.
Qed.
