"""C14 Literals denote exactly what they spell."""
import struct, os
import vplib
from vplib import Verdict, log

PID = "C14"
MANIFEST_ENTRY = {
 "level_claimed": {
  "category": "proof",
  "text": "Theorems in coq/Properties/C14.v about an executable model of data/src/data/parsing.rs, for all inputs by induction: every radix literal 0R_digits (R in 2..36, any valid digits, any placement of `_` separators) parses to the value of the digits in radix R when it fits an i32 and is rejected otherwise (R<>10); every non-negative i32 has a spelling in every radix, and a decimal spelling with separators, that parses back to it; a decimal fraction digits.digits is converted by the IEEE-754 round-to-nearest-even of its decimal value (via Flocq, for every mantissa and exponent; partial: the text-level theorem covers digits.digits without separators/exponent), and every finite positive binary64 has a decimal-fraction spelling that parses back to exactly it; every char-list literal made of raw characters, backslash escapes and \\u{hex} escapes parses to exactly the characters those items denote, for every quote count and every (multi-byte) character, and every string has such a spelling; the same for byte lists in text form and for byte vectors in numeric form; the CharList/ByteList headers written by both data implementations make every stored character readable at its index and a symbol keeps its name. The model (including its own str::parse::<f64>) is tied to the Rust code on every run by running both on the same literals (direct calls of the parsing functions and one-literal programs lexed, parsed, built and executed on SimpleGarnishData and BasicGarnishData, read back through the public getters), and an independent Python oracle (spell -> evaluate -> compare) checks the implementation directly.",
  "design_ref": "DESIGN.md section 8 C14"
 },
 "level_note": "Trusted: Coq kernel; Flocq's four standard-library axioms (float theorems only; the integer, text and byte theorems are closed under the global context); extraction (ExtrOcamlBasic only); the Rust harness and the Python oracle. Both stages are proved: for every classification of non-ASCII characters the lexer model (Model/Lexer.v, tied to lex/lexer.rs by the C13 correspondence) turns each spelling into exactly ONE token at (0,0) whose text is the whole spelling (C14_lex_string, C14_lex_bytes_text, C14_lex_bytes, C14_lex_radix / C14_lex_int / C14_lex_decimal, C14_lex_float - floats are Number tokens, the lexer has no float type), and composed with the parser round trips lexing followed by parse_char_list / parse_byte_list / parse_simple_number is the identity on strings, byte vectors, non-negative i32 in every radix 2..36 and finite positive binary64 (C14_string_end_to_end, C14_char_list_end_to_end, C14_bytes_text_end_to_end, C14_bytes_end_to_end, C14_int_end_to_end, C14_decimal_end_to_end, C14_float_end_to_end); a literal followed by arbitrary input is the first token and leaves exactly the rest unread (C14_lex_*_then; proof: an explicit state invariant for 'inside a literal opened with n quotes' and its closing rule, Proofs/C14/LexSpelling*.v). Spellings the literal parser accepts but the lexer never delivers as one token are machine-checked witnesses, not claims: two quotes on each side, an empty value between three or more quotes, an escaped apostrophe in byte text (C14_lex_*_refuted) - every value still has a spelling that lexes. Partial: the spelling in the float round-trip theorem is the exact decimal expansion, not Rust's shortest `{}` form - that the shortest form evaluates back is checked on the implementation (Python float() as oracle); char::is_numeric on non-ASCII characters and symbol_value (SipHash) are oracles. Seven defects were found and fixed in /repo (known_findings.json, fixed).",
 "technique": "Coq proof (induction over digit strings / literal items; Flocq for decimal->binary64) over an executable model + differential correspondence with the Rust implementation"
}
I32_MAX = 2**31 - 1


# ---------------------------------------------------------------- encoding
def cps(s):
    return ".".join("%x" % ord(c) for c in s) if s else "-"


def bcps(bs):
    return ".".join("%x" % b for b in bs) if len(bs) else "-"


def f_bits(x):
    return "%016x" % struct.unpack("<Q", struct.pack("<d", x))[0]


def bits_f(h):
    return struct.unpack("<d", struct.pack("<Q", int(h, 16)))[0]


def uncps(h):
    return "" if h == "-" else "".join(chr(int(x, 16)) for x in h.split("."))


# --------------------------------------------- independent spelling functions
DIGITS = "0123456789abcdefghijklmnopqrstuvwxyz"


def digits_of(n, R):
    if n == 0:
        return "0"
    out = ""
    while n:
        out = DIGITS[n % R] + out
        n //= R
    return out


def spell_int(R, n):
    return "0%d_%s" % (R, digits_of(n, R))


def with_seps(rng, ds, first_ok=True):
    """insert `_` at random places of a digit string (anywhere, doubled too);
    first_ok=False keeps the first character a digit."""
    out = []
    for i, c in enumerate(ds):
        if (i > 0 or first_ok) and rng.random() < 0.3:
            out.append("_" * rng.choice([1, 1, 1, 2]))
        out.append(c)
    if rng.random() < 0.2:
        out.append("_")
    return "".join(out)


CHAR_ESC = {"\n": "\\n", "\t": "\\t", "\r": "\\r", "\0": "\\0", "\\": "\\\\", '"': "\\u{22}"}


def spell_string(q, s):
    return '"' * q + "".join(CHAR_ESC.get(c, c) for c in s) + '"' * q


BYTE_ESC = {10: "\\n", 9: "\\t", 13: "\\r", 0: "\\0", 92: "\\\\", 39: "\\'"}


def spell_bytes_text(bs):
    return "'" + "".join(BYTE_ESC.get(b, chr(b)) for b in bs) + "'"


def spell_bytes_num(q, bs):
    return "'" * q + " ".join(str(b) for b in bs) + "'" * q


# ------------------------------------------------------- expected observations
def exp_num_int(v):
    s = "I:%x" % v
    return {"D": s, "S": s, "B": s}


def exp_num_float(x):
    s = "F:" + f_bits(x)
    return {"D": s, "S": s, "B": s}


EXP_ERR = {"D": "Err", "S": "BuildErr", "B": "BuildErr"}


def exp_chars(s):
    c = cps(s)
    st = "S:%s,len=%d,items=%s" % (c, len(s), c)
    return {"D": "S:" + c, "S": st, "B": st}


def exp_bytes(bs):
    c = bcps(bs)
    st = "Y:%s,len=%d,items=%s" % (c, len(bs), c)
    return {"D": "Y:" + c, "S": st, "B": st}


def expected_decimal_text(text):
    """what a decimal literal (digits, optional fraction/exponent, `_` separators) spells"""
    t = text.replace("_", "")
    if t.isdigit() and t.isascii() and int(t) <= I32_MAX:
        return exp_num_int(int(t))
    return exp_num_float(float(t))      # Python's float() is correctly rounded


# ---------------------------------------------------------------- generators
STR_ALPHA = ["a", "Z", "5", " ", '"', "\\", "\n", "\t", "\r", "\0", "'", "{", "}", "u",
             "é", "€", "\U0001d11e"]
WIDE = STR_ALPHA + ["n", "t", "0", "_", ":", ".", "ÿ", "Ā", "߿", "ࠀ", "￿", "\U00010000",
                    "\U0010ffff", "٣", "日", "\x7f", "\x80", "\x01"]
QUOTE_FORMS = [1, 3, 4, 7]
ESC_CHAR = {"n": "\n", "t": "\t", "r": "\r", "0": "\0", "b": "\\", "q": '"'}
ESC_SRC = {"n": "n", "t": "t", "r": "r", "0": "0", "b": "\\", "q": '"'}
BESC_BYTE = {"n": 10, "t": 9, "r": 13, "0": 0, "b": 92, "q": 39}
BESC_SRC = {"n": "n", "t": "t", "r": "r", "0": "0", "b": "\\", "q": "'"}


def all_strings(alpha, maxlen):
    level = [""]
    yield ""
    for _ in range(maxlen):
        nxt = []
        for p in level:
            for c in alpha:
                nxt.append(p + c)
                yield p + c
        level = nxt


def rand_scalar(rng):
    while True:
        r = rng.random()
        if r < 0.3:
            v = rng.randint(0, 0x7f)
        elif r < 0.5:
            v = rng.randint(0x80, 0x7ff)
        elif r < 0.8:
            v = rng.randint(0x800, 0xffff)
        else:
            v = rng.randint(0x10000, 0x10ffff)
        if not (0xd800 <= v <= 0xdfff):
            return v


def gen_cases(tier, seed):
    """returns list of (case line, clause, expected dict or None)
    clause: 'spelling' (a value's spelling: must lex as one literal and evaluate to the value),
            'literal'  (an arbitrary well-formed literal: if it lexes as one literal it must denote `expected`),
            'soup'     (correspondence only)"""
    rng = vplib.rng_for(seed, "C14")
    thorough = tier == "thorough"
    out = []

    def add(kind, text, ann, clause, exp):
        out.append(("%s %s %s" % (kind, cps(text), ann), clause, exp))

    # ---- integers: boundary and random non-negative i32 in every radix, random separators
    n_rand = 400 if thorough else 40
    for R in range(2, 37):
        vals = {0, 1, R - 1, R, R + 1, I32_MAX, I32_MAX - 1, 2**30, 2**31 - R, 255, 256, 65535, 65536}
        k = 1
        while R**k <= I32_MAX:
            vals.update({R**k - 1, R**k, R**k + 1})
            k += 1
        vals = sorted(v for v in vals if 0 <= v <= I32_MAX)
        vals += [rng.randint(0, I32_MAX) for _ in range(n_rand)] + [rng.randint(0, 70000) for _ in range(n_rand // 4)]
        for n in vals:
            add("N", spell_int(R, n), "int:%x:%x" % (R, n), "spelling", exp_num_int(n))
            ds = with_seps(rng, digits_of(n, R))
            add("N", "0%d_%s" % (R, ds), "int:%x:%x" % (R, n), "spelling", exp_num_int(n))
        # arbitrary valid digit strings: leading zeros, upper case, overflow
        for _ in range(n_rand):
            ln = rng.choice([1, 2, 3, 5, 8, 12, 33])
            ds = "".join(rng.choice(DIGITS[:R]) for _ in range(ln))
            ds = "".join(c.upper() if rng.random() < 0.4 else c for c in ds)
            v = int(ds, R)
            text = "0%d_%s" % (R, with_seps(rng, ds))
            if v <= I32_MAX:
                exp = exp_num_int(v)
            elif R == 10:
                exp = exp_num_float(float(v))
            else:
                exp = EXP_ERR
            add("N", text, "rdx:%x" % R, "literal", exp)
    # plain decimals with separators after the first digit
    dec_vals = [0, 1, 9, 10, 99, 100, 1000, 65535, 2**31 - 1, 2**31 - 2, 10**9, 1234567890, 2000000000]
    dec_vals += [rng.randint(0, I32_MAX) for _ in range(n_rand * 5)]
    for n in dec_vals:
        add("N", str(n), "dec:%x" % n, "spelling", exp_num_int(n))
        if n > 0:
            add("N", with_seps(rng, str(n), first_ok=False), "dec:%x" % n, "spelling", exp_num_int(n))
    # decimal fractions with separators (the text up to the first `_` must not be a 0-prefixed digit string:
    # that is the radix grammar)
    for _ in range(n_rand * 5):
        ip = str(rng.choice([0, 0, 1, 7, 12, 123456, rng.randint(0, 10**9), rng.randint(0, 10**18)]))
        fp = "".join(rng.choice("0123456789") for _ in range(rng.choice([1, 2, 3, 6, 9, 17, 25])))
        text = with_seps(rng, ip, first_ok=False) + "." + with_seps(rng, fp)
        head = text.split("_")[0]
        if "_" in text and head.startswith("0") and head.isdigit():
            continue
        add("N", text, "flt:" + f_bits(float((ip + "." + fp))), "literal", expected_decimal_text(text))

    # ---- strings: exhaustive short ones over the alphabet, every quote form
    maxlen = 3
    for s in all_strings(STR_ALPHA, maxlen):
        for q in QUOTE_FORMS:
            if len(s) == 3 and q == 7 and not thorough:
                continue
            if not s and q != 1:
                continue    # the empty char list is written "" (the lexer reserves a bare quote pair for it)
            add("C", spell_string(q, s), "str:%x:%s" % (q, cps(s)), "spelling", exp_chars(s))
    for _ in range(20000 if thorough else 1500):
        ln = rng.choice([4, 5, 8, 13, 40]) if rng.random() < 0.9 else rng.randint(41, 300)
        s = "".join(rng.choice(WIDE) if rng.random() < 0.7 else chr(rand_scalar(rng)) for _ in range(ln))
        q = rng.choice(QUOTE_FORMS + [rng.randint(3, 12)])
        add("C", spell_string(q, s), "str:%x:%s" % (q, cps(s)), "spelling", exp_chars(s))
    # arbitrary well-formed char-list literals: raw characters, escapes, \u{hex}
    for _ in range(40000 if thorough else 4000):
        q = rng.choice([1, 1, 3, 3, 4, 6])
        items, src, den = [], [], []
        for _ in range(rng.choice([0, 1, 2, 3, 5, 9])):
            r = rng.random()
            if r < 0.5:
                c = rng.choice(WIDE) if rng.random() < 0.8 else chr(rand_scalar(rng))
                if c == "\\" or (q <= 1 and c in "\n\t") or (not src and c == '"'):
                    continue
                items.append("r%x" % ord(c)); src.append(c); den.append(c)
            elif r < 0.8:
                e = rng.choice("ntr0bq")
                items.append("e" + e); src.append("\\" + ESC_SRC[e]); den.append(ESC_CHAR[e])
            else:
                v = rand_scalar(rng) if rng.random() < 0.8 else rng.choice([0, 0x22, 0x5c, 0xd7ff, 0xe000, 0x10ffff, 0x7f, 0x80])
                h = "%x" % v
                h = "0" * rng.choice([0, 0, 1, 3]) + "".join(c.upper() if rng.random() < 0.5 else c for c in h)
                items.append("u" + cps(h)); src.append("\\u{" + h + "}"); den.append(chr(v))
        text = '"' * q + "".join(src) + '"' * q
        add("C", text, "citems:%x:%s" % (q, ",".join(items) if items else "-"), "literal", exp_chars("".join(den)))

    # ---- byte vectors
    bvals = [0, 1, 9, 10, 13, 32, 39, 48, 92, 127, 128, 200, 255]
    vecs = [[]] + [[b] for b in range(256)]
    if thorough:
        vecs += [[a, b] for a in range(256) for b in range(256)]
    else:
        vecs += [[a, b] for a in bvals for b in range(256)] + [[a, b] for a in range(256) for b in bvals]
    for _ in range(3000 if thorough else 300):
        vecs.append([rng.randint(0, 255) for _ in range(rng.choice([3, 4, 7, 16, 64]))])
    for bs in vecs:
        if not bs:
            add("B", "''", "bnum:1:-", "spelling", exp_bytes(bs))
            continue
        small = len(bs) <= 1 or thorough or rng.random() < 0.15
        for q in ([3, 4, 6] if small else [rng.choice([3, 4, 5, 9])]):
            add("B", spell_bytes_num(q, bs), "bnum:%x:%s" % (q, bcps(bs)), "spelling", exp_bytes(bs))
        if 39 not in bs:        # the lexer ends the literal at any apostrophe: no text spelling with byte 39
            add("B", spell_bytes_text(bs), "btext:%s" % bcps(bs), "spelling", exp_bytes(bs))
    # arbitrary well-formed text-form byte literals (multi-byte characters keep their low byte)
    for _ in range(20000 if thorough else 3000):
        items, src, den = [], [], []
        for _ in range(rng.choice([1, 1, 2, 3, 5, 9])):
            if rng.random() < 0.65:
                c = rng.choice(WIDE) if rng.random() < 0.7 else chr(rand_scalar(rng))
                if c == "\\" or (not src and c == "'"):
                    continue
                items.append("r%x" % ord(c)); src.append(c); den.append(ord(c) % 256)
            else:
                e = rng.choice("ntr0bq")
                items.append("e" + e); src.append("\\" + BESC_SRC[e]); den.append(BESC_BYTE[e])
        add("B", "'" + "".join(src) + "'", "bitems:%s" % (",".join(items) if items else "-"), "literal", exp_bytes(den))

    # ---- symbols keep their names
    id_alpha = list("abzAZ059_") + ["é", "日", "\U0001d49c", "٣", "ß"]
    names = [s for s in all_strings(id_alpha, 2) if s]
    for _ in range(2000 if thorough else 300):
        names.append("".join(rng.choice(id_alpha) for _ in range(rng.choice([3, 5, 8, 20]))))
    for nm in names:
        add("S", nm, "sym", "spelling", {"name": nm})

    # ---- malformed / arbitrary texts: correspondence only
    num_alpha = list("0123456789") + list("__..abfzAFZ+-e") + ["٣", "é", " "]
    cl_alpha = ['"', '"', "\\", "u", "{", "}", "n", "t", "2", "f", "F", "_", "0", "1", ".", "g", "\n", "\t", "a", "é", "€", "\U0001d11e", "'"]
    bl_alpha = ["'", "'", "\\", "n", "0", "1", "2", "5", "9", " ", " ", "_", "a", "٣", "²", "½", "é", "€", ".", "-"]
    for _ in range(60000 if thorough else 6000):
        add("N", "".join(rng.choice(num_alpha) for _ in range(rng.choice([1, 2, 3, 4, 6, 10]))), "-", "soup", None)
        add("C", "".join(rng.choice(cl_alpha) for _ in range(rng.choice([0, 1, 2, 3, 4, 6, 10, 16]))), "-", "soup", None)
        add("B", "".join(rng.choice(bl_alpha) for _ in range(rng.choice([0, 1, 2, 3, 4, 6, 10, 16]))), "-", "soup", None)
    # \u{...} escapes at and beyond the edges of the scalar-value range (surrogates, > 10FFFF, empty, non-hex,
    # very long): never a value, never a panic
    for h in ["D800", "d800", "DBFF", "DC00", "DFFF", "dfff", "D7FF", "E000", "10FFFF", "110000", "FFFFFF", "FFFFFFFF", "FFFFFFFFF",
              "7FFFFFFF", "80000000", "", "g", "-1", "+41", " 41", "0x41", "41 ", "00000000000000000041", "1_0", "٣"]:
        for q in (1, 3):
            for pre_, post_ in (("", ""), ("x", "y"), ("\\u{d83d}", ""), ("", "\\u{de00}")):
                add("C", '"' * q + pre_ + "\\u{" + h + "}" + post_ + '"' * q, "-", "soup", None)
    # the grammar of str::parse::<f64> (reached through parse_simple_number when the text is not an i32)
    for t in ["nan", "NaN", "inf", "-inf", "+Infinity", "infinit", "1e5", "1E5", "1e+5", "1e-5", "1e", "1e+", ".5", "5.", ".", "+1", "-1",
              "+", "-", "+.5e1", "-0.0", "0e0", "00.100", "1.5e3x", "1..5", "1.5.2", "e5", "1e5.0", "1e999999999999999999999",
              "1e-999999999999999999999", "0e999999999999", "1.7976931348623157e308", "1.7976931348623159e308",
              "2.4703282292062327e-324", "2.4703282292062328e-324", "4.9e-324", "9007199254740993", "9007199254740995",
              "0.1e1_", "1_e5", "1e_5", "12345678901234567890123", "179769313486231580793728971405303415079934132710037826936173778980444968292764750946649017977587207096330286416692887910946555547851940402630657488671505820681908902000708383676273854845817711531764475730270069855571366959622842914819860834936475292719074168444365510704342711559699508093042880177904174497791",
              "179769313486231580793728971405303415079934132710037826936173778980444968292764750946649017977587207096330286416692887910946555547851940402630657488671505820681908902000708383676273854845817711531764475730270069855571366959622842914819860834936475292719074168444365510704342711559699508093042880177904174497792"]:
        add("N", t, "-", "soup", None)
    for _ in range(20000 if thorough else 2000):
        add("N", "".join(rng.choice("0123456789" * 3 + "..eE+-_") for _ in range(rng.choice([2, 3, 4, 5, 7, 9, 24, 40]))), "-", "soup", None)
    return out


def float_cases(tier, seed):
    """random finite non-negative floats; their spellings come from Rust's `{}` / `{:?}` (harness --spell)"""
    rng = vplib.rng_for(seed, "C14-floats")
    import math
    fl = [0.0, 5e-324, 2.2250738585072014e-308, 2.225073858507201e-308, 1.7976931348623157e308, 1.0, 0.1, 0.5, 1.5, 1e21, 1e22, 1e23,
          1e-7, 9007199254740992.0, 9007199254740993.0, 4294967296.0, 2147483647.0, 2147483648.0, 123456.789, 0.3,
          1e300, 1e-300, 3.141592653589793, 2.5, 1e15, 1e16, 1e17, 0.000001, 8.41e21, 2.0**-1074 * 3, 7.0]
    for _ in range(20000 if tier == "thorough" else 1500):
        r = rng.random()
        if r < 0.5:
            fl.append(bits_f("%016x" % rng.randint(0, 0x7fefffffffffffff)))
        elif r < 0.8:
            fl.append(math.ldexp(rng.random(), rng.randint(-60, 70)))
        else:
            fl.append(float(round(rng.random() * 10 ** rng.randint(0, 6), rng.randint(0, 6))))
    return fl


def spell_dyadic(x):
    """the decimal-fraction spelling of Spec/LitDenote.v spell_dyadic for the canonical (mantissa, exponent) of x > 0"""
    bits = struct.unpack("<Q", struct.pack("<d", x))[0]
    E, F = (bits >> 52) & 0x7ff, bits & ((1 << 52) - 1)
    m, e = ((1 << 52) + F, E - 1075) if E else (F, -1074)
    if e >= 0:
        n, k = m * 2**e * 10, 1
    else:
        n, k = m * 5**(-e), -e
    return "%d.%s" % (n // 10**k, str(n % 10**k).rjust(k, "0"))


def float_spelling_cases(fl, sp, cases):
    """the shortest decimal form (`{}`) is the spelling; with `.0` appended when it has no fraction it must
    also keep the Float type; the `{:?}` form (exponent notation for large/small values) is an extra literal
    when it has no minus sign (`1e-7` is three tokens: a literal cannot contain an operator)."""
    bad = []
    for x, (disp, dbg) in zip(fl, sp):
        forms = [(disp, "spelling")]
        if "." not in disp:
            forms.append((disp + ".0", "spelling"))
        if dbg != disp and "-" not in dbg:
            forms.append((dbg, "literal"))
        if x > 0 and (len(cases) % 5 == 0 or x in (5e-324, 1.7976931348623157e308, 0.1, 1.0)):
            forms.append((spell_dyadic(x), "dyad"))      # the (long, exact) spelling the Coq theorem uses
        for text, clause in forms:
            try:
                back = float(text)
            except ValueError:
                back = None
            if back != x:
                bad.append("Rust spelling %r of %r does not denote it (Python float())" % (text, x))
                continue
            if clause == "dyad":
                cases.append(("N %s dyad:%s" % (cps(text), f_bits(x)), "spelling", exp_num_float(x)))
            else:
                cases.append(("N %s flt:%s" % (cps(text), f_bits(x)), clause, expected_decimal_text(text)))
    return bad


# ----------------------------------------------------------------- the check
TRUSTED = vplib.BASE_TRUSTED + [
    "axioms (Print Assumptions): the four standard-library axioms Flocq's real-number development depends on, under C14_float_rounding only; every other theorem is closed under the global context",
    "str::parse::<f64> is modelled (grammar as documented + correctly rounded conversion through Flocq's division core); the theorems about integers, text and bytes hold for every function in its place; Python's correctly rounded float() is the independent oracle",
    "char::is_numeric on non-ASCII characters and symbol_value (SipHash) are oracles whose values are read from the implementation per case",
    "the lexer is not modelled here (C13): whether a spelling lexes as one literal token is observed on the implementation",
    "tools/props/c14.py: independent spelling functions and value oracle",
]
NOT_LITERAL = ("NotLit", "LexErr", "ParseErr")


def split_fields(s):
    d = {}
    for part in s.split(";"):
        k, _, v = part.partition("=")
        d[k] = v
    return d


_EXE = {}


def harness_exe(profile="debug"):
    """a private copy of the harness binary, so that a concurrent rebuild cannot replace it mid-run"""
    if profile not in _EXE:
        _EXE[profile] = vplib.private_copy(vplib.harness_bin("literal", profile))
    return _EXE[profile]


def cleanup():
    for p in _EXE.values():
        try:
            os.remove(p)
        except OSError:
            pass
    _EXE.clear()


def run_pair(case_lines, profile="debug"):
    text = "\n".join(case_lines) + "\n"
    rc, impl = vplib.run_lines([harness_exe(profile)], text, timeout=1200)
    if rc != 0 or len(impl) != len(case_lines):
        return None, None, "literal harness rc=%s lines=%d/%d" % (rc, len(impl), len(case_lines))
    rc, model = vplib.run_lines([vplib.OCAML_BUILD + "/lit_driver"], "\n".join(impl) + "\n", timeout=1800)
    if rc != 0 or len(model) != len(case_lines):
        return impl, None, "lit_driver rc=%s lines=%d/%d %s" % (rc, len(model), len(case_lines), model[-1:] if model else "")
    return impl, model, None


def spell_floats(fl, profile="debug"):
    text = "\n".join("F " + f_bits(x) for x in fl) + "\n"
    rc, lines = vplib.run_lines([harness_exe(profile), "--spell"], text, timeout=300)
    if rc != 0 or len(lines) != len(fl):
        return None
    return [(uncps(l.split("\t")[1]), uncps(l.split("\t")[2])) for l in lines]


def classify(case, clause, field, impl, exp):
    """known-findings classifier: no finding is listed for C14 (the defects found were fixed)."""
    return None


def judge(case, clause, exp, impl_f, oracle):
    """direct property oracle: list of (field, impl value, expected value) that fail, plus skip count"""
    fails, skipped = [], 0
    if exp is None:
        return fails, skipped
    if "name" in exp:
        sym = oracle[4:] if oracle.startswith("sym=") else "?"
        e = "M:%s,sym=%s" % (cps(exp["name"]), sym)
        exp = {"D": e, "S": e, "B": e}
    for f in ("D", "S", "B"):
        got = impl_f.get(f, "?")
        if f != "D" and got.startswith(NOT_LITERAL):
            if clause == "spelling":
                fails.append((f, got, exp[f] + " (the spelling must lex as one literal)"))
            else:
                skipped += 1
            continue
        if got != exp[f]:
            fails.append((f, got, exp[f]))
    return fails, skipped


def run(tier, seed):
    try:
        return run_check(tier, seed)
    finally:
        cleanup()


def run_check(tier, seed):
    v = Verdict(PID, tier, seed)
    v.assumptions = [
        "a literal is a source text that the lexer returns as exactly one token of its kind (C13 owns the lexer)",
        "escape processing in the single-quote char-list form drops raw newlines and tabs (pinned by the implementation's own tests)",
        "a character in a text-form byte list stands for the byte with its code; code points above 255 keep their low byte (`as u8`)",
        "integers are non-negative (a leading minus is an operator, not part of the literal); floats are finite and non-negative",
        "an integer-valued float below 2^31 whose shortest spelling has no fraction (`7`) denotes the same number as an Integer",
    ]
    pr = vplib.prove(PID, ["Proofs/C14"], extra_targets=["Extract/LitExtract.vo"])
    for f in pr["failures"]:
        v.tie_failure("prove: " + f)
    v.coverage.update(vplib.proof_coverage(
        pr, "make -C coq Properties/C14.vo && coqc Properties/C14.v (Print Assumptions) && tools/props/c14.py correspondence", TRUSTED))
    ok, out = vplib.cargo_build("debug", bins=["literal"])
    if not ok:
        v.tie_failure("harness build failed: " + out[-400:])
    okm, outm = vplib.ocaml_build("lit") if pr["ok"] or os.path.exists(vplib.OCAML_BUILD + "/lit_model.ml") else (False, "no extracted model")
    if not okm:
        v.tie_failure("model driver build failed: " + outm[-300:])
    cases = gen_cases(tier, seed)
    stats = {"cases": 0, "spelling": 0, "literal": 0, "soup": 0, "not_a_literal_skipped": 0,
             "model_disagreements": 0, "property_failures": 0, "spec_mismatch": 0, "float_spellings": 0,
             "by_kind": {"N": 0, "C": 0, "B": 0, "S": 0}, "impl_outcomes": {}}
    distinct, samples = set(), []
    if ok:
        fl = float_cases(tier, seed)
        sp = spell_floats(fl)
        if sp is None:
            v.tie_failure("literal --spell failed")
        else:
            bad = float_spelling_cases(fl, sp, cases)
            for b in bad[:3]:
                v.tie_failure(b)
            stats["float_spellings"] = len(fl)
        lines = [c[0] for c in cases]
        impl, model, err = run_pair(lines)
        if err:
            v.tie_failure("correspondence run: " + err)
        listed = {f["id"] for f in vplib.findings_for(PID)}
        for i, line in enumerate(impl or []):
            cols = line.split("\t")
            case, res, oracle = cols[0], cols[1], cols[2] if len(cols) > 2 else "-"
            after = split_fields(cols[3]) if len(cols) > 3 else {}
            _, clause, exp = cases[i]
            kind = case[0]
            stats["cases"] += 1
            if res in ("HANG", "CRASH"):
                # the process hung or died on a one-literal program: a literal that does not evaluate at all
                if exp is not None:
                    v.violation(component="literal", input=case, text=uncps(case.split(" ")[1]), observed_at="D",
                                impl=res, expected=exp.get("D", "a value"), clause=clause,
                                what="evaluating the literal hangs or kills the process")
                else:
                    v.tie_failure("harness: %s -> %s (malformed text; outside the model)" % (case, res))
                continue
            impl_f = split_fields(res)
            lit_panics = [f for f in ("S", "B") if impl_f.get(f, "") == "PANIC"] + [f for f in ("PS", "PB") if after.get(f, "") == "PANIC"]
            if impl_f.get("D") == "PANIC" and not any(impl_f.get(f, "").startswith(NOT_LITERAL) for f in ("S", "B")):
                lit_panics.append("D")
            if lit_panics:
                v.violation(component="literal", input=case, text=uncps(case.split(" ")[1]), observed_at="/".join(lit_panics), impl=res[:300],
                            expected="a value or an error", clause=clause, what="evaluating the literal panics")
                continue
            stats[clause] += 1
            stats["by_kind"][kind] += 1
            cls = impl_f["D"].split(":")[0] if ":" in impl_f["D"] else impl_f["D"]
            stats["impl_outcomes"][kind + "/" + cls] = stats["impl_outcomes"].get(kind + "/" + cls, 0) + 1
            fails, skipped = judge(case, clause, exp, impl_f, oracle)
            # the same literal written after other literals (and a blank line) must denote the same value
            if exp is not None:
                for f, pf in (("S", "PS"), ("B", "PB")):
                    got = after.get(pf, "same")
                    if got != "same" and not impl_f.get(f, "").startswith(NOT_LITERAL) and f not in [x[0] for x in fails]:
                        fails.append((pf, got, impl_f.get(f, "?") + " (its value when it is the whole program)"))
            stats["not_a_literal_skipped"] += skipped
            if exp is not None and not fails:
                distinct.add(case.split(" ")[1])
            if len(samples) < 8 and i % max(1, len(impl) // 8) == 0:
                samples.append({"case": case, "impl": res, "expected": exp})
            for (f, got, want) in fails:
                fid = classify(case, clause, f, got, want)
                if fid and fid in listed:
                    v.known_hit(fid, "%s -> %s=%s (expected %s)" % (case, f, got, want))
                else:
                    stats["property_failures"] += 1
                    v.violation(component="literal", input=case, text=uncps(case.split(" ")[1]), observed_at=f,
                                impl=got, expected=want, clause=clause,
                                what="the literal does not evaluate to what it spells" if f != "D" or True else "")
            if model is not None:
                _, mres, spec = model[i].split("\t")
                model_f = split_fields(mres)
                for f in ("D", "S", "B"):
                    if f != "D" and impl_f.get(f, "").startswith(NOT_LITERAL):
                        continue
                    if model_f.get(f) != impl_f.get(f):
                        stats["model_disagreements"] += 1
                        if stats["model_disagreements"] <= 5:
                            v.tie_failure("correspondence literal: %s %s impl=%s model=%s" % (case, f, impl_f.get(f), model_f.get(f)))
                        break
                if spec == "F64-MODEL-DIFFERS":
                    stats["model_disagreements"] += 1
                    v.tie_failure("correspondence literal: %s: the model's parse_f64 differs from str::parse::<f64> (%s)" % (case, oracle))
                elif spec == "OUT" and exp is not None and (exp["D"] == "Err" or exp["D"].startswith("F:")):
                    pass        # the spec says: the digits' value does not fit an i32
                elif spec == "MISMATCH" or (spec != "-" and exp is not None and "name" not in exp and spec != exp["D"]) \
                        or (spec != "-" and exp is not None and "name" in exp and spec != "M:" + cps(exp["name"])):
                    stats["spec_mismatch"] += 1
                    if stats["spec_mismatch"] <= 3:
                        v.tie_failure("Coq spec (Spec/LitDenote.v) and the Python oracle disagree on %s: spec=%s python=%s" % (
                            case, spec, exp and exp.get("D", exp.get("name"))))
    v.coverage.update({
        "evaluations": stats["cases"] * 3,
        "distinct_nontrivial": len(distinct),
        "rule": "every radix 2..36 x boundary and random non-negative i32 (canonical digits, random `_` placement; arbitrary valid digit "
                "strings with leading zeros / upper case / overflow); decimals and decimal fractions with separators; random finite floats in "
                "Rust's `{}` and `{:?}` spellings; ALL strings up to length 3 over a 17-letter alphabet (ASCII, the escapable characters, both "
                "quotes, braces, 2-/3-/4-byte characters) in 1-, 3-, 4- and 7-quote forms plus random longer ones; random well-formed "
                "char-list and byte-list literals built from raw characters and escapes; every byte vector of length <= 1, a boundary "
                "cross of length 2 (all of them in the thorough tier) and random longer ones in text and numeric forms; symbol names over "
                "ASCII and multi-byte identifier characters; malformed texts (correspondence only). Each case is evaluated by a direct call "
                "of the parsing function and as a one-literal program on both data implementations. A case is non-trivial when it carries "
                "an expected value and all three observations equal it.",
        "samples": samples,
        "histogram": stats,
        "profiles": ["debug"],
    })
    return v.finish("proof")


def replay(obj):
    viol = obj.get("violations", [])
    if not viol:
        print("replay names a broken tie, not an input:", obj.get("no_longer_checks"))
        return run("quick", obj.get("seed", 0))
    ok, out = vplib.cargo_build("debug", bins=["literal"])
    lines = [x["input"] for x in viol]
    impl, model, err = run_pair(lines)
    cleanup()
    rc = 0
    for x, line in zip(viol, impl or []):
        case, res, oracle = (line.split("\t") + ["-", "-"])[:3]
        f = x.get("observed_at", "D")
        got = split_fields(res).get(f)
        want = x.get("expected", "").split(" (")[0]
        status = "ok" if got == want else "FAILS"
        if status == "FAILS":
            rc = 1
        print("%s: %s (%r) %s=%s expected=%s" % (status, case, x.get("text"), f, got, want))
    return rc
