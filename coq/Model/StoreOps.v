(* Operation histories over the two store models: the vocabulary of the C15
   correspondence harness (harness/src/bin/store.rs) and of the C15 theorems.
   A history is a list of [op]; [bstep]/[sstep] run one operation and return
   the new state and the observable result.  A handled error is the result
   [RErr] with the state the Rust code leaves behind; a panic ends the run.
   No proofs in this file. *)
From Coq Require Import NArith ZArith List Bool Arith.
From GV Require Import Base.Result Gen.Instr Model.StoreBase Model.BasicStore Model.SimpleStore.
Import ListNotations.

Inductive op : Type :=
| OInstr (i : instruction) (d : option nat)      (* push_instruction *)
| OJump (n : nat)                                (* push_to_jump_table *)
| OJumpSet (idx v : nat)                         (* *get_from_jump_table_mut(idx)? = v *)
| OSymbol (sym : N) (byte_len : nat) (name : list N)   (* parse_add_symbol *)
| OExprSym (sym : N) (v : nat)                   (* push_to_expression_symbol_block (Basic only) *)
| OCustom                                        (* push_to_custom_data_block / add_custom *)
| OUnit | OTrue | OFalse
| ONumber (n : snum) | OType (t : data_type) | OChar (c : N) | OByte (b : N) | OSym (s : N)
| OExpression (n : nat) | OExternal (n : nat)
| OPair (a b : nat) | OConcat (a b : nat) | ORange (a b : nat) | OSlice (a b : nat) | OPartial (a b : nat)
| OText (byte_len : nat) (chars : list N)        (* add_string / start,add_to,end_char_list *)
| OBytes (l : list N)                            (* add_byte_slice / start,add_to,end_byte_list *)
| OListStart (n : nat) | OListAdd (l i : nat) | OListEnd (l : nat)
| ORegPush (a : nat) | ORegPop
| OValPush (a : nat) | OValPop | OValSet (a : nat)
| OFramePush (n : nat) | OFramePop
| OCursor (n : nat).

Inductive result : Type :=
| RAddr (n : nat)      (* address of a stored value *)
| RHandle (n : nat)    (* list under construction *)
| RIndex (n : nat)     (* index in the instruction / custom table *)
| ROk | RNone | RSome (n : nat) | RErr | RNA.

Definition lift {S A} (f : A -> result) (m : SM S A) (s : S) : res (S * result) :=
  match m s with
  | Ok (s', Done a) => Ok (s', f a)
  | Ok (s', Fail _) => Ok (s', RErr)
  | Err e => Err e
  | Panic p => Panic p
  | OutOfFuel => OutOfFuel
  end.

Definition r_unit (_ : unit) : result := ROk.
Definition r_opt (o : option nat) : result := match o with Some n => RSome n | None => RNone end.
Definition r_flag (b : bool) : result := if b then ROk else RNone.

Definition bstep (o : op) : basic -> res (basic * result) :=
  match o with
  | OInstr i d => lift RIndex (push_to_instruction_block i d)
  | OJump n => lift (fun _ => ROk) (push_to_jump_table_block n)
  | OJumpSet idx v => lift r_flag (set_jump_table idx v)
  | OSymbol sym bl name => lift RAddr (parse_add_symbol sym bl name)
  | OExprSym sym v => lift r_unit (push_to_expression_symbol_block sym v)
  | OCustom => lift RIndex push_to_custom_data_block
  | OUnit => lift RAddr add_unit
  | OTrue => lift RAddr add_true
  | OFalse => lift RAddr add_false
  | ONumber n => lift RAddr (add_number n)
  | OType t => lift RAddr (add_type t)
  | OChar c => lift RAddr (add_char c)
  | OByte b => lift RAddr (add_byte b)
  | OSym x => lift RAddr (add_symbol x)
  | OExpression n => lift RAddr (add_expression n)
  | OExternal n => lift RAddr (add_external n)
  | OPair a b => lift RAddr (add_pair a b)
  | OConcat a b => lift RAddr (add_concatenation a b)
  | ORange a b => lift RAddr (add_range a b)
  | OSlice a b => lift RAddr (add_slice a b)
  | OPartial a b => lift RAddr (add_partial a b)
  | OText bl cs => lift RAddr (add_string bl cs)
  | OBytes l => lift RAddr (add_byte_slice l)
  | OListStart n => lift RHandle (start_list n)
  | OListAdd l i => lift RHandle (add_to_list l i)
  | OListEnd l => lift RAddr (end_list l)
  | ORegPush a => lift r_unit (push_register a)
  | ORegPop => lift r_opt pop_register
  | OValPush a => lift r_unit (push_value_stack a)
  | OValPop => lift r_opt pop_value_stack
  | OValSet a => lift r_flag (set_current_value a)
  | OFramePush n => lift r_unit (push_frame n)
  | OFramePop => lift r_opt pop_frame
  | OCursor n => fun s => Ok (set_ip s n, ROk)
  end.

Section WithHash.
Variable h : sdata -> N.

Definition sstep (o : op) : simple -> res (simple * result) :=
  match o with
  | OInstr i d => lift RIndex (s_push_instruction i d)
  | OJump n => lift r_unit (s_push_to_jump_table n)
  | OJumpSet idx v => lift r_flag (s_set_jump_table idx v)
  | OSymbol sym _ name => lift RAddr (s_parse_add_symbol h sym name)
  | OExprSym _ _ => fun s => Ok (s, RNA)
  | OCustom => lift RAddr s_add_custom
  | OUnit => lift RAddr s_add_unit
  | OTrue => lift RAddr s_add_true
  | OFalse => lift RAddr s_add_false
  | ONumber n => lift RAddr (s_add_number h n)
  | OType t => lift RAddr (s_add_type h t)
  | OChar c => lift RAddr (s_add_char h c)
  | OByte b => lift RAddr (s_add_byte h b)
  | OSym x => lift RAddr (s_add_symbol h x)
  | OExpression n => lift RAddr (s_add_expression h n)
  | OExternal n => lift RAddr (s_add_external h n)
  | OPair a b => lift RAddr (s_add_pair a b)
  | OConcat a b => lift RAddr (s_add_concatenation a b)
  | ORange a b => lift RAddr (s_add_range a b)
  | OSlice a b => lift RAddr (s_add_slice a b)
  | OPartial a b => lift RAddr (s_add_partial a b)
  | OText _ cs =>
      lift RAddr (sdo _ <- s_start_char_list ;
                  sdo _ <- sfor cs s_add_to_char_list ;
                  s_end_char_list h)
  | OBytes l =>
      lift RAddr (sdo _ <- s_start_byte_list ;
                  sdo _ <- sfor l s_add_to_byte_list ;
                  s_end_byte_list h)
  | OListStart n => lift RHandle (s_start_list n)
  | OListAdd l i => lift RHandle (s_add_to_list l i)
  | OListEnd l => lift RAddr (s_end_list l)
  | ORegPush a => lift r_unit (s_push_register a)
  | ORegPop => lift r_opt s_pop_register
  | OValPush a => lift r_unit (s_push_value_stack a)
  | OValPop => lift r_opt s_pop_value_stack
  | OValSet a => lift r_flag (s_set_current_value a)
  | OFramePush n => lift r_unit (s_push_frame n)
  | OFramePop => lift r_opt s_pop_frame
  | OCursor n => lift r_unit (s_set_instruction_cursor n)
  end.
End WithHash.

(* a whole history: the state after the last operation and every result;
   [Panic] / [OutOfFuel] of any step is the outcome of the run *)
Fixpoint run {S} (step : op -> S -> res (S * result)) (ops : list op) (s : S) : res (S * list result) :=
  match ops with
  | [] => Ok (s, [])
  | o :: rest =>
      do sr <- step o s ;
      do tl <- run step rest (fst sr) ;
      Ok (fst tl, snd sr :: snd tl)
  end.
