#!/usr/bin/env python3
"""Run the checks against a seeded change:  seedtest.py <seed dir> [<property id> ...]
Applies <seed dir>/patch.diff to /repo (git apply), runs the quick check of the seed's
property (and of any further ids given), writes <seed dir>/result.json, and undoes the
change straight afterwards (git apply -R) and regenerates the Gen tables."""
import json, os, subprocess, sys, time
ISO = "--iso" in sys.argv
if ISO:
    sys.argv.remove("--iso")
TAG = os.environ.get("ISO_TAG", "")
VERIF = ("/tmp/verif_iso" + TAG) if ISO else "/verif"
REPO = ("/tmp/iso_repo" + TAG) if ISO else "/repo"
d = os.path.abspath(sys.argv[1])
meta = json.load(open(os.path.join(d, "meta.json")))
pids = sys.argv[2:] or [meta["property"]]
patch = os.path.join(d, "patch.diff")


def sh(cmd, **kw):
    return subprocess.run(cmd, shell=True, stdout=subprocess.PIPE, stderr=subprocess.STDOUT, text=True, **kw)


dirty = sh("git -C %s status --porcelain --untracked-files=no" % REPO).stdout.strip()
if dirty:
    print("refusing: %s has uncommitted changes:\n" % REPO + dirty)
    sys.exit(2)
r = sh("git -C %s apply --check %s" % (REPO, patch))
if r.returncode != 0:
    print("patch does not apply:", r.stdout)
    sys.exit(2)
sh("git -C %s apply %s" % (REPO, patch))
results = {}
try:
    for pid in pids:
        t0 = time.time()
        r = sh("cd %s && timeout 3000 python3 tools/vp.py check %s" % (VERIF, pid))
        lines = [l for l in r.stdout.splitlines() if l.startswith(("OK", "VIOLATION", "KNOWN-FINDING"))]
        detected = any(l.startswith("VIOLATION") for l in lines)
        replay = None
        for l in lines:
            if l.startswith("VIOLATION") and "replay=" in l:
                replay = l.split("replay=")[1].split()[0]
        results[pid] = {"exit": r.returncode, "detected": detected, "lines": [l[:300] for l in lines], "wall_s": round(time.time() - t0, 1),
                        "no_failing_input_found": any("no-failing-input-found" in l for l in lines)}
        if replay and os.path.exists(replay):
            obj = json.load(open(replay))
            results[pid]["replay_file"] = replay
            results[pid]["replay_summary"] = {"kind": obj.get("kind"), "first": (obj.get("violations") or obj.get("no_longer_checks") or [None])[0]}
        print(pid, "DETECTED" if detected else "MISSED", lines[-1][:200] if lines else r.stdout[-300:])
finally:
    sh("git -C %s apply -R %s" % (REPO, patch))
    sh("cd %s && python3 tools/sync_tables.py" % VERIF)
json.dump({"checked_at_repo_head": sh("git -C %s rev-parse --short HEAD" % REPO).stdout.strip(), "results": results},
          open(os.path.join(d, "result.json"), "w"), indent=1)
