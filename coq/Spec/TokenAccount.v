(* C04, "accounts for every token": what the node array of an accepted parse says about
   the tokens, independent of how the nodes are linked.  Definitions only. *)
From Coq Require Import List Arith Bool NArith.
From GV Require Import Base.Result Gen.TokenTypes Gen.Defs Model.Parser.
Import ListNotations.

(* what a node records about its origin *)
Definition label : Type := (definition * secondary * option nat)%type.
Definition label_of (n : pnode) : label := (n_def n, n_sec n, n_tok n).
Definition labels (ns : list pnode) : list label := map label_of ns.

(* the implicit space-list node is the only node not made from a token of its own *)
Definition is_implicit (l : label) : bool := definition_eqb (fst (fst l)) D_List.

(* token indices of the nodes made from a token, in node order *)
Definition real_toks (ls : list label) : list nat :=
  flat_map (fun l => if is_implicit l then [] else match snd l with Some k => [k] | None => [] end) ls.

(* tokens that never get a node: closing brackets, whitespace, annotations (their
   definition is Drop); a separator (`;` / blank line) may be dropped or kept *)
Definition never_a_node (t : token_type) : bool := definition_eqb (fst (get_definition t)) D_Drop.
Definition maybe_dropped (t : token_type) : bool := secondary_eqb (snd (get_definition t)) S_Subexpression.

(* the label a token's own node carries: its table definition (an identifier that is the
   right operand of `.` is stored as Property) and its secondary class *)
Definition label_matches (t : token_type) (k : nat) (l : label) : Prop :=
  snd l = Some k /\ snd (fst l) = snd (get_definition t) /\
  (fst (fst l) = fst (get_definition t) \/
   (fst (fst l) = D_Property /\ fst (get_definition t) = D_Identifier)).

Fixpoint increasing (l : list nat) : Prop :=
  match l with
  | [] => True
  | a :: r => (forall b, In b r -> a < b) /\ increasing r
  end.

(* the labels the main loop appends for the tokens [toks] numbered from [i]; [lt] is the
   index of the token before them (the implicit list node carries that index) *)
Fixpoint accounted (i : nat) (toks : list token_type) (lt : option nat) (added : list label) : Prop :=
  match toks with
  | [] => added = []
  | t :: r =>
    exists pre post rest,
      added = pre ++ post ++ rest /\
      (pre = [] \/ pre = [(D_List, S_StartGrouping, lt)]) /\
      ((post = [] /\ (never_a_node t = true \/ maybe_dropped t = true)) \/
       (exists l, post = [l] /\ label_matches t i l /\ never_a_node t = false)) /\
      accounted (S i) r (Some i) rest
  end.
