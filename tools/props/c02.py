"""C02 Precedence, associativity and grouping follow the operator table."""
import collections, itertools, os, re
import vplib
from vplib import Verdict
from props import pipefmt, pipecheck, gen_programs

PID = "C02"
MANIFEST_ENTRY = {
 "level_claimed": {"category": "proof", "text": "Theorems in coq/Properties/C02.v: (a) the priority map, definitions and associativity classes the translator extracts from the current parser.rs (coq/Gen/Defs.v, regenerated every run) order every pair of definitions exactly as the hand-pinned reference table Spec/RefTable.v does and classify every token type the same way (finite, vm_compute); (b) for every expression with at most three operators (all binary operators incl. conditional and apply forms, prefix, suffix, comma, the implicit space list) around atomic operands, with and without whitespace around binary operators, and for both bracketings of every ordered operator pair, the transliterated parser returns exactly the tree that an independent precedence-climbing reference parser over the pinned table builds (vm_compute enumeration over >100,000 expressions, bound = the property's own quantifier, in the theorem name). (c) UNBOUNDED, by induction (no enumeration): C02_full proves the full statement C02_full_statement -- for EVERY token list, whenever the independent precedence-climbing reference parser over the pinned table is defined on it, parse accepts and returns exactly the reference tree (token positions included); no bound on length, number of operators or bracket depth. The reference is defined exactly on the operator expressions of C02_operator_expressions (operand = prefix operators, then a value or a bracketed expression -- round brackets ( ) or nested-expression brackets { }, properly matched, nested to any depth; the tree records the kind -- then suffix operators; the expression separator `;` is the loosest binary operator at top level and directly inside { } (not inside round brackets, not leading / trailing / doubled); operands joined by any of the 38 binary operator tokens -- no operator excluded: arithmetic, comparison, logic, right-to-left pair, comma, conditional forms, access, apply forms -- or, across whitespace, by the implicit space list; whitespace allowed anywhere, also leading/trailing), so: tighter nests below looser, equal rank groups left-to-right except pair and the prefix operators, brackets override both, the implicit list sits at its table position and is not created around a spaced binary operator; C02_binary_chains is the special case v0 o1 v1 ... on vn. Proof: the parser state is a stack of right-spine frames (Proofs/C02/Invariant.v, Steps.v, Unfold.v, StepsGen.v, OpExpr.v: the parent-chain walk of parse_token pops exactly the frames the table says and stops at the innermost open bracket, within its fuel and count guard), find_root / validate_tree / tree_of succeed on the resulting tree (Denote.v, Validate.v), spine insertion equals precedence climbing (Spine.v), and a successful climb only consumes well-formed expressions, with trimmed whitespace shifting token indices (Full.v). Outside the unbounded theorem (reference undefined there): side effects [ ], blank-line separators, `;` inside round brackets or leading / trailing / doubled, annotations, empty or mismatched brackets -- for these the <=3-operator enumeration (b) and the differential runs are the evidence. The parser model is tied to parser.rs by node-for-node comparison on the same expressions and on generated deeper programs on every run, and the real parse trees are compared with the reference tree directly.", "design_ref": "DESIGN.md section 8 C02"},
 "level_note": "Trusted: Coq kernel (vm_compute), translator tools/sync/defs.py, the pinned table Spec/RefTable.v (taken from the code and the property text; docs/src/precedence.md differs in three documented places), extraction, harness. No axioms.",
 "technique": "Coq proof (vm_compute finite enumeration against a pinned reference Pratt parser) + regenerated tables + differential correspondence"}
TRUSTED = vplib.BASE_TRUSTED + ["coq/Spec/RefTable.v: the pinned operator table (by hand)", "tools/sync/defs.py"]


def ref_kinds(names):
    txt = open(os.path.join(vplib.COQ, "Spec", "RefTable.v")).read()
    body = txt.split("Definition ref_kind")[1].split("end.")[0]
    return {names[0].index(t): k for t, k in re.findall(r"\| TT_(\w+) => (K\w+)", body)}


def render(ops, kinds, num, ws, spaced):
    out, have = [], False
    for o in ops:
        k = kinds[o]
        if k == "KPrefix":
            if have:
                return None
            out.append(o)
        elif k == "KSuffix":
            if not have:
                out.append(num)
            out.append(o)
            have = True
        elif k == "KBinary":
            if not have:
                out.append(num)
            out += [ws, o, ws] if spaced else [o]
            have = False
        elif k == "KSpace":
            if not have:
                out.append(num)
            out.append(ws)
            have = False
        else:
            return None
    if not have:
        out.append(num)
    return out


def impl_tree(parsed, defs, secs, off=0):
    """canonical text of the implementation's parse tree (same format as pipe_driver's tree=)"""
    nodes = parsed["nodes"]
    D = {n: i for i, n in enumerate(defs)}

    def go(i, depth=0):
        if i is None or depth > 4 * len(nodes) + 4 or not (0 <= i < len(nodes)):
            return None
        n = nodes[i]
        sec = secs[n["sec"]]
        tok = (n["tok"] if n["tok"] is not None else 0)
        d = n["def"]
        if sec in ("Value", "Identifier"):
            if n["left"] is None and n["right"] is None:
                dd = D["Identifier"] if defs[d] == "Property" else d
                return "A%d.%d" % (dd, tok)
            return None
        if sec == "UnaryPrefix":
            a = go(n["right"], depth + 1)
            return None if (a is None or n["left"] is not None) else "P%d.%d(%s)" % (d, tok, a)
        if sec == "UnarySuffix":
            a = go(n["left"], depth + 1)
            return None if (a is None or n["right"] is not None) else "S%d.%d(%s)" % (d, tok, a)
        if sec == "StartGrouping":
            if defs[d] == "List":
                l, r = go(n["left"], depth + 1), go(n["right"], depth + 1)
                return None if (l is None or r is None) else "B%d.-(%s,%s)" % (d, l, r)
            if defs[d] == "Group":
                a = go(n["right"], depth + 1)
                return None if (a is None or n["left"] is not None) else "G%d(%s)" % (tok, a)
            if defs[d] == "NestedExpression":
                a = go(n["right"], depth + 1)
                return None if (a is None or n["left"] is not None) else "N%d(%s)" % (tok, a)
            return None
        if sec in ("BinaryLeftToRight", "BinaryRightToLeft", "OptionalBinaryLeftToRight", "Subexpression"):
            l, r = go(n["left"], depth + 1), go(n["right"], depth + 1)
            return None if (l is None or r is None) else "B%d.%d(%s,%s)" % (d, tok, l, r)
        return None
    return go(parsed["root"])


def corpus(tier, seed, names):
    tts = names[0]
    kinds = ref_kinds(names)
    ops = [i for i, k in sorted(kinds.items()) if k in ("KBinary", "KPrefix", "KSuffix")] + [tts.index("Whitespace")]
    num, ws = tts.index("Number"), tts.index("Whitespace")
    L, R = tts.index("StartGroup"), tts.index("EndGroup")
    rng = vplib.rng_for(seed, "C02")
    streams = []
    shapes = []
    for n in (1, 2, 3):
        for seq in itertools.product(ops, repeat=n):
            for spaced in (False, True):
                r = render(seq, kinds, num, ws, spaced)
                if r is not None:
                    shapes.append("T " + " ".join(map(str, r)))
    if tier != "thorough":
        # every single operator and ordered pair exhaustively, a seeded sample of the triples
        small = [s for s in shapes if len(s.split()) <= 8]
        rest = [s for s in shapes if len(s.split()) > 8]
        shapes = small + rng.sample(rest, min(len(rest), 120000))
    streams.append(("operators_upto3", shapes))
    grouped = []
    for o1 in ops:
        for o2 in ops:
            k1, k2 = kinds[o1], kinds[o2]
            a = num
            v = {("KBinary", "KBinary"): [[L, a, o1, a, R, o2, a], [a, o1, L, a, o2, a, R]],
                 ("KPrefix", "KBinary"): [[o1, L, a, o2, a, R], [L, o1, a, R, o2, a]],
                 ("KBinary", "KSuffix"): [[L, a, o1, a, R, o2], [a, o1, L, a, o2, R]],
                 ("KPrefix", "KSuffix"): [[o1, L, a, o2, R], [L, o1, a, R, o2]],
                 ("KBinary", "KPrefix"): [[a, o1, L, o2, a, R]],
                 ("KSuffix", "KBinary"): [[L, a, o1, R, o2, a]]}.get((k1, k2), [])
            grouped += ["T " + " ".join(map(str, t)) for t in v]
    streams.append(("bracketed_pairs", grouped))
    deeper = []
    for _ in range(60000 if tier == "thorough" else 8000):
        n = rng.randint(4, 9)
        seq = [rng.choice(ops) for _ in range(n)]
        r = render(seq, kinds, num, ws, rng.random() < 0.5)
        if r is not None:
            deeper.append("T " + " ".join(map(str, r)))
    streams.append(("deeper_4_9_operators", deeper))
    # random operator expressions with nested round and curly brackets, space lists whose items carry prefix and
    # suffix operators, tight and spaced binary operators: the whole domain of the reference parser
    pre = [i for i, k in sorted(kinds.items()) if k == "KPrefix"]
    suf = [i for i, k in sorted(kinds.items()) if k == "KSuffix"]
    bins = [i for i, k in sorted(kinds.items()) if k == "KBinary"]
    vals = [num, tts.index("Identifier")]
    LC, RC = tts.index("StartExpression"), tts.index("EndExpression")

    def operand(d):
        out = [rng.choice(pre) for _ in range(rng.choice([0, 0, 0, 1, 1, 2]))]
        k = rng.random()
        if d > 0 and k < 0.35:
            l, r = (L, R) if rng.random() < 0.7 else (LC, RC)
            inner = expr(d - 1)
            if rng.random() < 0.2:
                inner = [ws] + inner + [ws]
            out += [l] + inner + [r]
        else:
            out.append(rng.choice(vals))
        out += [rng.choice(suf) for _ in range(rng.choice([0, 0, 0, 1, 1, 2]))]
        return out

    def expr(d):
        out = operand(d)
        for _ in range(rng.choice([0, 1, 1, 2, 3])):
            k = rng.random()
            if k < 0.35:
                out += [ws]                      # the implicit list
            elif k < 0.7:
                out += [rng.choice(bins)]
            else:
                out += [ws, rng.choice(bins), ws]
            out += operand(d)
        return out
    nested = []
    for _ in range(60000 if tier == "thorough" else 12000):
        e = expr(rng.choice([1, 2, 2, 3]))
        if len(e) <= 40:
            nested.append("T " + " ".join(map(str, e)))
    streams.append(("nested_operator_expressions", nested))
    progs = [gen_programs.program(rng, 4) for _ in range(40000 if tier == "thorough" else 8000)]
    streams.append(("programs", ["S " + gen_programs.hexcp(p) for p in progs]))
    return streams


def run(tier, seed):
    v = Verdict(PID, tier, seed)
    v.assumptions = ["the reference table is the pinned Spec/RefTable.v (code + property text; docs/src/precedence.md differs for prefix/suffix/infix apply vs ranges, the direction of `=`, and `<~`)",
                     "fragment of the reference parser: values, prefix/suffix/binary operators, comma with both operands, implicit space list, parentheses, whitespace"]
    sy = vplib.sync(["tokentypes", "defs", "instr"])
    for k, e in sy["errors"].items():
        v.tie_failure("sync %s: %s" % (k, e))
    pr = vplib.prove(PID, ["Proofs/C02", "Spec/Pratt.v"], extra_targets=["Extract/PipeExtract.vo"])
    for f in pr["failures"]:
        v.tie_failure("prove: " + f)
    v.coverage.update(vplib.proof_coverage(pr, "make -C coq Properties/C02.vo Extract/PipeExtract.vo; coqc Properties/C02.v; tools/props/c02.py", TRUSTED))
    v.coverage["tables_regenerated"] = sy["changed"]
    names = pipefmt.load_names()
    tts, defs, secs, ins = names
    exe, drv = pipecheck.build_runners(v)
    stats = collections.Counter()
    samples, evaluations, distinct = [], 0, set()
    if exe and drv:
        broken = bool(v.tie_failures)
        for sname, cases in corpus("thorough" if (broken and tier == "quick") else tier, seed, names):
            impl, model, err = pipecheck.run(exe, drv, cases)
            if err:
                v.tie_failure("correspondence run (%s): %s" % (sname, err))
            if impl is None or model is None:
                continue
            evaluations += len(impl)
            ndiff = 0
            for i, line in enumerate(impl):
                case, res, orc = line.split("\t")
                mcase, mres, spec = model[i].split("\t")
                p = pipefmt.parse_result(res)
                if p.get("class") != "ok":
                    stats[sname + ":" + str(p.get("class"))] += 1
                    continue
                if not pipecheck.same_modulo_literals(res, mres):
                    ndiff += 1
                    if ndiff <= 3:
                        v.tie_failure("correspondence %s: %s impl=%s model=%s" % (sname, pipecheck.describe(case, names), res[:200], mres[:200]))
                if spec.startswith("tree="):
                    want = spec[5:]
                    stats[sname + ":in_fragment"] += 1
                    distinct.add(case)
                    if "nodes" not in p:
                        v.violation(component="parse", stream=sname, input=case, readable=pipecheck.describe(case, names),
                                    impl=res[:200], expected=want, what="parse rejects an expression the operator table gives a tree for")
                        continue
                    off = 0
                    got = impl_tree(p, defs, secs, off)
                    if got != want:
                        v.violation(component="parse", stream=sname, input=case, readable=pipecheck.describe(case, names),
                                    impl=got, expected=want, raw=res[:300],
                                    what="parse tree differs from the tree the operator table dictates")
                    if len(samples) < 6 and stats[sname + ":in_fragment"] == 777:
                        samples.append({"stream": sname, "case": pipecheck.describe(case, names), "tree": want})
                else:
                    stats[sname + ":outside_fragment"] += 1
            stats[sname + ":model_disagreements"] += ndiff
    pipecheck.cleanup(exe, drv)
    v.coverage.update({
        "evaluations": evaluations, "distinct_nontrivial": len(distinct),
        "rule": "operator sequences of length 1..3 over every prefix / suffix / binary operator token and the implicit list, rendered around atomic "
                "operands without and with whitespace (all of length <= 2 and a seeded sample of length 3 in the quick tier, all in thorough); both "
                "bracketings of every ordered operator pair; random sequences of 4-9 operators; grammar-generated programs; non-trivial = the "
                "reference parser gives a tree for the token list (in fragment)",
        "samples": samples, "histogram": dict(stats)})
    return v.finish("proof")


def replay(obj):
    names = pipefmt.load_names()
    tts, defs, secs, ins = names
    v = Verdict(PID, "quick", obj.get("seed", 0))
    exe, drv = pipecheck.build_runners(v)
    cases = [x["input"] for x in obj.get("violations", []) if x.get("input", "").startswith(("T ", "S "))]
    if not cases:
        print("replay names a broken tie, not an input:", obj.get("no_longer_checks"))
        return run("quick", obj.get("seed", 0))
    impl, model, err = pipecheck.run(exe, drv, cases)
    rc = 0
    for line, m in zip(impl or [], model or []):
        case, res, orc = line.split("\t")
        spec = m.split("\t")[2]
        p = pipefmt.parse_result(res)
        got = impl_tree(p, defs, secs) if "nodes" in p else None
        bad = spec.startswith("tree=") and got != spec[5:]
        rc |= 1 if bad else 0
        print("%s: %s impl=%s table=%s" % ("FAILS" if bad else "ok", pipecheck.describe(case, names), got, spec))
    pipecheck.cleanup(exe, drv)
    return rc
