(* C19 proofs, part 10 (additional, bounded): on EVERY data block of at most 4 cells over the cell kinds
   {number, pair, RegisterRoot, ValueRoot} whose addresses point below the cell, with every choice of
   register head, value head, retention count 0..2 and extra root, the model's optimize SUCCEEDS and the
   executable read-back of the root, of both heads and of the retained prefix is unchanged.
   This is a finite statement proved by vm_compute; it complements the unbounded conditional theorems
   (which do not say that the call succeeds) and never replaces them. *)
From Coq Require Import NArith ZArith List Bool Arith Lia.
From GV Require Import Base.Result Model.Optimize Spec.HeapIso.
Import ListNotations.

Definition numrep_eqb (a b : numrep) : bool :=
  match a, b with
  | NInt x, NInt y => Z.eqb x y
  | NFloat x, NFloat y => N.eqb x y
  | _, _ => false
  end.

(* equality on the cell kinds that occur as labels in this file's blocks; [false] elsewhere *)
Definition cell_eqb (a b : cell) : bool :=
  match a, b with
  | CNumber x, CNumber y => numrep_eqb x y
  | CPair a1 a2, CPair b1 b2 => Nat.eqb a1 b1 && Nat.eqb a2 b2
  | CRegisterRoot x, CRegisterRoot y => Nat.eqb x y
  | CValueRoot x, CValueRoot y => Nat.eqb x y
  | _, _ => false
  end.

Fixpoint tree_eqb (a b : tree) : bool :=
  match a, b with
  | TNode la ka, TNode lb kb =>
      cell_eqb la lb &&
      (fix go (x y : list tree) : bool :=
         match x, y with
         | [], [] => true
         | t :: x', u :: y' => tree_eqb t u && go x' y'
         | _, _ => false
         end) ka kb
  end.

Definition opt_tree_eqb (a b : option tree) : bool :=
  match a, b with Some x, Some y => tree_eqb x y | _, _ => false end.

Fixpoint cells_eqb (x y : list cell) : bool :=
  match x, y with
  | [], [] => true
  | a :: x', b :: y' => cell_eqb a b && cells_eqb x' y'
  | _, _ => false
  end.

Definition cells_at (i : nat) : list cell :=
  CNumber (NInt 1) ::
  flat_map (fun a => map (fun b => CPair a b) (seq 0 i)) (seq 0 i) ++
  map CRegisterRoot (seq 0 i) ++ map CValueRoot (seq 0 i).

Fixpoint blocks_from (i n : nat) : list (list cell) :=
  match n with
  | O => [[]]
  | S n' => flat_map (fun c => map (cons c) (blocks_from (S i) n')) (cells_at i)
  end.

Definition blocks (n : nat) : list (list cell) := blocks_from 0 n.

Definition heads_of (p : cell -> bool) (h : list cell) : list (option nat) :=
  None :: map Some (filter (fun i => match nth_error h i with Some c => p c | None => false end) (seq 0 (length h))).

Definition is_rr (c : cell) : bool := match c with CRegisterRoot _ => true | _ => false end.
Definition is_vr (c : cell) : bool := match c with CValueRoot _ => true | _ => false end.

Definition head_ok (h : list cell) (o : option nat) (h' : list cell) (o' : option nat) : bool :=
  match o, o' with
  | None, None => true
  | Some a, Some a' => opt_tree_eqb (read_any h a) (read_any h' a')
  | _, _ => false
  end.

Definition check1 (h : list cell) (ret : nat) (hr hv : option nat) (root : nat) : bool :=
  let s := mkStore h 10 40 (Fixed 10) None ret hv hr None [] in
  match optimize s [root] with
  | Ok (s', [m]) =>
      opt_tree_eqb (read_any h root) (read_any (cells s') m) &&
      head_ok h hr (cells s') (cur_register s') &&
      head_ok h hv (cells s') (cur_value s') &&
      cells_eqb (firstn ret h) (firstn ret (cells s')) &&
      Nat.eqb (retention s') ret
  | _ => false
  end.

Definition check_block (h : list cell) : bool :=
  forallb (fun ret =>
    forallb (fun hr =>
      forallb (fun hv =>
        forallb (fun root => check1 h ret hr hv root) (seq 0 (length h)))
      (heads_of is_vr h))
    (heads_of is_rr h))
  (filter (fun r => r <=? length h) [0; 1; 2]).

Lemma all_blocks_checked : forallb (fun n => forallb check_block (blocks n)) [1; 2; 3; 4] = true.
Proof. vm_compute. reflexivity. Qed.

Theorem optimize_succeeds_bounded_4 : forall n h ret hr hv root,
  In n [1; 2; 3; 4] -> In h (blocks n) ->
  In ret [0; 1; 2] -> ret <= length h -> In hr (heads_of is_rr h) -> In hv (heads_of is_vr h) -> root < length h ->
  check1 h ret hr hv root = true.
Proof.
  intros n h ret hr hv root Hn Hh Hret Hle Hhr Hhv Hroot.
  pose proof all_blocks_checked as H. rewrite forallb_forall in H. specialize (H n Hn).
  rewrite forallb_forall in H. specialize (H h Hh). unfold check_block in H.
  rewrite forallb_forall in H. specialize (H ret).
  assert (Hin : In ret (filter (fun r => r <=? length h) [0; 1; 2])).
  { apply filter_In. split; auto. apply Nat.leb_le. exact Hle. }
  specialize (H Hin). rewrite forallb_forall in H. specialize (H hr Hhr).
  rewrite forallb_forall in H. specialize (H hv Hhv).
  rewrite forallb_forall in H. apply H. apply in_seq. lia.
Qed.

Lemma blocks_count : map (fun n => length (blocks n)) [1; 2; 3; 4] = [1; 4; 36; 576].
Proof. vm_compute. reflexivity. Qed.
