(* C07: the recursive renderers (Simple add_to_current_char_list; Basic
   convert_with_delegate / convert_basic_data_at_to_bytes since 57d5bbf) never
   recurse deeper than their depth bound, whatever the nesting of the value;
   without the bound the recursion depth is the height of the value. *)
From Coq Require Import Arith List Lia.
From GV Require Import Model.RuntimeIndex.

Lemma render_depth_bound : forall max t depth, (depth <= max)%nat -> (render_depth max depth t <= max)%nat.
Proof.
  intros max t. induction t as [| l IHl r IHr]; intros depth H; cbn [render_depth];
    destruct (Nat.leb max depth) eqn:E; try lia.
  apply Nat.leb_gt in E. apply Nat.max_lub; [apply IHl | apply IHr]; lia.
Qed.

(* for EVERY value tree, however deep *)
Theorem conversion_depth_bounded : forall max t, (render_depth max 0 t <= max)%nat.
Proof. intros. apply render_depth_bound. lia. Qed.

(* the bound is what limits it: below the bound a left spine of height n is entered n deep *)
Lemma render_depth_unbounded : forall max n depth,
  (n + depth < max)%nat -> render_depth max depth (left_spine n) = (n + depth)%nat.
Proof.
  intros max. induction n as [| k IH]; intros depth H; cbn [left_spine render_depth].
  - destruct (Nat.leb max depth) eqn:E; [apply Nat.leb_le in E; lia | reflexivity].
  - destruct (Nat.leb max depth) eqn:E; [apply Nat.leb_le in E; lia|].
    rewrite IH by lia.
    destruct (Nat.leb max (S depth)) eqn:E2; [apply Nat.leb_le in E2; lia|]. lia.
Qed.

Example deep_value_is_cut_off : render_depth 1000 0 (left_spine 4000) = 1000%nat.
Proof.
  assert (H : forall n depth, (depth <= 1000)%nat -> (1000 <= n + depth)%nat ->
              render_depth 1000 depth (left_spine n) = 1000%nat).
  { induction n as [| k IH]; intros depth H1 H2; cbn [left_spine render_depth].
    - assert (depth = 1000)%nat by lia. subst. reflexivity.
    - destruct (Nat.leb 1000 depth) eqn:E.
      + apply Nat.leb_le in E. lia.
      + apply Nat.leb_gt in E. rewrite IH by lia.
        destruct (Nat.leb 1000 (S depth)); lia. }
  apply H; lia.
Qed.
