(* The stages of C01 as decidable fragments of the AST, each included in the
   fragment of Proofs/C01/Fragment.v; the known-finding classes; the relation
   "equal up to the names of expression values" used by the full statement. *)
From Coq Require Import ZArith NArith List Bool Arith.
From GV Require Import Base.Host Gen.Instr Model.Num Model.Value Spec.Ast Proofs.C01.Fragment.
Import ListNotations.

Definition is_arith (o : binop) : bool :=
  match o with
  | BAdd | BSub | BMul | BDiv | BIntDiv | BPow | BRem
  | BBitAnd | BBitOr | BBitXor | BShl | BShr | BLt | BLe | BGt | BGe => true
  | _ => false
  end.

(* stage 1: literals, `$`, groups, unary / binary arithmetic, bitwise, comparison *)
Fixpoint stage1 (e : expr) : bool :=
  match e with
  | ELit _ | EValue => true
  | EGroup x => stage1 x
  | EUn (UAbs | UNeg | UBitNot) x => stage1 x
  | EBin o l r => is_arith o && stage1 l && stage1 r
  | _ => false
  end.

(* stage 2: + identifiers, equality, `^^ !! ??`, pairs, access and internal
   accessors, lists, sub-expression sequences, side-effect blocks *)
Fixpoint stage2 (e : expr) : bool :=
  match e with
  | ELit _ | EValue | EIdent _ => true
  | EGroup x => stage2 x
  | EUn o x => un_supported o && stage2 x
  | EBin o l r => bin_supported o && stage2 l && stage2 r
  | EList _ l r | ESeq _ l r | ESide l r => stage2 l && stage2 r
  | _ => false
  end.

Lemma stage1_frag : forall e, stage1 e = true ->
  frag3 e = true /\ shape_ok e = true /\ (forall b, seq_ok b e = true).
Proof.
  induction e; cbn; intros H; try discriminate; auto.
  - destruct o; try discriminate; destruct (IHe H) as (A & B & C); rewrite A, B; repeat split; auto.
  - apply andb_prop in H. destruct H as [H H2]. apply andb_prop in H. destruct H as [H0 H1].
    destruct (IHe1 H1) as (A1 & B1 & C1). destruct (IHe2 H2) as (A2 & B2 & C2).
    rewrite A1, A2, B1, B2, (C1 false), (C2 false).
    destruct o; try discriminate; repeat split; auto.
  - destruct (IHe H) as (A & B & C). repeat split; auto.
Qed.

Lemma stage2_frag : forall e, stage2 e = true -> frag3 e = true.
Proof.
  induction e; cbn; intros H; try discriminate; auto;
    try (apply andb_prop in H; destruct H as [H H2]; try (apply andb_prop in H; destruct H as [H0 H1]));
    try rewrite IHe1 by assumption; try rewrite IHe2 by assumption; try rewrite IHe by assumption; auto.
  - rewrite H. reflexivity.
  - rewrite H0. reflexivity.
Qed.

(* ---- known-finding classes ---- *)
(* C01-K1: an else-chain whose last item is a conditional.
   [ic]: the node is an item or a sub-chain of an else-chain above it. *)
Fixpoint known_K1C (ic : bool) (e : expr) : bool :=
  match e with
  | ELit _ | EValue | EIdent _ => false
  | EUn _ x | EGroup x | ENested _ x | EReapply x => known_K1C false x
  | EElse l r =>
      if ic then known_K1C true l || known_K1C true r
      else is_cond r || known_K1C true l || known_K1C false r
  | EBin _ l r | EAnd l r | EOr l r | EList _ l r | ECond _ l r | ESeq _ l r | ESide l r =>
      known_K1C false l || known_K1C false r
  end.
Definition known_K1 (e : expr) : bool := known_K1C false e.

(* C01-K2: a `^~` inside a side-effect block (outside any nested body within it) *)
Fixpoint known_K2 (e : expr) : bool :=
  match e with
  | ELit _ | EValue | EIdent _ => false
  | ESide a s => has_reapply s || known_K2 a || known_K2 s
  | EUn _ x | EGroup x | ENested _ x | EReapply x => known_K2 x
  | EBin _ l r | EAnd l r | EOr l r | EList _ l r | ECond _ l r | EElse l r | ESeq _ l r => known_K2 l || known_K2 r
  end.

Lemma not_K2_frag : forall e, known_K2 e = false -> frag e = true.
Proof.
  induction e; cbn; intros H; auto;
    try (apply orb_false_elim in H; destruct H as [H1 H2]; rewrite IHe1, IHe2 by assumption; reflexivity).
  apply orb_false_elim in H. destruct H as [H H2]. apply orb_false_elim in H. destruct H as [H0 H1].
  rewrite IHe1, IHe2, H0 by assumption. reflexivity.
Qed.

(* ---- equal up to a renaming of expression values ---- *)
Section Rel.
Variable rho : N -> N.     (* label of a nested expression -> jump-table index of its body *)
Fixpoint val_rel (a b : val) : Prop :=
  match a, b with
  | VExpr x, VExpr y => y = rho x
  | VPair a1 a2, VPair b1 b2 => val_rel a1 b1 /\ val_rel a2 b2
  | VList xs, VList ys =>
      (fix go (xs ys : list val) : Prop :=
         match xs, ys with
         | [], [] => True
         | x :: xs', y :: ys' => val_rel x y /\ go xs' ys'
         | _, _ => False
         end) xs ys
  | VExpr _, _ | _, VExpr _ | VPair _ _, _ | _, VPair _ _ | VList _, _ | _, VList _ => False
  | _, _ => a = b
  end.
Definition call_rel (a b : host_call) : Prop :=
  match a, b with
  | HResolve x, HResolve y => x = y
  | HApply k x, HApply k' y => k = k' /\ val_rel x y
  | _, _ => False
  end.
Fixpoint trace_rel (a b : trace) : Prop :=
  match a, b with
  | [], [] => True
  | x :: a', y :: b' => call_rel x y /\ trace_rel a' b'
  | _, _ => False
  end.
End Rel.
