(* C10, program-level clauses: `&&` / `||` evaluate their right operand only when
   the left one does not decide and always produce a boolean; a conditional
   evaluates only the arm it selects; an else-chain evaluates its conditions in
   order and at most one arm.
   Only statements, [exact] and [Print Assumptions] live here.

   The clauses are stated on the reference evaluator, whose state carries the
   host trace: "s' = s1" says that nothing further was evaluated that the host
   could observe.  C10_program_trace carries them over to the compiled program:
   for every program of the proved fragment the runtime model's observable host
   trace and final host state are the evaluator's.  (The truth-table clause of
   C10 is Properties/C10.v.) *)
From Coq Require Import ZArith NArith List Bool Arith.
From GV Require Import Base.Result Base.Host Gen.Instr Model.Num Model.Value Model.Machine
  Model.CompileExpr Spec.Ast Spec.Eval
  Spec.Printer Proofs.C01.MachineFacts Proofs.C01.Fragment Proofs.C01.Stages Proofs.C01.Main Proofs.C01.StageThms Proofs.C01.C10Clauses Proofs.C01.Witness.
Import ListNotations.

Theorem C10_and_short_circuit : forall sym_hash hstate host pb n l r vin (s : st hstate) v s',
  eval sym_hash hstate host pb (S n) (EAnd l r) vin s = ODone v s' ->
  exists vl s1, eval sym_hash hstate host pb n l vin s = ODone vl s1 /\
    if truthy vl
    then exists vr, eval sym_hash hstate host pb n r vin s1 = ODone vr s' /\ v = vbool (truthy vr)
    else v = VFalse /\ s' = s1.
Proof. exact and_clause. Qed.
Print Assumptions C10_and_short_circuit.

Theorem C10_or_short_circuit : forall sym_hash hstate host pb n l r vin (s : st hstate) v s',
  eval sym_hash hstate host pb (S n) (EOr l r) vin s = ODone v s' ->
  exists vl s1, eval sym_hash hstate host pb n l vin s = ODone vl s1 /\
    if truthy vl
    then v = VTrue /\ s' = s1
    else exists vr, eval sym_hash hstate host pb n r vin s1 = ODone vr s' /\ v = vbool (truthy vr).
Proof. exact or_clause. Qed.
Print Assumptions C10_or_short_circuit.

Theorem C10_and_or_boolean : forall sym_hash hstate host pb n (is_and : bool) l r vin (s : st hstate) v s',
  eval sym_hash hstate host pb (S n) (if is_and then EAnd l r else EOr l r) vin s = ODone v s' ->
  v = VTrue \/ v = VFalse.
Proof. exact logical_boolean. Qed.
Print Assumptions C10_and_or_boolean.

Theorem C10_one_arm : forall sym_hash hstate host pb n neg c a vin (s : st hstate) v s',
  eval sym_hash hstate host pb (S n) (ECond neg c a) vin s = ODone v s' ->
  exists vc s1, eval sym_hash hstate host pb n c vin s = ODone vc s1 /\
    if cond_holds neg vc then eval sym_hash hstate host pb n a vin s1 = ODone v s' else v = vin /\ s' = s1.
Proof. exact cond_clause. Qed.
Print Assumptions C10_one_arm.

Theorem C10_chain_in_order : forall sym_hash hstate host pb n l r vin (s : st hstate) o s',
  eval_chain sym_hash hstate host pb (S n) (EElse l r) vin s = ODone o s' ->
  exists ol s1, eval_chain sym_hash hstate host pb n l vin s = ODone ol s1 /\
    match ol with
    | Some x => o = Some x /\ s' = s1
    | None => eval_chain sym_hash hstate host pb n r vin s1 = ODone o s'
    end.
Proof. exact chain_clause. Qed.
Print Assumptions C10_chain_in_order.

Theorem C10_chain_item : forall sym_hash hstate host pb n neg c a vin (s : st hstate) o s',
  eval_chain sym_hash hstate host pb (S n) (ECond neg c a) vin s = ODone o s' ->
  exists vc s1, eval sym_hash hstate host pb n c vin s = ODone vc s1 /\
    if cond_holds neg vc
    then exists v, eval sym_hash hstate host pb n a vin s1 = ODone v s' /\ o = Some v
    else o = None /\ s' = s1.
Proof. exact chain_item_clause. Qed.
Print Assumptions C10_chain_item.

Theorem C10_truth_test : forall v, truthy v = false <-> (v = VUnit \/ v = VFalse).
Proof. exact truthy_spec. Qed.
Print Assumptions C10_truth_test.

(* the compiled program evaluates what the evaluator evaluates: same observable
   host trace, same final host state, same value (every construct; C01 stages 1-4) *)
Theorem C10_program_trace : forall sym_hash hstate host, declines_defer hstate host ->
  forall e vin h n v h' t,
  printable e = true -> known_K1 e = false -> known_K2 e = false -> labels_ok e = true ->
  eval_prog sym_hash hstate host n e vin h = ODone v (h', t) ->
  exists s0 fuel steps sfin,
    initial hstate (compile_prog sym_hash e) 0 vin h = Some s0 /\
    run hstate host fuel (compile_prog sym_hash e) s0 = REnd hstate sfin steps /\
    current_value hstate sfin = Some v /\ hs sfin = h' /\ observable (tr sfin) = t.
Proof. exact all_programs. Qed.
Print Assumptions C10_program_trace.

(* non-vacuity: the demo program has a `&&` whose right operand is evaluated and
   an else-chain whose first arm is taken; it is in the fragment *)
Example C10_ex_program : frag3 demo = true /\ shape_ok demo = true /\ seq_ok true demo = true.
Proof. exact (conj (proj1 demo_in_fragment) (conj (proj1 (proj2 demo_in_fragment)) (proj1 (proj2 (proj2 demo_in_fragment))))). Qed.
