(* Bridge between the parser proofs of C02 and the builder proofs: the
   index-carrying tree [ntree] that C02 shows the parser's node array to denote
   (Proofs/C02/Denote.v, [denotes]) seen as a proper tree of Model/Compile.v.
   For every token list on which the reference precedence-climbing parser is
   defined, [parse] returns a node array whose [Compile.tree_of] is the image
   [img] of that tree.  Shared by C06 (operator fragment) and the C01
   end-to-end proof. *)
From Coq Require Import List Arith Bool NArith Lia.
From GV Require Import Base.Result Gen.TokenTypes Gen.Defs Gen.Instr Model.Parser Model.BuilderWL Model.Compile
  Spec.RefTable Spec.Pratt Spec.Chains Proofs.C02.Denote Proofs.C02.Full
  Proofs.C05.InlBase Proofs.Builder.TreeAt Proofs.Builder.ValidTree.
Import ListNotations.

(* the image of an index-carrying tree: node ids are the indices, a prefix
   operator and a group have their operand on the right, a suffix operator on
   the left *)
Fixpoint img (t : ntree) : Compile.tree :=
  match t with
  | NAtom i d _ => Compile.T i d None None
  | NPre i d _ a => Compile.T i d None (Some (img a))
  | NSuf i d _ a => Compile.T i d (Some (img a)) None
  | NBin i d _ l r => Compile.T i d (Some (img l)) (Some (img r))
  | NGroup b i _ a => Compile.T i (bdef b) None (Some (img a))
  end.

Lemma img_ix : forall t, t_ix (img t) = nid t.
Proof. destruct t; reflexivity. Qed.

Lemma denotes_tree_at : forall ns t p, denotes ns p t -> tree_at ns (img t).
Proof.
  intros ns. induction t as [i d k|i d k a IH|i d k a IH|i d k l IHl r IHr|b i k a IH]; intros p D;
    simpl in D; destruct D as (n & Hn & A); cbn [img tree_at oix].
  - destruct A as (_ & A2 & _ & _ & A5 & A6 & _). split; [exists n; auto | auto].
  - destruct A as (_ & A2 & _ & A4 & A5 & _ & A7). split; [|split; [exact I | eapply IH; exact A7]].
    exists n. rewrite img_ix. auto.
  - destruct A as (_ & A2 & _ & A4 & A5 & _ & A7). split; [|split; [eapply IH; exact A7 | exact I]].
    exists n. rewrite img_ix. auto.
  - destruct A as (A1 & _ & A3 & A4 & A5 & A6). split; [|split; [eapply IHl; exact A5 | eapply IHr; exact A6]].
    exists n. rewrite !img_ix. destruct A1 as [A1 _]. auto.
  - destruct A as (_ & A2 & _ & A4 & A5 & _ & A7). split; [|split; [exact I | eapply IH; exact A7]].
    exists n. rewrite img_ix. auto.
Qed.

Lemma img_indices : forall t x, In x (indices (img t)) <-> has_id t x.
Proof.
  induction t as [i d k|i d k a IH|i d k a IH|i d k l IHl r IHr|b i k a IH]; intros x; cbn [img indices has_id In app].
  - split; [intros [H|[]]; auto | intros ->; auto].
  - rewrite IH. split; [intros [H|H]; auto | intros [->|H]; auto].
  - rewrite app_nil_r, IH. split; [intros [H|H]; auto | intros [->|H]; auto].
  - rewrite in_app_iff, IHl, IHr. split; [intros [H|[H|H]]; auto | intros [->|[H|H]]; auto].
  - rewrite IH. split; [intros [H|H]; auto | intros [->|H]; auto].
Qed.

Lemma ordered_nodup : forall t, ordered t -> NoDup (indices (img t)).
Proof.
  induction t as [i d k|i d k a IH|i d k a IH|i d k l IHl r IHr|b i k a IH]; cbn [img indices ordered app]; intros O.
  - constructor; [intros [] | constructor].
  - destruct O as [H1 H2]. constructor; [|apply IH; exact H2].
    intros Hx. apply img_indices in Hx. pose proof (ordered_range a i H2 Hx). lia.
  - destruct O as [H1 H2]. rewrite app_nil_r. constructor; [|apply IH; exact H2].
    intros Hx. apply img_indices in Hx. pose proof (ordered_range a i H2 Hx). lia.
  - destruct O as (H1 & H2 & H3 & H4). constructor.
    + rewrite in_app_iff. intros [Hx|Hx]; apply img_indices in Hx;
        [pose proof (ordered_range l i H3 Hx) | pose proof (ordered_range r i H4 Hx)]; lia.
    + apply nodup_app_intro; [apply IHl; exact H3 | apply IHr; exact H4 |].
      intros x Hx Hy. apply img_indices in Hx. apply img_indices in Hy.
      pose proof (ordered_range l x H3 Hx). pose proof (ordered_range r x H4 Hy). lia.
  - destruct O as [H1 H2]. constructor; [|apply IH; exact H2].
    intros Hx. apply img_indices in Hx. pose proof (ordered_range a i H2 Hx). lia.
Qed.

(* the parser's node array, read by the builder's tree_of, is the image *)
Theorem denotes_tree_of : forall ns t p, denotes ns p t -> ordered t ->
  Compile.tree_of ns (nid t) = Some (img t).
Proof.
  intros ns t p D O.
  pose proof (denotes_tree_at ns t p D) as Hat. pose proof (ordered_nodup t O) as Hnd.
  assert (Hsz : Compile.size (img t) <= length ns).
  { rewrite size_indices. rewrite <- (seq_length (length ns) 0). apply NoDup_incl_length; [exact Hnd|].
    intros k Hk. apply in_seq. pose proof (tree_at_in_range ns (img t) Hat k Hk). lia. }
  unfold Compile.tree_of. rewrite <- img_ix.
  rewrite (tree_at_of_aux ns (img t) Hat (length ns) Hsz). rewrite (NoDup_nodup_b _ Hnd). reflexivity.
Qed.

(* for every token list in the domain of the reference parser *)
Theorem pratt_tree_of : forall toks R, pratt toks = Some R ->
  exists Tn ns,
    parse toks = Ok (nid Tn, ns) /\ Compile.tree_of ns (nid Tn) = Some (img Tn) /\
    denotes ns None Tn /\ ordered Tn /\
    R = shift_rtree (fst (trim_tokens toks)) (erase Tn).
Proof.
  intros toks R H. destruct (pratt_parse toks R H) as (Tn & ns & its & _ & _ & _ & Hp & DT & OT & _ & _ & E).
  exists Tn, ns. split; [exact Hp|]. split; [eapply denotes_tree_of; eauto|]. auto.
Qed.
