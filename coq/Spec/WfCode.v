(* What "a built instruction stream is well-formed" (C05) means, stated on the
   observable result of one build -- the instructions, metadata records and
   jump-table entries it added to a data object that already held
   [i_instr_len init] instructions and [i_jump_len init] jump entries -- and
   independently of how the builder works.

   * operands: an instruction carries an operand exactly when the runtime's
     dispatch (Gen.Exec, regenerated from execute.rs) hands it one; Put names a
     constant made from a literal parse node or an expression value whose jump
     entry belongs to this build; Resolve names a constant made from an
     identifier node; the jumping instructions name a jump entry of this build;
   * jump entries: the first entry pushed by a build is its entry point and
     points at the build's first instruction, which exists; every other entry
     points strictly inside the build's instructions.  The builder pushes
     placeholders as 0 and patches them when their body is emitted: with every
     entry required to be >= the first new instruction index (> for all but the
     entry point) a surviving placeholder is excluded whatever the data object
     held before;
   * straight-line runs: control never falls out of a body -- the last
     instruction is EndExpression or JumpTo, and so is the instruction in front
     of every body start (a body start is what an expression value or a
     conditional / logical jump operand names);
   * metadata: one record per instruction, naming an existing parse node.

   Both a [Prop] and an executable checker are given; Proofs/C05/WfSound.v
   proves that they coincide. *)
From Coq Require Import List Arith Bool NArith.
From GV Require Import Base.Result Gen.Defs Gen.Instr Gen.Exec Model.Parser Model.BuilderWL.
Import ListNotations.

(* the observable result of one build *)
Record code : Type := mkCode {
  k_instrs : list instr;
  k_meta : list (option nat);
  k_jumps : list nat;
  k_entry : nat
}.

Definition code_of_build (r : bstate * nat) : code :=
  mkCode (instrs (fst r)) (meta (fst r)) (jumps (fst r)) (snd r).

(* ---------------------------------------------------------------- operands *)
Definition literal_def (d : definition) : bool :=
  match d with
  | D_Unit | D_False | D_True | D_Number | D_CharList | D_ByteList | D_Symbol | D_Property => true
  | _ => false
  end.
Definition name_def (d : definition) : bool :=
  match d with
  | D_Identifier | D_PrefixApply | D_SuffixApply | D_InfixApply => true
  | _ => false
  end.

Definition jumping (i : instruction) : bool :=
  match i with
  | I_JumpTo | I_JumpIfTrue | I_JumpIfFalse | I_And | I_Or => true
  | _ => false
  end.

(* the runtime hands the operand to the operation *)
Definition takes_operand (i : instruction) : bool :=
  match exec_op i with
  | Some (_, b) => b
  | None => false
  end.
Definition executable (i : instruction) : bool :=
  match exec_op i with Some _ => true | None => false end.

Definition in_range (lo hi x : nat) : bool := Nat.leb lo x && Nat.ltb x hi.

Definition node_def (tree : list pnode) (n : nat) : option definition :=
  match nth_error tree n with Some p => Some (n_def p) | None => None end.

(* [jlo, jhi): the jump entries of this build *)
Definition operand_ok (tree : list pnode) (jlo jhi : nat) (io : instr) : bool :=
  match io with
  | (I_Put, OData n) => match node_def tree n with Some d => literal_def d | None => false end
  | (I_Put, OExpr j) => in_range jlo jhi j
  | (I_Resolve, OData n) => match node_def tree n with Some d => name_def d | None => false end
  | (I_MakeList, ONum _) => true
  | (i, ONum j) => jumping i && in_range jlo jhi j
  | (i, ONone) => executable i && negb (takes_operand i)
  | _ => false
  end.

(* ------------------------------------------------------------ jump entries *)
(* entry number [k] (0 = first pushed by this build) with target [t];
   [ilo, ihi): the instructions of this build *)
Definition jump_ok (ilo ihi : nat) (k t : nat) : bool :=
  match k with
  | O => Nat.eqb t ilo && Nat.ltb t ihi
  | S _ => Nat.ltb ilo t && Nat.ltb t ihi
  end.

(* ------------------------------------------------------- straight-line runs *)
Definition is_terminator (io : instr) : bool :=
  match fst io with
  | I_EndExpression | I_JumpTo => true
  | _ => false
  end.

(* the jump entry whose target starts a body *)
Definition body_ref (io : instr) : option nat :=
  match io with
  | (I_Put, OExpr j) => Some j
  | (I_And, ONum j) | (I_Or, ONum j) | (I_JumpIfTrue, ONum j) | (I_JumpIfFalse, ONum j) => Some j
  | _ => None
  end.

Section Wf.
Variable tree : list pnode.
Variable init : binit.
Variable c : code.

Definition ilo : nat := i_instr_len init.
Definition ihi : nat := i_instr_len init + length (k_instrs c).
Definition jlo : nat := i_jump_len init.
Definition jhi : nat := i_jump_len init + length (k_jumps c).

(* instruction at absolute index [a] of this build *)
Definition instr_at (a : nat) : option instr :=
  if Nat.ltb a ilo then None else nth_error (k_instrs c) (a - ilo).
Definition jump_at (j : nat) : option nat :=
  if Nat.ltb j jlo then None else nth_error (k_jumps c) (j - jlo).

Definition operands_wf : Prop :=
  forall k io, nth_error (k_instrs c) k = Some io -> operand_ok tree jlo jhi io = true.

Definition jumps_wf : Prop :=
  forall k t, nth_error (k_jumps c) k = Some t -> jump_ok ilo ihi k t = true.

Definition body_starts_wf : Prop :=
  forall k io j t,
    nth_error (k_instrs c) k = Some io -> body_ref io = Some j -> jump_at j = Some t ->
    ilo < t -> exists p, instr_at (t - 1) = Some p /\ is_terminator p = true.

Definition last_wf : Prop :=
  forall io, nth_error (k_instrs c) (length (k_instrs c) - 1) = Some io -> is_terminator io = true.

Definition meta_wf : Prop :=
  length (k_meta c) = length (k_instrs c) /\
  forall k n, nth_error (k_meta c) k = Some (Some n) -> n < length tree.

Definition wf_code : Prop :=
  operands_wf /\ jumps_wf /\ body_starts_wf /\ last_wf /\ meta_wf.

(* ------------------------------------------------------------------ checker *)
Fixpoint forallb_i {A} (f : nat -> A -> bool) (k : nat) (l : list A) : bool :=
  match l with
  | [] => true
  | x :: r => f k x && forallb_i f (S k) r
  end.

Definition operands_wf_b : bool := forallb (operand_ok tree jlo jhi) (k_instrs c).
Definition jumps_wf_b : bool := forallb_i (jump_ok ilo ihi) 0 (k_jumps c).
Definition body_start_ok_b (io : instr) : bool :=
  match body_ref io with
  | None => true
  | Some j =>
    match jump_at j with
    | None => true
    | Some t =>
      if Nat.ltb ilo t then
        match instr_at (t - 1) with
        | Some p => is_terminator p
        | None => false
        end
      else true
    end
  end.
Definition body_starts_wf_b : bool := forallb body_start_ok_b (k_instrs c).
Definition last_wf_b : bool :=
  match nth_error (k_instrs c) (length (k_instrs c) - 1) with
  | Some io => is_terminator io
  | None => true
  end.
Definition meta_wf_b : bool :=
  Nat.eqb (length (k_meta c)) (length (k_instrs c)) &&
  forallb (fun m => match m with Some n => Nat.ltb n (length tree) | None => true end) (k_meta c).

Definition wf_code_b : bool :=
  operands_wf_b && jumps_wf_b && body_starts_wf_b && last_wf_b && meta_wf_b.

(* which clauses fail, for reports: bit 0 operands, 1 jump entries, 2 body
   starts, 3 last instruction, 4 metadata *)
Definition wf_report : list bool :=
  [operands_wf_b; jumps_wf_b; body_starts_wf_b; last_wf_b; meta_wf_b].
End Wf.
