(* (b) continued: finite facts about the generated and the pinned tables; one iteration
   of the main loop of parse() on a value token and on a binary operator token unfolded
   from Model.Parser.step; parse_token for a value arriving under an open frame. *)
From Coq Require Import List Arith Bool NArith Lia.
From GV Require Import Base.Result Gen.TokenTypes Gen.Defs Model.Parser Spec.RefTable Spec.Pratt Spec.Chains
  Proofs.C02.Denote Proofs.C02.Invariant.
Import ListNotations.

(* ---- finite facts about the generated and the pinned tables ---- *)
Lemma all_tokens_in (t : token_type) : In t all_token_type.
Proof. destruct t; vm_compute; tauto. Qed.

Lemma all_definitions_in (d : definition) : In d all_definition.
Proof. destruct d; vm_compute; tauto. Qed.

(* definitions an open frame can carry: binary and prefix operators, the implicit list *)
Definition frame_defs : list definition :=
  D_List :: map ref_def (filter (fun t => is_binary_tok t || is_prefix_tok t) all_token_type).

Definition frameable (d : definition) : bool := existsb (definition_eqb d) frame_defs.

Definition rtl_of (s : secondary) : bool := match s with S_BinaryRightToLeft => true | _ => false end.

Definition cmp_ok (d : definition) (my : N) (rtl : bool) (d' : definition) : bool :=
  match priority d', ref_rank d' with
  | Some their, Some q => Bool.eqb (walk_stop my their rtl) (inside d q)
  | _, _ => false
  end.

Definition binary_tok_ok (t : token_type) : bool :=
  negb (is_binary_tok t) || sep_tok t ||
  (let '(d, sec) := get_definition t in
   definition_eqb d (ref_def t) && is_bin_sec sec &&
   negb (definition_eqb d D_SideEffect) && negb (definition_eqb d D_Drop) && negb (definition_eqb d D_Identifier) &&
   match priority d, ref_rank d with
   | Some my, Some p =>
     negb (walk_stop my 10 (rtl_of sec)) && negb (walk_stop my 20 (rtl_of sec)) && N.ltb p ROUND_LIMIT && N.ltb 10 my && frameable d &&
     forallb (fun d' => implb (frameable d') (cmp_ok d my (rtl_of sec) d')) all_definition
   | _, _ => false
   end).

Lemma binary_toks_ok : forallb binary_tok_ok all_token_type = true.
Proof. vm_compute. reflexivity. Qed.

Lemma definition_eqb_eq a b : definition_eqb a b = true -> a = b.
Proof.
  unfold definition_eqb. intros H. apply N.eqb_eq in H.
  destruct a; destruct b; try reflexivity; vm_compute in H; discriminate.
Qed.

Record binary_facts (t : token_type) (sec : secondary) (my p : N) : Prop := mkBF {
  bf_def : get_definition t = (ref_def t, sec);
  bf_sec : is_bin_sec sec = true;
  bf_se : definition_eqb (ref_def t) D_SideEffect = false;
  bf_drop : definition_eqb (ref_def t) D_Drop = false;
  bf_ident : definition_eqb (ref_def t) D_Identifier = false;
  bf_prio : priority (ref_def t) = Some my;
  bf_rank : ref_rank (ref_def t) = Some p;
  bf_atom : walk_stop my 10 (rtl_of sec) = false;
  bf_group : walk_stop my 20 (rtl_of sec) = false;
  bf_inf : (p < INF)%N;
  bf_rl : (p < ROUND_LIMIT)%N;
  bf_gt : (10 < my)%N;
  bf_cmp : forall d', frameable d' = true -> cmp_ok (ref_def t) my (rtl_of sec) d' = true;
  bf_frame : frameable (ref_def t) = true
}.

Lemma binary_tok_facts t : is_binary_tok t = true -> sep_tok t = false -> exists sec my p, binary_facts t sec my p.
Proof.
  intros Hb Hns. pose proof binary_toks_ok as F. rewrite forallb_forall in F.
  specialize (F t (all_tokens_in t)). unfold binary_tok_ok in F. rewrite Hb, Hns in F.
  change (negb true || false || ?x) with x in F.
  destruct (get_definition t) as [d sec] eqn:Eg.
  apply andb_true_iff in F. destruct F as [F G].
  apply andb_true_iff in F. destruct F as [F F5].
  apply andb_true_iff in F. destruct F as [F F4].
  apply andb_true_iff in F. destruct F as [F F3].
  apply andb_true_iff in F. destruct F as [F1 F2].
  apply definition_eqb_eq in F1. subst d.
  destruct (priority (ref_def t)) as [my|] eqn:Ep; [|discriminate G].
  destruct (ref_rank (ref_def t)) as [p|] eqn:Er; [|discriminate G].
  apply andb_true_iff in G. destruct G as [G G5].
  apply andb_true_iff in G. destruct G as [G G4].
  apply andb_true_iff in G. destruct G as [G G3].
  apply andb_true_iff in G. destruct G as [G G2].
  apply andb_true_iff in G. destruct G as [G1 G1'].
  exists sec, my, p. constructor.
  - exact Eg.
  - exact F2.
  - apply negb_true_iff. exact F3.
  - apply negb_true_iff. exact F4.
  - apply negb_true_iff. exact F5.
  - exact Ep.
  - exact Er.
  - apply negb_true_iff. exact G1.
  - apply negb_true_iff. exact G1'.
  - apply N.ltb_lt in G2. eapply N.lt_trans; [exact G2|reflexivity].
  - apply N.ltb_lt. exact G2.
  - apply N.ltb_lt. exact G3.
  - rewrite forallb_forall in G5. intros d' Hd'. specialize (G5 d' (all_definitions_in d')).
    rewrite Hd' in G5. exact G5.
  - exact G4.
Qed.

Definition frame_def_ok (d : definition) : bool :=
  implb (frameable d)
    match priority d, ref_rank d with
    | Some their, Some q => N.ltb 10 their && negb (definition_eqb d D_SideEffect) && negb (is_group_like d)
    | _, _ => false
    end.

Lemma frame_defs_ok : forallb frame_def_ok all_definition = true.
Proof. vm_compute. reflexivity. Qed.

Lemma frame_def_facts d : frameable d = true ->
  exists their q, priority d = Some their /\ ref_rank d = Some q /\ (10 < their)%N /\
                  definition_eqb d D_SideEffect = false /\ is_group_like d = false.
Proof.
  intros H. pose proof frame_defs_ok as F. rewrite forallb_forall in F. specialize (F d (all_definitions_in d)).
  unfold frame_def_ok in F. rewrite H in F. cbn [implb] in F. destruct (priority d) as [their|]; [|discriminate].
  destruct (ref_rank d) as [q|]; [|discriminate]. apply andb_true_iff in F. destruct F as [F F3].
  apply andb_true_iff in F. destruct F as [F1 F2].
  exists their, q. repeat split; auto; [apply N.ltb_lt; exact F1|apply negb_true_iff; exact F2|apply negb_true_iff; exact F3].
Qed.

Definition frames_ok (fs : list frame) : Prop :=
  forall f, In f fs -> is_fgroup f = false -> frameable (frame_def f) = true.

Lemma pop_frames_ok d fs t fs' t' : frames_ok fs -> pop d fs t = (fs', t') -> frames_ok fs'.
Proof.
  apply (pop_ind (fun a _ => frames_ok a) d). intros f r _ H f' Hf' Hg. apply H; [right; exact Hf'|exact Hg].
Qed.

(* the parser's [under_group] *)
Definition under_group_of (st : pstate) : res (option nat) :=
  match current_group st with
  | None => Ok None
  | Some c => match nth_error (group_stack st) c with
              | None => impl_err
              | Some (g, _) => Ok (Some g)
              end
  end.

(* ---- unfolding one loop iteration ---- *)
Ltac fields :=
  cbn [nodes next_parent last_left check_for_list last_token next_last_left group_stack
       current_group prev_sec prev_sig separated se_prev bind].

Ltac fields_in_all :=
  cbn [nodes next_parent last_left check_for_list last_token next_last_left group_stack
       current_group prev_sec prev_sig separated se_prev] in *.

(* the last_left adjustment after a finished side effect does not apply *)
Definition adj_ok (ns : list pnode) (ll : option nat) : Prop :=
  ll = None \/ exists l ln, ll = Some l /\ nth_error ns l = Some ln /\
                            definition_eqb (n_def ln) D_SideEffect = false.

Lemma adj_simpl ns ll ug (ps psig : secondary) :
  adj_ok ns ll ->
  match ll with
  | Some li =>
      match nth_error ns li with
      | Some n =>
          if definition_eqb (n_def n) D_SideEffect && negb (opt_nat_eqb ll ug) &&
             match n_parent n with Some _ => true | None => false end &&
             match n_left n with Some _ => false | None => true end
          then Ok (n_parent n, ps, psig)
          else Ok (ll, ps, psig)
      | None => impl_err
      end
  | None => Ok (ll, ps, psig)
  end = Ok (ll, ps, psig).
Proof. intros [->|(l & ln & -> & Hln & Hse)]; [reflexivity|]. rewrite Hln, Hse. reflexivity. Qed.

Lemma app_last_match {A B} (l : list A) (x : A) (a b : B) :
  match l ++ [x] with [] => a | _ :: _ => b end = b.
Proof. destruct l; reflexivity. Qed.

(* a binary operator token *)
Lemma step_binary_unfold ntoks i tok st ug d sec :
  get_definition tok = (d, sec) -> is_bin_sec sec = true ->
  definition_eqb d D_Drop = false -> definition_eqb d D_Identifier = false ->
  under_group_of st = Ok ug -> next_last_left st = None -> adj_ok (nodes st) (last_left st) ->
  forbidden (prev_sec st) sec (check_for_list st) = false ->
  separated st && forbidden_separated (prev_sig st) sec (check_for_list st) = false ->
  step ntoks i tok st =
    do r2 <- parse_token (length (nodes st)) d (last_left st) (nodes st) ug (rtl_of sec);
    let '(ns2, parent, tl) := r2 in
    Ok (mkState (ns2 ++ [mkNode d sec parent tl
                           (if Nat.leb ntoks (i + 1) then None else Some (length (nodes st) + 1)) (Some i)])
                (Some (length (nodes st))) (Some (length (nodes st))) false (Some i) None
                (group_stack st) (current_group st) sec sec false (se_prev st)).
Proof.
  intros Hg Hs Hdrop Hid Hug Hnll Hadj Hforb Hsep.
  destruct st as [ns np ll cfl lt nll gs cg ps psig sep sep_prev]. unfold under_group_of in Hug. fields_in_all.
  subst nll. unfold step. fields. rewrite Hug. cbn [bind]. rewrite (adj_simpl ns ll ug ps psig Hadj). fields.
  rewrite Hg. fields. rewrite Hforb.
  destruct sec; try discriminate; cbn [negb andb] in *; rewrite Hsep; cbn [rtl_of bind]; fields;
  (destruct (parse_token (length ns) d ll ns ug _) as [[[ns2 parent] tl]| | |]; cbn [bind]; try reflexivity);
  fields; rewrite Hdrop, Hid; rewrite app_last_match; reflexivity.
Qed.

(* a value token, no list pending *)
Definition atom_def (d : definition) (parent : option nat) (ns : list pnode) : definition :=
  if definition_eqb d D_Identifier then
    match parent with
    | Some p => match nth_error ns p with
                | Some pn => if definition_eqb (n_def pn) D_Access then D_Property else d
                | None => d end
    | None => d
    end
  else d.

Lemma step_value_unfold ntoks i tok st ug d sec :
  get_definition tok = (d, sec) -> is_atom_sec sec = true -> definition_eqb d D_Drop = false ->
  under_group_of st = Ok ug -> next_last_left st = None -> check_for_list st = false ->
  adj_ok (nodes st) (last_left st) ->
  forbidden (prev_sec st) sec false = false ->
  separated st && forbidden_separated (prev_sig st) sec false = false ->
  step ntoks i tok st =
    do r2 <- parse_token (length (nodes st)) d (last_left st) (nodes st) ug false;
    let '(ns2, parent, tl) := r2 in
    Ok (mkState (ns2 ++ [mkNode (atom_def d parent ns2) sec parent tl None (Some i)])
                (next_parent st) (Some (length (nodes st))) false (Some i) None
                (group_stack st) (current_group st) sec sec false (se_prev st)).
Proof.
  intros Hg Hs Hdrop Hug Hnll Hcfl Hadj Hforb Hsep.
  destruct st as [ns np ll cfl lt nll gs cg ps psig sep sep_prev]. unfold under_group_of in Hug. fields_in_all.
  subst nll cfl. unfold step. fields. rewrite Hug. cbn [bind]. rewrite (adj_simpl ns ll ug ps psig Hadj). fields.
  rewrite Hg. fields. rewrite Hforb.
  destruct sec; try discriminate; cbn [negb andb] in *; rewrite Hsep; cbn [bind]; fields;
  (destruct (parse_token (length ns) d ll ns ug false) as [[[ns2 parent] tl]| | |]; cbn [bind]; try reflexivity);
  fields; rewrite Hdrop; rewrite app_last_match; reflexivity.
Qed.

(* ---- parse_token for a value arriving while the innermost frame waits for it ---- *)
Lemma upd_id {A} (l : list A) k f x : nth_error l k = Some x -> f x = x -> upd l k f = Some l.
Proof.
  revert k. induction l as [|a r IH]; intros k H E; destruct k; simpl in *; try discriminate.
  - injection H as ->. rewrite E. reflexivity.
  - rewrite (IH k H E). reflexivity.
Qed.

(* every frame's node outranks a value *)
Lemma frame_outranks_value f : (is_fgroup f = false -> frameable (frame_def f) = true) ->
  exists their, priority (frame_def f) = Some their /\ (10 <? their)%N = true.
Proof.
  intros H. destruct f as [i d k l|i d k|b i k].
  - destruct (frame_def_facts _ (H eq_refl)) as (their & q & Hth & _ & Hgt & _).
    exists their. split; [exact Hth|apply N.ltb_lt; exact Hgt].
  - destruct (frame_def_facts _ (H eq_refl)) as (their & q & Hth & _ & Hgt & _).
    exists their. split; [exact Hth|apply N.ltb_lt; exact Hgt].
  - exists 20%N. destruct b; split; reflexivity.
Qed.

Lemma parse_token_pending ns fs ug d :
  spine ns fs (length ns) -> frames_ok fs -> priority d = Some 10%N ->
  definition_eqb d D_SideEffect = false ->
  parse_token (length ns) d (top_id fs) ns ug false = Ok (ns, top_id fs, None).
Proof.
  intros Sp FO Hp Hse. unfold parse_token, prio_of. rewrite Hp, Hse. cbn [bind].
  destruct fs as [|f r]; [reflexivity|]. remember (S (length ns)) as fuel eqn:Efuel.
  simpl in Sp. destruct Sp as [S1 S2].
  destruct (frame_node_walk _ _ _ _ S1) as (nf & Hnf & Hdf & Hpf & Hrf & Hsf).
  destruct (frame_outranks_value f (FO f (or_introl eq_refl))) as (their & Hth & Hgt).
  cbn [top_id walk]. rewrite Hnf. unfold prio_of. rewrite Hdf, Hth. cbn [bind].
  rewrite Hsf. cbn [andb negb]. rewrite Hgt. cbn [andb orb bind].
  rewrite !opt_nat_eqb_refl. cbn [bind]. rewrite Hnf.
  rewrite (upd_id ns (frame_id f) (set_right (Some (length ns))) nf Hnf);
    [|destruct nf; simpl in Hrf; subst; reflexivity].
  rewrite Hrf. rewrite upd_none by lia. reflexivity.
Qed.

Definition pending_prev (s : secondary) : Prop :=
  s = S_None \/ is_bin_sec s = true \/ s = S_UnaryPrefix \/ s = S_StartGrouping \/ s = S_Subexpression.

(* value tokens *)
Definition value_tok_ok (t : token_type) : bool :=
  negb (is_value_tok t) ||
  (let '(d, sec) := get_definition t in
   definition_eqb d (ref_def t) && is_atom_sec sec && negb (definition_eqb d D_Drop) &&
   negb (definition_eqb d D_SideEffect) &&
   match priority d with Some p => N.eqb p 10 | None => false end &&
   definition_eqb (norm_atom d) d &&
   (negb (definition_eqb d D_Identifier) || (definition_eqb (ref_def t) D_Identifier))).

Lemma value_toks_ok : forallb value_tok_ok all_token_type = true.
Proof. vm_compute. reflexivity. Qed.

Lemma value_tok_facts t : is_value_tok t = true ->
  exists sec, get_definition t = (ref_def t, sec) /\ is_atom_sec sec = true /\
              definition_eqb (ref_def t) D_Drop = false /\
              definition_eqb (ref_def t) D_SideEffect = false /\ priority (ref_def t) = Some 10%N /\
              norm_atom (ref_def t) = ref_def t /\
              (definition_eqb (ref_def t) D_Identifier = false \/ ref_def t = D_Identifier).
Proof.
  intros Hv. pose proof value_toks_ok as F. rewrite forallb_forall in F.
  specialize (F t (all_tokens_in t)). unfold value_tok_ok in F. rewrite Hv in F.
  change (negb true || ?x) with x in F.
  destruct (get_definition t) as [d sec] eqn:Eg.
  apply andb_true_iff in F. destruct F as [F F6].
  apply andb_true_iff in F. destruct F as [F F5].
  apply andb_true_iff in F. destruct F as [F F4].
  apply andb_true_iff in F. destruct F as [F F3'].
  apply andb_true_iff in F. destruct F as [F F3].
  apply andb_true_iff in F. destruct F as [F1 F2].
  apply definition_eqb_eq in F1. subst d.
  exists sec. split; [reflexivity|]. split; [exact F2|]. split; [apply negb_true_iff; exact F3|].
  split; [apply negb_true_iff; exact F3'|].
  split.
  { destruct (priority (ref_def t)) as [p|]; [|discriminate]. apply N.eqb_eq in F4. subst p. reflexivity. }
  split; [apply definition_eqb_eq; exact F5|].
  apply orb_true_iff in F6. destruct F6 as [F6|F6].
  - left. apply negb_true_iff. exact F6.
  - right. apply definition_eqb_eq. exact F6.
Qed.


(* the node last_left points at after a completed operand *)
Lemma closed_operand_root ns p t :
  denotes ns p t -> closed_operand t ->
  exists n, nth_error ns (nid t) = Some n /\ calm_def (n_def n) = true.
Proof.
  destruct t as [i d k|i d k a|i d k a|i d k l r|b i k a]; simpl; try tauto.
  - intros (n & Hn & A) _. exists n. split; [exact Hn|]. apply plain_calm, prio10_plain. apply A.
  - intros (n & Hn & A) [_ Hpl]. exists n. split; [exact Hn|].
    destruct A as (_ & -> & _). apply plain_calm. exact Hpl.
  - intros (n & Hn & A) _. exists n. split; [exact Hn|]. destruct A as (_ & -> & _). destruct b; reflexivity.
Qed.

Lemma calm_facts d : calm_def d = true ->
  definition_eqb d D_SideEffect = false /\ is_optional d = false /\
  definition_eqb d D_Subexpression = false /\ definition_eqb d D_ExpressionSeparator = false.
Proof.
  unfold calm_def. intros H. apply andb_true_iff in H. destruct H as [H H4].
  apply andb_true_iff in H. destruct H as [H H3]. apply andb_true_iff in H. destruct H as [H1 H2].
  repeat split; apply negb_true_iff; assumption.
Qed.
