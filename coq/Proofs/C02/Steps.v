(* (b) continued: one iteration of the main loop of parse() on a value token and on a
   binary operator token, as a transition of the spine machine. *)
From Coq Require Import List Arith Bool NArith Lia.
From GV Require Import Base.Result Gen.TokenTypes Gen.Defs Model.Parser Spec.RefTable Spec.Pratt Spec.Chains
  Proofs.C02.Denote Proofs.C02.Invariant.
Import ListNotations.

(* ---- finite facts about the generated and the pinned tables ---- *)
Lemma all_tokens_in (t : token_type) : In t all_token_type.
Proof. destruct t; vm_compute; tauto. Qed.

Lemma all_definitions_in (d : definition) : In d all_definition.
Proof. destruct d; vm_compute; tauto. Qed.

(* definitions an open frame can carry: binary and prefix operators, the implicit list *)
Definition frame_defs : list definition :=
  D_List :: map ref_def (filter (fun t => is_binary_tok t || is_prefix_tok t) all_token_type).

Definition frameable (d : definition) : bool := existsb (definition_eqb d) frame_defs.

Definition rtl_of (s : secondary) : bool := match s with S_BinaryRightToLeft => true | _ => false end.

Definition cmp_ok (d : definition) (my : N) (rtl : bool) (d' : definition) : bool :=
  match priority d', ref_rank d' with
  | Some their, Some q => Bool.eqb (walk_stop my their rtl) (inside d q)
  | _, _ => false
  end.

Definition binary_tok_ok (t : token_type) : bool :=
  negb (is_binary_tok t) ||
  (let '(d, sec) := get_definition t in
   definition_eqb d (ref_def t) && is_bin_sec sec &&
   negb (definition_eqb d D_SideEffect) && negb (definition_eqb d D_Drop) && negb (definition_eqb d D_Identifier) &&
   match priority d, ref_rank d with
   | Some my, Some p =>
     negb (walk_stop my 10 (rtl_of sec)) && N.ltb p INF && N.ltb 10 my && frameable d &&
     forallb (fun d' => implb (frameable d') (cmp_ok d my (rtl_of sec) d')) all_definition
   | _, _ => false
   end).

Lemma binary_toks_ok : forallb binary_tok_ok all_token_type = true.
Proof. vm_compute. reflexivity. Qed.

Lemma definition_eqb_eq a b : definition_eqb a b = true -> a = b.
Proof.
  unfold definition_eqb. intros H. apply N.eqb_eq in H.
  destruct a; destruct b; try reflexivity; vm_compute in H; discriminate.
Qed.

Record binary_facts (t : token_type) (sec : secondary) (my p : N) : Prop := mkBF {
  bf_def : get_definition t = (ref_def t, sec);
  bf_sec : is_bin_sec sec = true;
  bf_se : definition_eqb (ref_def t) D_SideEffect = false;
  bf_drop : definition_eqb (ref_def t) D_Drop = false;
  bf_ident : definition_eqb (ref_def t) D_Identifier = false;
  bf_prio : priority (ref_def t) = Some my;
  bf_rank : ref_rank (ref_def t) = Some p;
  bf_atom : walk_stop my 10 (rtl_of sec) = false;
  bf_inf : (p < INF)%N;
  bf_gt : (10 < my)%N;
  bf_cmp : forall d', frameable d' = true -> cmp_ok (ref_def t) my (rtl_of sec) d' = true;
  bf_frame : frameable (ref_def t) = true
}.

Lemma binary_tok_facts t : is_binary_tok t = true -> exists sec my p, binary_facts t sec my p.
Proof.
  intros Hb. pose proof binary_toks_ok as F. rewrite forallb_forall in F.
  specialize (F t (all_tokens_in t)). unfold binary_tok_ok in F. rewrite Hb in F.
  change (negb true || ?x) with x in F.
  destruct (get_definition t) as [d sec] eqn:Eg.
  apply andb_true_iff in F. destruct F as [F G].
  apply andb_true_iff in F. destruct F as [F F5].
  apply andb_true_iff in F. destruct F as [F F4].
  apply andb_true_iff in F. destruct F as [F F3].
  apply andb_true_iff in F. destruct F as [F1 F2].
  apply definition_eqb_eq in F1. subst d.
  destruct (priority (ref_def t)) as [my|] eqn:Ep; [|discriminate G].
  destruct (ref_rank (ref_def t)) as [p|] eqn:Er; [|discriminate G].
  apply andb_true_iff in G. destruct G as [G G5].
  apply andb_true_iff in G. destruct G as [G G4].
  apply andb_true_iff in G. destruct G as [G G3].
  apply andb_true_iff in G. destruct G as [G1 G2].
  exists sec, my, p. constructor.
  - exact Eg.
  - exact F2.
  - apply negb_true_iff. exact F3.
  - apply negb_true_iff. exact F4.
  - apply negb_true_iff. exact F5.
  - exact Ep.
  - exact Er.
  - apply negb_true_iff. exact G1.
  - apply N.ltb_lt. exact G2.
  - apply N.ltb_lt. exact G3.
  - rewrite forallb_forall in G5. intros d' Hd'. specialize (G5 d' (all_definitions_in d')).
    rewrite Hd' in G5. exact G5.
  - exact G4.
Qed.

Definition frame_def_ok (d : definition) : bool :=
  implb (frameable d)
    match priority d, ref_rank d with
    | Some their, Some q => N.ltb 10 their && negb (definition_eqb d D_SideEffect)
    | _, _ => false
    end.

Lemma frame_defs_ok : forallb frame_def_ok all_definition = true.
Proof. vm_compute. reflexivity. Qed.

Lemma frame_def_facts d : frameable d = true ->
  exists their q, priority d = Some their /\ ref_rank d = Some q /\ (10 < their)%N /\
                  definition_eqb d D_SideEffect = false.
Proof.
  intros H. pose proof frame_defs_ok as F. rewrite forallb_forall in F. specialize (F d (all_definitions_in d)).
  unfold frame_def_ok in F. rewrite H in F. cbn [implb] in F. destruct (priority d) as [their|]; [|discriminate].
  destruct (ref_rank d) as [q|]; [|discriminate]. apply andb_true_iff in F. destruct F as [F1 F2].
  exists their, q. repeat split; auto; [apply N.ltb_lt; exact F1|apply negb_true_iff; exact F2].
Qed.

Definition frames_ok (fs : list frame) : Prop := forall f, In f fs -> frameable (frame_def f) = true.

Lemma compat_of_facts t sec my p fs :
  binary_facts t sec my p -> frames_ok fs -> compat (ref_def t) my (rtl_of sec) fs.
Proof.
  intros BF FO f Hf. pose proof (bf_cmp _ _ _ _ BF _ (FO f Hf)) as C. unfold cmp_ok in C.
  destruct (priority (frame_def f)) as [their|]; [|discriminate].
  destruct (ref_rank (frame_def f)) as [q|] eqn:Eq; [|discriminate].
  exists their. split; [reflexivity|]. unfold stays_below. rewrite Eq. apply eqb_prop. exact C.
Qed.

Lemma pop_frames_ok d fs t fs' t' : frames_ok fs -> pop d fs t = (fs', t') -> frames_ok fs'.
Proof.
  apply (pop_ind (fun a _ => frames_ok a) d). intros f r _ H f' Hf'. apply H. right. exact Hf'.
Qed.

(* ---- unfolding one loop iteration on a binary operator token ---- *)
Lemma app_last_match {A B} (l : list A) (x : A) (a b : B) :
  match l ++ [x] with [] => a | _ :: _ => b end = b.
Proof. destruct l; reflexivity. Qed.

Lemma step_binary_unfold ntoks i tok st d sec l ln :
  get_definition tok = (d, sec) -> is_bin_sec sec = true ->
  definition_eqb d D_Drop = false -> definition_eqb d D_Identifier = false ->
  current_group st = None -> next_last_left st = None ->
  last_left st = Some l -> nth_error (nodes st) l = Some ln -> definition_eqb (n_def ln) D_SideEffect = false ->
  forbidden (prev_sec st) sec (check_for_list st) = false ->
  separated st && forbidden_separated (prev_sig st) sec (check_for_list st) = false ->
  step ntoks i tok st =
    do r2 <- parse_token (length (nodes st)) d (Some l) (nodes st) None (rtl_of sec);
    let '(ns2, parent, tl) := r2 in
    Ok (mkState (ns2 ++ [mkNode d sec parent tl
                           (if Nat.leb ntoks (i + 1) then None else Some (length (nodes st) + 1)) (Some i)])
                (Some (length (nodes st))) (Some (length (nodes st))) false (Some i) None
                (group_stack st) None sec sec false (se_prev st)).
Proof.
  intros Hg Hs Hdrop Hid Hcg Hnll Hll Hln Hse Hforb Hsep.
  destruct st as [ns np ll cfl lt nll gs cg ps psig sep sep_prev]. cbn [nodes next_parent last_left check_for_list
    last_token next_last_left group_stack current_group prev_sec prev_sig separated se_prev] in *.
  subst cg nll ll. unfold step.
  cbn [nodes next_parent last_left check_for_list
    last_token next_last_left group_stack current_group prev_sec prev_sig separated se_prev bind].
  rewrite Hln, Hse. cbn [andb bind]. rewrite Hg.
  cbn [nodes next_parent last_left check_for_list
    last_token next_last_left group_stack current_group prev_sec prev_sig separated se_prev bind].
  rewrite Hforb.
  destruct sec; try discriminate; cbn [negb andb] in *; rewrite Hsep; cbn [rtl_of bind];
  cbn [nodes next_parent last_left check_for_list
    last_token next_last_left group_stack current_group prev_sec prev_sig separated se_prev bind];
  (destruct (parse_token (length ns) d (Some l) ns None _) as [[[ns2 parent] tl]| | |]; cbn [bind]; try reflexivity);
  cbn [nodes next_parent last_left check_for_list
    last_token next_last_left group_stack current_group prev_sec prev_sig separated se_prev bind];
  rewrite Hdrop, Hid; rewrite app_last_match; reflexivity.
Qed.

(* ---- unfolding one loop iteration on a value token (no list pending) ---- *)
Definition atom_def (d : definition) (parent : option nat) (ns : list pnode) : definition :=
  if definition_eqb d D_Identifier then
    match parent with
    | Some p => match nth_error ns p with
                | Some pn => if definition_eqb (n_def pn) D_Access then D_Property else d
                | None => d end
    | None => d
    end
  else d.

Lemma step_value_unfold ntoks i tok st d sec :
  get_definition tok = (d, sec) -> is_atom_sec sec = true -> definition_eqb d D_Drop = false ->
  current_group st = None -> next_last_left st = None -> check_for_list st = false ->
  (last_left st = None \/
   exists l ln, last_left st = Some l /\ nth_error (nodes st) l = Some ln /\
                definition_eqb (n_def ln) D_SideEffect = false) ->
  forbidden (prev_sec st) sec false = false ->
  separated st && forbidden_separated (prev_sig st) sec false = false ->
  step ntoks i tok st =
    do r2 <- parse_token (length (nodes st)) d (last_left st) (nodes st) None false;
    let '(ns2, parent, tl) := r2 in
    Ok (mkState (ns2 ++ [mkNode (atom_def d parent ns2) sec parent tl None (Some i)])
                (next_parent st) (Some (length (nodes st))) false (Some i) None
                (group_stack st) None sec sec false (se_prev st)).
Proof.
  intros Hg Hs Hdrop Hcg Hnll Hcfl Hll Hforb Hsep.
  destruct st as [ns np ll cfl lt nll gs cg ps psig sep sep_prev]. cbn [nodes next_parent last_left check_for_list
    last_token next_last_left group_stack current_group prev_sec prev_sig separated se_prev] in *.
  subst cg nll cfl. unfold step.
  cbn [nodes next_parent last_left check_for_list
    last_token next_last_left group_stack current_group prev_sec prev_sig separated se_prev bind].
  assert (Hadj : match ll with
            | Some li =>
                match nth_error ns li with
                | Some n =>
                    if definition_eqb (n_def n) D_SideEffect && negb (opt_nat_eqb ll None) &&
                       match n_parent n with Some _ => true | None => false end &&
                       match n_left n with Some _ => false | None => true end
                    then Ok (n_parent n, ps, psig)
                    else Ok (ll, ps, psig)
                | None => impl_err
                end
            | None => Ok (ll, ps, psig)
            end = Ok (ll, ps, psig)).
  { destruct Hll as [->|(l & ln & -> & Hln & Hse)]; [reflexivity|]. rewrite Hln, Hse. reflexivity. }
  rewrite Hadj. cbn [bind]. rewrite Hg.
  cbn [nodes next_parent last_left check_for_list
    last_token next_last_left group_stack current_group prev_sec prev_sig separated se_prev bind].
  rewrite Hforb.
  destruct sec; try discriminate; cbn [negb andb] in *; rewrite Hsep; cbn [bind];
  cbn [nodes next_parent last_left check_for_list
    last_token next_last_left group_stack current_group prev_sec prev_sig separated se_prev bind];
  (destruct (parse_token (length ns) d ll ns None false) as [[[ns2 parent] tl]| | |]; cbn [bind]; try reflexivity);
  cbn [nodes next_parent last_left check_for_list
    last_token next_last_left group_stack current_group prev_sec prev_sig separated se_prev bind];
  rewrite Hdrop; rewrite app_last_match; reflexivity.
Qed.

(* ---- parse_token for a value arriving while the innermost frame waits for it ---- *)
Lemma upd_id {A} (l : list A) k f x : nth_error l k = Some x -> f x = x -> upd l k f = Some l.
Proof.
  revert k. induction l as [|a r IH]; intros k H E; destruct k; simpl in *; try discriminate.
  - injection H as ->. rewrite E. reflexivity.
  - rewrite (IH k H E). reflexivity.
Qed.

Lemma parse_token_pending ns fs d :
  spine ns fs (length ns) -> frames_ok fs -> priority d = Some 10%N ->
  definition_eqb d D_SideEffect = false ->
  parse_token (length ns) d (top_id fs) ns None false = Ok (ns, top_id fs, None).
Proof.
  intros Sp FO Hp Hse. unfold parse_token, prio_of. rewrite Hp, Hse. cbn [bind].
  destruct fs as [|f r]; [reflexivity|]. remember (S (length ns)) as fuel eqn:Efuel.
  simpl in Sp. destruct Sp as [S1 S2].
  destruct (frame_node_walk _ _ _ _ S1) as (nf & Hnf & Hdf & Hpf & Hrf & Hsf).
  destruct (frame_def_facts _ (FO f (or_introl eq_refl))) as (their & q & Hth & _ & Hgt & _).
  cbn [top_id walk]. rewrite Hnf. unfold prio_of. rewrite Hdf, Hth. cbn [bind].
  rewrite Hsf. cbn [andb negb]. rewrite andb_false_r.
  apply N.ltb_lt in Hgt. rewrite Hgt. cbn [andb orb bind].
  rewrite !opt_nat_eqb_refl. cbn [bind]. rewrite Hnf.
  rewrite (upd_id ns (frame_id f) (set_right (Some (length ns))) nf Hnf);
    [|destruct nf; simpl in Hrf; subst; reflexivity].
  rewrite Hrf. rewrite upd_none by lia. reflexivity.
Qed.

(* ---- the loop state as a spine-machine state ---- *)
Definition pending_prev (s : secondary) : Prop :=
  s = S_None \/ is_bin_sec s = true \/ s = S_UnaryPrefix.

Record scalars (st : pstate) : Prop := mkScalars {
  sc_cg : current_group st = None;
  sc_gs : group_stack st = [];
  sc_nll : next_last_left st = None;
  sc_cfl : check_for_list st = false;
  sc_sep : separated st = false
}.

(* an operand is expected: the innermost frame waits for the node [length nodes] *)
Record pend (st : pstate) (fs : list frame) : Prop := mkPend {
  pd_spine : spine (nodes st) fs (length (nodes st));
  pd_ford : fordered fs (length (nodes st));
  pd_ll : last_left st = top_id fs;
  pd_np : next_parent st = top_id fs;
  pd_cover : forall j, j < length (nodes st) -> frames_have fs j;
  pd_bottom : bottom_lo fs (length (nodes st)) = 0;
  pd_fok : frames_ok fs;
  pd_sc : scalars st;
  pd_prev : pending_prev (prev_sec st)
}.

(* an operand [t] has just been completed below the frames [fs] *)
Record compl (st : pstate) (fs : list frame) (t : ntree) : Prop := mkCompl {
  cp_linked : linked (nodes st) fs t;
  cp_closed : closed_operand t;
  cp_ll : last_left st = Some (nid t);
  cp_cover : forall j, j < length (nodes st) -> frames_have fs j \/ has_id t j;
  cp_bottom : bottom_lo fs (lo t) = 0;
  cp_fok : frames_ok fs;
  cp_sc : scalars st;
  cp_prev : ends_value (prev_sec st) = true
}.

Lemma init_pend : pend init_state [].
Proof.
  constructor; simpl; auto.
  - intros j Hj. lia.
  - intros f [].
  - constructor; reflexivity.
  - left. reflexivity.
Qed.

(* value tokens *)
Definition value_tok_ok (t : token_type) : bool :=
  negb (is_value_tok t) ||
  (let '(d, sec) := get_definition t in
   definition_eqb d (ref_def t) && is_atom_sec sec && negb (definition_eqb d D_Drop) &&
   negb (definition_eqb d D_SideEffect) &&
   match priority d with Some p => N.eqb p 10 | None => false end &&
   definition_eqb (norm_atom d) d &&
   (negb (definition_eqb d D_Identifier) || (definition_eqb (ref_def t) D_Identifier))).

Lemma value_toks_ok : forallb value_tok_ok all_token_type = true.
Proof. vm_compute. reflexivity. Qed.

Lemma value_tok_facts t : is_value_tok t = true ->
  exists sec, get_definition t = (ref_def t, sec) /\ is_atom_sec sec = true /\
              definition_eqb (ref_def t) D_Drop = false /\
              definition_eqb (ref_def t) D_SideEffect = false /\ priority (ref_def t) = Some 10%N /\
              norm_atom (ref_def t) = ref_def t /\
              (definition_eqb (ref_def t) D_Identifier = false \/ ref_def t = D_Identifier).
Proof.
  intros Hv. pose proof value_toks_ok as F. rewrite forallb_forall in F.
  specialize (F t (all_tokens_in t)). unfold value_tok_ok in F. rewrite Hv in F.
  change (negb true || ?x) with x in F.
  destruct (get_definition t) as [d sec] eqn:Eg.
  apply andb_true_iff in F. destruct F as [F F6].
  apply andb_true_iff in F. destruct F as [F F5].
  apply andb_true_iff in F. destruct F as [F F4].
  apply andb_true_iff in F. destruct F as [F F3'].
  apply andb_true_iff in F. destruct F as [F F3].
  apply andb_true_iff in F. destruct F as [F1 F2].
  apply definition_eqb_eq in F1. subst d.
  exists sec. split; [reflexivity|]. split; [exact F2|]. split; [apply negb_true_iff; exact F3|].
  split; [apply negb_true_iff; exact F3'|].
  split.
  { destruct (priority (ref_def t)) as [p|]; [|discriminate]. apply N.eqb_eq in F4. subst p. reflexivity. }
  split; [apply definition_eqb_eq; exact F5|].
  apply orb_true_iff in F6. destruct F6 as [F6|F6].
  - left. apply negb_true_iff. exact F6.
  - right. apply definition_eqb_eq. exact F6.
Qed.

Lemma frames_have_lt_top fs b j : fordered fs b -> frames_have fs j -> j < b.
Proof. apply frames_have_lt. Qed.

Theorem step_value ntoks i tok st fs :
  pend st fs -> is_value_tok tok = true ->
  exists st', step ntoks i tok st = Ok st' /\
              compl st' fs (NAtom (length (nodes st)) (ref_def tok) i) /\
              length (nodes st') = S (length (nodes st)).
Proof.
  intros P Hv. destruct P as [Sp F Hll Hnp Cov Bot FO [Hcg Hgs Hnll Hcfl Hsep] Hprev].
  destruct (value_tok_facts tok Hv) as (sec & Hg & Hs & Hdrop & Hse0 & Hprio & Hnorm & Hident).
  assert (Hforb : forbidden (prev_sec st) sec false = false).
  { destruct Hprev as [->|[Hb| ->]].
    - destruct sec; try discriminate; reflexivity.
    - destruct (prev_sec st); try discriminate; destruct sec; try discriminate; reflexivity.
    - destruct sec; try discriminate; reflexivity. }
  rewrite (step_value_unfold ntoks i tok st (ref_def tok) sec Hg Hs Hdrop Hcg Hnll Hcfl).
  2:{ rewrite Hll. destruct fs as [|f r]; [left; reflexivity|right].
      simpl in Sp. destruct Sp as [S1 _]. destruct (frame_node_walk _ _ _ _ S1) as (nf & Hnf & Hdf & _).
      destruct (frame_def_facts _ (FO f (or_introl eq_refl))) as (their & q & _ & _ & _ & Hse).
      exists (frame_id f), nf. rewrite Hdf. auto. }
  2:{ exact Hforb. }
  2:{ rewrite Hsep. reflexivity. }
  rewrite Hll, (parse_token_pending _ _ _ Sp FO Hprio Hse0). cbn [bind].
  eexists. split; [reflexivity|]. split; [|cbn [nodes]; rewrite app_length; simpl; lia].
  set (nd := mkNode (atom_def (ref_def tok) (top_id fs) (nodes st)) sec (top_id fs) None None (Some i)).
  assert (Hat : atom_node nd (ref_def tok) i (top_id fs)).
  { unfold atom_node, nd. cbn [n_sec n_def n_parent n_left n_right n_tok]. split; [exact Hs|].
    assert (Hd : (atom_def (ref_def tok) (top_id fs) (nodes st) = ref_def tok) \/
                 (atom_def (ref_def tok) (top_id fs) (nodes st) = D_Property /\ ref_def tok = D_Identifier)).
    { unfold atom_def. destruct Hident as [E|E].
      - rewrite E. left. reflexivity.
      - rewrite E. cbn [definition_eqb definition_index N.eqb Pos.eqb].
        destruct (top_id fs) as [p|]; [|left; reflexivity].
        destruct (nth_error (nodes st) p) as [pn|]; [|left; reflexivity].
        destruct (definition_eqb (n_def pn) D_Access); [right; split; reflexivity|left; reflexivity]. }
    destruct Hd as [->|[-> E]].
    - repeat split; auto.
    - rewrite E. repeat split; reflexivity. }
  constructor; cbn [nodes last_left prev_sec].
  - constructor; cbn [nid lo].
    + eapply spine_ext; [|exact Sp]. intros j Hj. apply nth_error_app_old.
      eapply frames_have_lt; eauto.
    + simpl. exists nd. split; [apply nth_error_app_new|exact Hat].
    + exact F.
    + exact I.
  - exact I.
  - reflexivity.
  - intros j Hj. rewrite app_length in Hj. simpl in Hj.
    destruct (Nat.eq_dec j (length (nodes st))) as [->|Hne]; [right; reflexivity|left; apply Cov; lia].
  - exact Bot.
  - exact FO.
  - constructor; cbn [current_group group_stack next_last_left check_for_list separated]; auto.
  - destruct sec; try discriminate; reflexivity.
Qed.

Lemma prio10_not_side_effect d : priority d = Some 10%N -> definition_eqb d D_SideEffect = false.
Proof. destruct d; intros H; try reflexivity; vm_compute in H; discriminate H. Qed.

Lemma closed_operand_root ns p t :
  denotes ns p t -> closed_operand t ->
  exists n, nth_error ns (nid t) = Some n /\ definition_eqb (n_def n) D_SideEffect = false.
Proof.
  destruct t as [i d k|i d k a|i d k a|i d k l r]; simpl; try tauto.
  - intros (n & Hn & A) _. exists n. split; [exact Hn|]. apply prio10_not_side_effect. apply A.
  - intros (n & Hn & A) [_ Hse]. exists n. split; [exact Hn|].
    destruct A as (_ & -> & _). exact Hse.
Qed.

Theorem step_binary ntoks i tok st fs t :
  compl st fs t -> is_binary_tok tok = true -> i + 1 < ntoks ->
  exists st' fs' t',
    pop (ref_def tok) fs t = (fs', t') /\ step ntoks i tok st = Ok st' /\
    pend st' (FBin (length (nodes st)) (ref_def tok) (Some i) t' :: fs') /\
    length (nodes st') = S (length (nodes st)).
Proof.
  intros C Hb Hi. destruct C as [L Cl Hll Cov Bot FO [Hcg Hgs Hnll Hcfl Hsep] Hprev].
  destruct (binary_tok_facts tok Hb) as (sec & my & p & BF).
  destruct (pop (ref_def tok) fs t) as [fs' t'] eqn:Hpop.
  destruct (closed_operand_root _ _ _ (lk_den _ _ _ L) Cl) as (ln & Hln & Hse).
  assert (Hforb : forbidden (prev_sec st) sec (check_for_list st) = false).
  { rewrite Hcfl. pose proof (bf_sec _ _ _ _ BF) as Hs.
    destruct (prev_sec st); try discriminate; destruct sec; try discriminate; reflexivity. }
  rewrite (step_binary_unfold ntoks i tok st (ref_def tok) sec (nid t) ln
             (bf_def _ _ _ _ BF) (bf_sec _ _ _ _ BF) (bf_drop _ _ _ _ BF) (bf_ident _ _ _ _ BF)
             Hcg Hnll Hll Hln Hse Hforb ltac:(rewrite Hsep; reflexivity)).
  destruct (parse_token_linked (nodes st) fs t (ref_def tok) my (rtl_of sec) fs' t' L Cl
              (bf_prio _ _ _ _ BF) (bf_se _ _ _ _ BF) (bf_atom _ _ _ _ BF)
              (compat_of_facts _ _ _ _ fs BF FO) Hpop) as (ns' & Hpt & Hlen & Sp' & D' & _).
  rewrite Hpt. cbn [bind].
  destruct (Nat.leb_spec ntoks (i + 1)) as [Hle|_]; [lia|].
  replace (length (nodes st) + 1) with (S (length (nodes st))) by lia.
  eexists. exists fs', t'. split; [reflexivity|]. split; [reflexivity|].
  pose proof (pop_linked _ _ _ _ _ _ L Hpop) as L'. destruct L' as [_ D0 F' O'].
  set (len := length (nodes st)) in *.
  set (nd := mkNode (ref_def tok) sec (top_id fs') (Some (nid t')) (Some (S len)) (Some i)).
  assert (Hhi : hi t' < len).
  { assert (has_id t' (hi t')) as Hh by (clear; induction t'; simpl; auto).
    rewrite <- Hlen. eapply denotes_lt; eauto. }
  split; [|cbn [nodes]; rewrite app_length, Hlen; simpl; lia].
  constructor; cbn [nodes last_left next_parent prev_sec]; rewrite ?app_length, ?Hlen; cbn [length];
    replace (len + 1) with (S len) by lia.
  - (* spine *)
    simpl. split.
    + exists nd. split; [rewrite <- Hlen; apply nth_error_app_new|].
      split; [split; [reflexivity|left; split; [exact (bf_sec _ _ _ _ BF)|exists i; split; reflexivity]]|].
      split; [reflexivity|]. split; [reflexivity|]. split; [reflexivity|].
      eapply denotes_ext; [|exact D']. intros j Hj. apply nth_error_app_old.
      eapply denotes_lt; eauto.
    + eapply spine_ext; [|exact Sp']. intros j Hj. apply nth_error_app_old. rewrite Hlen.
      pose proof (frames_have_lt _ _ _ F' Hj) as R. pose proof (ordered_lo_hi t' O') as R2. lia.
  - simpl. split; [lia|]. split; [split; [exact O'|exact Hhi]|exact F'].
  - reflexivity.
  - reflexivity.
  - intros j Hj. simpl. destruct (Nat.eq_dec j len) as [->|Hne]; [left; left; reflexivity|].
    destruct (proj2 (pop_has _ _ _ _ _ Hpop j) (Cov j ltac:(lia))) as [H|H]; [right; exact H|left; right; exact H].
  - simpl. rewrite (pop_bottom _ _ _ _ _ Hpop). exact Bot.
  - intros f [<-|Hf]; [exact (bf_frame _ _ _ _ BF)|]. eapply pop_frames_ok; eauto.
  - constructor; cbn [current_group group_stack next_last_left check_for_list separated]; auto.
  - right. left. exact (bf_sec _ _ _ _ BF).
Qed.
