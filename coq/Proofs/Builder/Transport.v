(* The inductive theorems of C05 / C06 / C20, proved on the tree compiler,
   carried over to the worklist model of build() by build_compile
   (Proofs/Builder/RootsSim.v): a successful build of a proper tree IS the tree
   compiler's result. *)
From Coq Require Import List Arith Bool NArith.
From GV Require Import Base.Result Gen.TokenTypes Gen.Defs Gen.Instr Model.Parser Model.BuilderWL Model.Compile
  Spec.WfCode Spec.Depth Spec.Reloc Proofs.C05.Known Proofs.C05.Operands Proofs.C05.Statements
  Proofs.C06.Balanced Proofs.C06.StaticFull Proofs.C20.Bounded Proofs.C20.Statements
  Proofs.Builder.BState Proofs.Builder.RootsSim Proofs.Builder.ValidTree Proofs.Builder.NoForeign.
Import ListNotations.

(* the statement of the link itself, in the vocabulary of the property files *)
Lemma compile_agrees_full_proof : forall nodes root t init lit fuel r,
  tree_of nodes root = Some t ->
  build nodes init lit fuel root = Ok r ->
  compile init lit t = Ok (mkC (instrs (fst r)) (meta (fst r)) (jumps (fst r)), snd r).
Proof. intros nodes root t init lit fuel [sb e] Ht Hb. exact (build_compile nodes init lit root t fuel sb e Ht Hb). Qed.

Lemma compile_same_code_proof : forall nodes root t init lit fuel r,
  tree_of nodes root = Some t -> build nodes init lit fuel root = Ok r ->
  exists c, compile init lit t = Ok c /\ same_code c r = true.
Proof.
  intros nodes root t init lit fuel r Ht Hb. eexists. split; [exact (compile_agrees_full_proof _ _ _ _ _ _ _ Ht Hb)|].
  unfold same_code. cbn [fst snd ci cm cj]. rewrite !Nat.eqb_refl. cbn [andb].
  assert (G1 : forall l : list instr, forallb (fun p => instr_eqb (fst p) (snd p)) (combine l l) = true).
  { induction l as [|[i o] l IH]; [reflexivity|]. cbn [combine forallb fst snd]. rewrite IH, andb_true_r.
    unfold instr_eqb. cbn [fst snd]. apply andb_true_iff. split.
    - destruct i; reflexivity.
    - destruct o; cbn; try reflexivity; apply Nat.eqb_refl. }
  assert (G2 : forall l : list (option nat), forallb (fun p => opt_nat_eqb (fst p) (snd p)) (combine l l) = true).
  { induction l as [|o l IH]; [reflexivity|]. cbn [combine forallb fst snd]. rewrite IH, andb_true_r.
    destruct o; cbn; [apply Nat.eqb_refl | reflexivity]. }
  assert (G3 : forall l : list nat, forallb (fun p => Nat.eqb (fst p) (snd p)) (combine l l) = true).
  { induction l as [|o l IH]; [reflexivity|]. cbn [combine forallb fst snd]. rewrite IH, andb_true_r. apply Nat.eqb_refl. }
  rewrite G1, G2, G3. reflexivity.
Qed.

Lemma C05_full_builder_proof : forall nodes root t init lit fuel r,
  tree_of nodes root = Some t -> ~ Known_C05_K2 t ->
  build nodes init lit fuel root = Ok r -> wf_code nodes init (code_of_build r).
Proof.
  intros nodes root t init lit fuel r Ht H2 Hb.
  exact (C05_full_proof nodes root t init lit _ Ht H2 (compile_agrees_full_proof _ _ _ _ _ _ _ Ht Hb)).
Qed.

Lemma C05_operands_meta_builder_proof : forall nodes root t init lit fuel r,
  tree_of nodes root = Some t -> build nodes init lit fuel root = Ok r ->
  operands_wf nodes init (code_of_build r) /\ meta_wf nodes (code_of_build r).
Proof.
  intros nodes root t init lit fuel r Ht Hb.
  exact (C05_operands_meta_all_trees_proof nodes root t init lit _ Ht (compile_agrees_full_proof _ _ _ _ _ _ _ Ht Hb)).
Qed.

Lemma C06_static_full_builder_proof : forall nodes root t init lit fuel r,
  tree_of nodes root = Some t -> balanced t = true ->
  build nodes init lit fuel root = Ok r ->
  let p := prog_of_build init r in
  exists d, typed p d /\ ends_at_one p d /\ exists e, pjump p (snd r) = Some e /\ d e = Some (0, 0).
Proof.
  intros nodes root t init lit fuel r Ht Hbal Hb.
  exact (C06_static_full_proof init lit t _ Hbal (compile_agrees_full_proof _ _ _ _ _ _ _ Ht Hb)).
Qed.

Lemma C20_frame_full_builder_proof : forall nodes root t init lit fuel r,
  tree_of nodes root = Some t -> ~ Known_C05_K2 t ->
  build nodes init lit fuel root = Ok r -> own_code init (code_of_build r) = true.
Proof.
  intros nodes root t init lit fuel r Ht H2 Hb.
  exact (C20_frame_full_proof nodes root t init lit _ Ht H2 (compile_agrees_full_proof _ _ _ _ _ _ _ Ht Hb)).
Qed.

Lemma C20_own_jump_refs_builder_proof : forall nodes root t init lit fuel r,
  tree_of nodes root = Some t -> build nodes init lit fuel root = Ok r ->
  forallb (own_ref (i_jump_len init) (i_jump_len init + length (jumps (fst r)))) (instrs (fst r)) = true /\
  in_range (i_jump_len init) (i_jump_len init + length (jumps (fst r))) (snd r) = true.
Proof.
  intros nodes root t init lit fuel r Ht Hb.
  exact (C20_own_jump_refs_all_trees_proof nodes root t init lit _ Ht (compile_agrees_full_proof _ _ _ _ _ _ _ Ht Hb)).
Qed.

Lemma C20_relocated_full_builder_proof : forall nodes root t init lit fuel fuel0 r r0,
  tree_of nodes root = Some t -> ~ Known_C05_K2 t ->
  build nodes init lit fuel root = Ok r -> build nodes empty_init lit fuel0 root = Ok r0 ->
  relocated init (code_of_build r0) (code_of_build r) = true.
Proof.
  intros nodes root t init lit fuel fuel0 r r0 Ht H2 Hb Hb0.
  exact (C20_relocated_full_proof nodes root t init lit _ _ Ht H2
           (compile_agrees_full_proof _ _ _ _ _ _ _ Ht Hb) (compile_agrees_full_proof _ _ _ _ _ _ _ Ht Hb0)).
Qed.

(* ---- for everything the parser model accepts ---- *)
Lemma validate_tree_of_proof : forall nodes root, validate_tree nodes root = Ok tt -> exists t, tree_of nodes root = Some t.
Proof. exact validate_tree_of. Qed.

Lemma parse_tree_of_proof : forall toks root nodes,
  parse toks = Ok (root, nodes) -> nodes = [] \/ exists t, tree_of nodes root = Some t.
Proof. exact parse_tree_of. Qed.

Lemma compile_agrees_parsed_proof : forall toks root nodes,
  parse toks = Ok (root, nodes) -> nodes <> [] ->
  exists t, tree_of nodes root = Some t /\
    forall init lit fuel r, build nodes init lit fuel root = Ok r ->
      compile init lit t = Ok (mkC (instrs (fst r)) (meta (fst r)) (jumps (fst r)), snd r).
Proof.
  intros toks root nodes Hp Hne. destruct (parse_tree_of _ _ _ Hp) as [E|[t Ht]]; [contradiction|].
  exists t. split; [exact Ht|]. intros init lit fuel r Hb. exact (compile_agrees_full_proof _ _ _ _ _ _ _ Ht Hb).
Qed.

Lemma C05_full_parsed_proof : forall toks root nodes,
  parse toks = Ok (root, nodes) -> nodes <> [] ->
  exists t, tree_of nodes root = Some t /\
    forall init lit fuel r, ~ Known_C05_K2 t ->
      build nodes init lit fuel root = Ok r -> wf_code nodes init (code_of_build r).
Proof.
  intros toks root nodes Hp Hne. destruct (parse_tree_of _ _ _ Hp) as [E|[t Ht]]; [contradiction|].
  exists t. split; [exact Ht|]. intros init lit fuel r H2 Hb. exact (C05_full_builder_proof _ _ _ _ _ _ _ Ht H2 Hb).
Qed.

Lemma C06_static_full_parsed_proof : forall toks root nodes,
  parse toks = Ok (root, nodes) -> nodes <> [] ->
  exists t, tree_of nodes root = Some t /\
    (balanced t = true -> forall init lit fuel r, build nodes init lit fuel root = Ok r ->
       let p := prog_of_build init r in
       exists d, typed p d /\ ends_at_one p d /\ exists e, pjump p (snd r) = Some e /\ d e = Some (0, 0)).
Proof.
  intros toks root nodes Hp Hne. destruct (parse_tree_of _ _ _ Hp) as [E|[t Ht]]; [contradiction|].
  exists t. split; [exact Ht|]. intros Hbal init lit fuel r Hb. exact (C06_static_full_builder_proof _ _ _ _ _ _ _ Ht Hbal Hb).
Qed.

Lemma C20_relocated_full_parsed_proof : forall toks root nodes,
  parse toks = Ok (root, nodes) -> nodes <> [] ->
  exists t, tree_of nodes root = Some t /\
    forall init lit fuel fuel0 r r0, ~ Known_C05_K2 t ->
      build nodes init lit fuel root = Ok r -> build nodes empty_init lit fuel0 root = Ok r0 ->
      relocated init (code_of_build r0) (code_of_build r) = true /\ own_code init (code_of_build r) = true.
Proof.
  intros toks root nodes Hp Hne. destruct (parse_tree_of _ _ _ Hp) as [E|[t Ht]]; [contradiction|].
  exists t. split; [exact Ht|]. intros init lit fuel fuel0 r r0 H2 Hb Hb0. split.
  - exact (C20_relocated_full_builder_proof _ _ _ _ _ _ _ _ _ Ht H2 Hb Hb0).
  - exact (C20_frame_full_builder_proof _ _ _ _ _ _ _ Ht H2 Hb).
Qed.

Lemma C20_no_foreign_jump_builder_proof : forall nodes init lit fuel root,
  build nodes init lit fuel root <> Err E_foreign_jump.
Proof. exact build_no_foreign_jump. Qed.
