(* The only thing the builder reads of what the data object already holds is
   its last instruction, and only to decide whether the EndExpression of a body
   that emitted nothing is a repetition: apart from that case the build does
   not depend on it. *)
From Coq Require Import List Arith Bool NArith Lia.
From GV Require Import Base.Result Gen.TokenTypes Gen.Defs Gen.Instr Model.Parser Model.BuilderWL Model.Compile
  Spec.WfCode Spec.Reloc Proofs.C05.InlBase Proofs.C05.Known Proofs.C05.Operands Proofs.C05.Jumps Proofs.C20.Relocate.
Import ListNotations.

Lemma seq2_ext : forall a a' f f',
  a = a' -> (forall s1 p1 i1, a = Ok (s1, p1, i1) -> f s1 = f' s1) -> seq2 a f = seq2 a' f'.
Proof.
  intros a a' f f' Ha Hf. subst a'. destruct a as [[[s1 p1] i1]|e|x|]; cbn; try reflexivity.
  rewrite (Hf s1 p1 i1 eq_refl). reflexivity.
Qed.

Lemma bind_ext : forall X Y (a a' : res X) (g g' : X -> res Y),
  a = a' -> (forall o, g o = g' o) -> bind a g = bind a' g'.
Proof. intros X Y a a' g g' Ha Hg. subst a'. destruct a; cbn; auto. Qed.

Section Same.
Variable A B : binit.
Variable lit_ok : nat -> bool.
Hypothesis Hi : i_instr_len A = i_instr_len B.
Hypothesis Hj : i_jump_len A = i_jump_len B.

Lemma il_same : forall s, il A s = il B s. Proof. intros. unfold il. rewrite Hi. reflexivity. Qed.
Lemma jl_same : forall s, jl A s = jl B s. Proof. intros. unfold jl. rewrite Hj. reflexivity. Qed.

Theorem inl_same : forall t rj cx s, inl A lit_ok rj t cx s = inl B lit_ok rj t cx s.
Proof.
  induction t as [ix d l r IHl IHr] using tree_ind'.
  intros rj cx s. cbn [inl]. cbv zeta.
  destruct (kind_of d) eqn:Hk.
  all: destruct l as [lt|]; destruct r as [rt|].
  all: rewrite ?il_same, ?jl_same.
  all: repeat match goal with
              | |- seq2 _ _ = seq2 _ _ => apply seq2_ext; [ | intros ?s1 ?p1 ?i1 ?Hs1 ]
              | |- drop_items _ = drop_items _ => f_equal
              | |- bind _ _ = bind _ _ => apply bind_ext; [ | intros [[?s2 ?ps] ?its] ]
              | |- context [if ?b then _ else _] => destruct b eqn:?
              | |- inl A lit_ok _ ?a _ _ = inl B lit_ok _ ?a _ _ =>
                first [ eapply IHl; reflexivity | eapply IHr; reflexivity ]
              end.
  all: rewrite ?il_same, ?jl_same.
  all: try reflexivity.
Qed.

Lemma patch_same : forall s j x, patch A s j x = patch B s j x.
Proof. intros. unfold patch. rewrite Hj. reflexivity. Qed.

Lemma last_instr_same : forall s, ci s <> [] -> last_instr A s = last_instr B s.
Proof.
  intros s Hn. unfold last_instr. destruct (rev (ci s)) eqn:E; [|reflexivity].
  exfalso. apply Hn. rewrite <- (rev_involutive (ci s)), E. reflexivity.
Qed.

Lemma finish_same : forall s ends, ci s <> [] -> finish A s ends = finish B s ends.
Proof. intros s ends Hn. unfold finish. rewrite (last_instr_same s Hn), il_same. reflexivity. Qed.

Lemma il_pos_ci : forall s, il B s <> i_instr_len B -> ci s <> [].
Proof. intros s H Hc. apply H. unfold il. rewrite Hc. cbn [length]. lia. Qed.

Lemma run_body_same : forall fuel p s, il B s <> i_instr_len B ->
  run_body A lit_ok fuel p s = run_body B lit_ok fuel p s.
Proof.
  induction fuel as [|f IH]; intros p s Hpos; [reflexivity|].
  cbn [run_body]. rewrite il_same, patch_same.
  destruct (patch B s (p_jump p) (il B s)) as [s1|e|x|] eqn:Ep; cbn [bind]; try reflexivity.
  rewrite inl_same.
  destruct (inl B lit_ok (p_jump p) (p_tree p) (plain (p_containing p)) s1) as [[[s2 ps] its]|e|x|] eqn:Ei; cbn [bind]; try reflexivity.
  destruct (patch_ok B _ _ _ _ Ep) as [_ [Hci _]].
  pose proof (ext_il B _ _ (inl_ext B lit_ok _ _ _ _ _ _ _ Ei)) as E12.
  assert (Hil1 : il B s1 = il B s) by (unfold il; rewrite Hci; reflexivity).
  assert (Hn2 : ci s2 <> []) by (apply il_pos_ci; unfold il in *; lia).
  rewrite (finish_same s2 (p_end p) Hn2).
  assert (Hpos3 : il B (finish B s2 (p_end p)) <> i_instr_len B).
  { assert (il B s2 <= il B (finish B s2 (p_end p))); [|unfold il in *; lia].
    unfold finish. generalize (last_instr B s2). intros last. generalize (existsb (Nat.eqb (il B s2)) (cj s2)). intros tg.
    generalize (p_end p). intros ends.
    assert (G : forall acc, il B s2 <= il B acc ->
                il B s2 <= il B (fold_left (fun acc e => match last with
                  | Some li => if instr_eqb li e && instruction_eqb (fst e) I_EndExpression && negb tg then acc else emit acc e None
                  | None => emit acc e None end) ends acc)).
    { induction ends as [|e ends IHe]; intros acc Ha; cbn [fold_left]; [exact Ha|].
      destruct last as [li|]; [destruct (instr_eqb li e && instruction_eqb (fst e) I_EndExpression && negb tg)|];
        apply IHe; rewrite ?il_emit; lia. }
    apply G. lia. }
  generalize (finish B s2 (p_end p)) Hpos3. generalize (rev ps). clear -IH Hi Hj.
  induction l as [|q l IHl]; intros s0 Hp0; [reflexivity|].
  cbn [fold_left bind]. rewrite (IH q s0 Hp0).
  destruct (run_body B lit_ok f q s0) as [sq|e|x|] eqn:Eq.
  - apply IHl. destruct (run_body_mono lit_ok B _ _ _ _ Eq) as [Hm _]. unfold il in *; lia.
  - clear. induction l; cbn; auto.
  - clear. induction l; cbn; auto.
  - clear. induction l; cbn; auto.
Qed.

End Same.

(* building into an object with empty tables whose last instruction is [L]
   equals building into the empty object: a first body that emits nothing has
   its entry at the end of the stream, so its EndExpression is never skipped *)
Theorem compile_last_irrelevant : forall L lit_ok t,
  compile (mkInit 0 0 L) lit_ok t = compile empty_init lit_ok t.
Proof.
  intros L lit_ok t. unfold compile.
  set (A := mkInit 0 0 L). set (B := empty_init).
  assert (Hi : i_instr_len A = i_instr_len B) by reflexivity.
  assert (Hj : i_jump_len A = i_jump_len B) by reflexivity.
  rewrite (il_same A B Hi). change (i_jump_len A) with (i_jump_len B).
  rewrite (inl_same A B lit_ok Hi Hj).
  set (s1 := new_jump (mkC [] [] []) (il B (mkC [] [] []))).
  destruct (inl B lit_ok (i_jump_len B) t (plain (i_jump_len B)) s1) as [[[s2 ps] its]|e|x|] eqn:Ei; cbn [bind]; try reflexivity.
  pose proof (ext_il B _ _ (inl_ext B lit_ok _ _ _ _ _ _ _ Ei)) as E12.
  assert (Hil1 : il B s1 = 0) by reflexivity.
  assert (Hfin : finish A s2 default_end = finish B s2 default_end).
  { destruct (ci s2) as [|c0 cs] eqn:Ec.
    - (* nothing emitted: the entry names the end of the stream, the EndExpression is emitted whatever L is *)
      destruct (inl_ext B lit_ok _ _ _ _ _ _ _ Ei) as [a0 [b0 [c0 [_ [_ [Hcj0 _]]]]]].
      assert (TA : existsb (Nat.eqb (il A s2)) (cj s2) = true).
      { rewrite Hcj0. unfold il. rewrite Ec. reflexivity. }
      assert (TB : existsb (Nat.eqb (il B s2)) (cj s2) = true).
      { rewrite Hcj0. unfold il. rewrite Ec. reflexivity. }
      unfold finish, default_end. cbn [fold_left]. rewrite TA, TB. cbn [negb].
      destruct (last_instr A s2); destruct (last_instr B s2); rewrite ?andb_false_r; reflexivity.
    - apply finish_same; [exact Hi | rewrite Ec; discriminate]. }
  rewrite Hfin.
  destruct ps as [|q ps'].
  - reflexivity.
  - assert (Hg : il B s1 < il B s2) by (apply (proj1 (inl_grow B lit_ok _ _ _ _ _ _ _ Ei)); left; discriminate).
    assert (Hpos3 : il B (finish B s2 default_end) <> i_instr_len B).
    { destruct (run_body_mono_finish (mkInit 0 0 None) s2 default_end) as [Hm _].
      change (il (init0 (mkInit 0 0 None))) with (il B) in Hm. change (finish (init0 (mkInit 0 0 None))) with (finish B) in Hm.
      cbn [B empty_init i_instr_len]. lia. }
    assert (G : forall l s0, il B s0 <> i_instr_len B ->
                fold_left (fun (acc : res cst) (q : pend) => do a <- acc; run_body A lit_ok (size t) q a) l (Ok s0) =
                fold_left (fun (acc : res cst) (q : pend) => do a <- acc; run_body B lit_ok (size t) q a) l (Ok s0)).
    { induction l as [|q0 l IHl]; intros s0 Hp0; [reflexivity|].
      cbn [fold_left bind]. rewrite (run_body_same A B lit_ok Hi Hj (size t) q0 s0 Hp0).
      destruct (run_body B lit_ok (size t) q0 s0) as [sq|e|x|] eqn:Eq.
      - apply IHl. destruct (run_body_mono lit_ok B _ _ _ _ Eq) as [Hm _]. unfold il in *; cbn [B empty_init i_instr_len] in *; lia.
      - clear. induction l; cbn; auto.
      - clear. induction l; cbn; auto.
      - clear. induction l; cbn; auto. }
    rewrite (G (rev (q :: ps')) (finish B s2 default_end) Hpos3). reflexivity.
Qed.
