(* Extraction of the comparison model for the correspondence check (C12).
   ExtrOcamlBasic only; positive/N/Z stay Coq datatypes. No Extract Constant. *)
Require Import ExtrOcamlBasic.
From Coq Require Import ZArith NArith.
From Flocq Require Import IEEE754.Binary IEEE754.Bits.
From GV Require Import Gen.Instr Gen.CmpTable Model.Num Model.Value Model.Compare Spec.NatOrder.
Cd "../build/ocaml".
Extraction "cmp_model.ml" compare_op exec_compare prim_equal nat_order_exec all_data_type all_cmp_op
  b64_of_bits bits_of_b64.
Cd "../../coq".
