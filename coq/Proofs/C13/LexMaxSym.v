(* (d), second half: Symbol tokens and the three backtick identifier forms.  Instance of
   Proofs.C13.LexMaxGen.

   What the Identifier state of the lexer does (arm_identifier):
   * it is entered with type Identifier on an identifier character that is not numeric
     (alphanumeric, '_' or ':'), or with type SuffixIdentifier on a backtick;
   * identifier characters are appended;
   * a backtick is appended and closes the token: InfixIdentifier if the token started with
     a backtick, PrefixIdentifier otherwise; the character after it starts a fresh token;
   * any other character closes the token before it; an Identifier-typed run that starts with
     ':' and whose second character is not ':' is retyped Symbol (so is the bare ":"). *)
From Coq Require Import NArith List Bool Lia.
From GV Require Import Base.Result Gen.TokenTypes Gen.Tokens Model.Lexer Spec.LexSpec
  Proofs.C13.LexBase Proofs.C13.LexInv Proofs.C13.LexRun Proofs.C13.LexOp Proofs.C13.LexMaxGen
  Proofs.C13.LexMaximal.
Import ListNotations.
Local Open Scope N_scope.

Section Sym.
  Variables un ua : N -> bool.
  Notation is_numeric := (is_numeric un).
  Notation is_alphanumeric := (is_alphanumeric ua).
  Notation idc := (is_identifier_char ua).
  Notation start_token := (start_token un ua).
  Notation run_arm := (run_arm un ua).
  Notation id_shape := (id_shape un ua).
  Notation id_next := (id_next ua).

  (* ':' then identifier characters, the first of which is not ':' *)
  Definition sym_shape (txt : list N) : Prop :=
    exists r, txt = 58 :: r /\ forallb idc r = true /\ match r with c :: _ => c <> 58 | [] => True end.
  (* "`f": a backtick then identifier characters (possibly none) *)
  Definition bt_open (txt : list N) : Prop := exists r, txt = 96 :: r /\ forallb idc r = true.
  (* "`f`" *)
  Definition infix_shape (txt : list N) : Prop := exists r, txt = 96 :: r ++ [96] /\ forallb idc r = true.
  (* "f`": a non-empty run of identifier characters that does not start with a numeric one, then a backtick *)
  Definition prefix_shape (txt : list N) : Prop := exists r, txt = r ++ [96] /\ r <> [] /\ id_shape r.

  Definition TM (ty : option token_type) (txt : list N) (nx : option N) : Prop :=
    (ty = Some TT_Symbol -> sym_shape txt /\ next_not id_next nx) /\
    (ty = Some TT_SuffixIdentifier -> bt_open txt /\ next_not id_next nx) /\
    (ty = Some TT_InfixIdentifier -> infix_shape txt) /\
    (ty = Some TT_PrefixIdentifier -> prefix_shape txt).

  (* none of the four types *)
  Definition noty (o : option token_type) : Prop :=
    o <> Some TT_Symbol /\ o <> Some TT_SuffixIdentifier /\ o <> Some TT_InfixIdentifier /\
    o <> Some TT_PrefixIdentifier.

  Definition Inv (l : lexer) : Prop :=
    (st l = SIdentifier ->
       (cur_ty l = Some TT_Identifier /\ id_shape (cur l)) \/
       (cur_ty l = Some TT_SuffixIdentifier /\ bt_open (cur l))) /\
    (st l <> SIdentifier -> noty (cur_ty l)).

  Lemma Inv_ext : forall l l', cur l = cur l' -> cur_ty l = cur_ty l' -> st l = st l' -> Inv l -> Inv l'.
  Proof. intros l l' E1 E2 E3. unfold Inv. rewrite E1, E2, E3. auto. Qed.

  Lemma noty_none : noty None.
  Proof. repeat split; discriminate. Qed.

  Lemma Inv_idle : forall l, cur l = [] -> cur_ty l = None -> st l = SNoToken -> Inv l.
  Proof.
    intros l E1 E2 E3. unfold Inv. rewrite E1, E2, E3.
    split; [discriminate | intros _; exact noty_none].
  Qed.

  Ltac split_all := repeat match goal with |- _ /\ _ => split end.

  Lemma noty_op : forall p o, current_operator p = Some o -> noty o.
  Proof.
    intros p o H. unfold noty. split_all; intros ->; (eapply op_not_nonop; [exact H | auto with nonop]).
  Qed.

  Lemma TM_noty : forall o txt nx, noty o -> TM o txt nx.
  Proof. intros o txt nx (H1 & H2 & H3 & H4). unfold TM. split_all; intros H; congruence. Qed.

  Lemma noty_ty : forall ty, ty <> TT_Symbol -> ty <> TT_SuffixIdentifier -> ty <> TT_InfixIdentifier ->
    ty <> TT_PrefixIdentifier -> noty (Some ty).
  Proof. intros ty H1 H2 H3 H4. unfold noty. split_all; congruence. Qed.

  (* ------------------------------------------------------------ start_token *)
  Lemma Inv_start : forall l c, result (start_token l c) = None -> Inv (start_token l c).
  Proof.
    intros l c. unfold Lexer.start_token.
    destruct (current_operator _) eqn:Eop.
    - intros _. unfold Inv. cbn. split; [discriminate | intros _; eapply noty_op; exact Eop].
    - repeat break_if; cbn; intros Hr; try discriminate; unfold Inv; cbn;
        (split; [intros Hh; try discriminate Hh | intros Hh; try congruence;
                 try (apply noty_ty; discriminate); try exact noty_none]).
      + left. split; [reflexivity|]. split; cbn; [|assumption].
        match goal with H : is_identifier_char ua c = true |- _ => rewrite H end. reflexivity.
      + right. split; [reflexivity|]. exists [].
        match goal with H : (c =? ch_backtick) = true |- _ => apply N.eqb_eq in H; subst c end.
        split; reflexivity.
  Qed.

  (* -------------------------------------------------------------- state arms *)
  Notation arm_max := (arm_max Inv TM).

  (* arms of states other than Identifier that neither enter the Identifier state nor set one
     of the four types: the type is the old one, or a literal one, the state is not Identifier *)
  Ltac plain Hn Hst :=
    unfold LexMaxGen.arm_max; cbn; rewrite ?Hst;
    first
      [ exact I
      | split; [intros _ nx _ | intros _ nx];
        apply TM_noty; first [exact Hn | apply noty_ty; discriminate]
      | intros _; split;
        [ unfold Inv; cbn; rewrite ?Hst; split;
          [ intros Hh; discriminate Hh
          | intros _; first [exact Hn | apply noty_ty; discriminate] ]
        | intros t Ht; discriminate Ht ] ].

  Ltac other_state arm :=
    intros l c Hwf [Hid Hn] Hres Hst;
    assert (Hn' : noty (cur_ty l)) by (apply Hn; rewrite Hst; discriminate);
    unfold Lexer.run_arm; rewrite Hst; unfold arm;
    repeat break_if; plain Hn' Hst.

  Lemma arm_Number_max : forall l c, WF l -> Inv l -> result l = None -> st l = SNumber -> arm_max l c (run_arm l c).
  Proof. other_state arm_number. Qed.
  Lemma arm_Spaces_max : forall l c, WF l -> Inv l -> result l = None -> st l = SSpaces -> arm_max l c (run_arm l c).
  Proof. other_state arm_spaces. Qed.
  Lemma arm_Subexpression_max : forall l c, WF l -> Inv l -> result l = None -> st l = SSubexpression -> arm_max l c (run_arm l c).
  Proof. other_state arm_subexpression. Qed.
  Lemma arm_Annotation_max : forall l c, WF l -> Inv l -> result l = None -> st l = SAnnotation -> arm_max l c (run_arm l c).
  Proof. other_state arm_annotation. Qed.
  Lemma arm_LineAnnotation_max : forall l c, WF l -> Inv l -> result l = None -> st l = SLineAnnotation -> arm_max l c (run_arm l c).
  Proof. other_state arm_line_annotation. Qed.
  Lemma arm_CharList_max : forall l c, WF l -> Inv l -> result l = None -> st l = SCharList -> arm_max l c (run_arm l c).
  Proof. other_state arm_list. Qed.
  Lemma arm_ByteList_max : forall l c, WF l -> Inv l -> result l = None -> st l = SByteList -> arm_max l c (run_arm l c).
  Proof. other_state arm_list. Qed.
  Lemma arm_StartCharList_max : forall l c, WF l -> Inv l -> result l = None -> st l = SStartCharList -> arm_max l c (run_arm l c).
  Proof. other_state arm_start_list. Qed.
  Lemma arm_StartByteList_max : forall l c, WF l -> Inv l -> result l = None -> st l = SStartByteList -> arm_max l c (run_arm l c).
  Proof. other_state arm_start_list. Qed.

  Lemma arm_Float_max : forall l c, WF l -> Inv l -> result l = None -> st l = SFloat -> arm_max l c (run_arm l c).
  Proof.
    intros l c Hwf [Hid Hn] Hres Hst.
    assert (Hn' : noty (cur_ty l)) by (apply Hn; rewrite Hst; discriminate).
    unfold Lexer.run_arm. rewrite Hst. unfold arm_float.
    destruct (is_number_char un ua c).
    - plain Hn' Hst.
    - destruct ((c =? ch_period) && ends_with ch_period (cur l)) eqn:Esplit.
      + apply andb_true_iff in Esplit as [Hc Hend]. apply N.eqb_eq in Hc. subst c.
        destruct (text_col (set_start_row l (text_row l)) =? 0); [exact I|].
        change ch_period with 46.
        change (push (set_start_col (Lexer.start_token un ua (set_start_row l (text_row l)) 46)
                        (text_col (set_start_row l (text_row l)) - 1)) 46) with (float_split_state un ua l).
        rewrite float_split_state_eq. cbn [cur]. rewrite current_operator_range.
        unfold LexMaxGen.arm_max. intros _. split.
        * unfold Inv; cbn. split; [discriminate | intros _; apply noty_ty; discriminate].
        * intros t Ht. inversion Ht; subst. cbn. exists 46. split; [reflexivity|].
          apply TM_noty. apply noty_ty; discriminate.
      + plain Hn' Hst.
  Qed.

  Lemma arm_Operator_max : forall l c, WF l -> Inv l -> result l = None -> st l = SOperator -> arm_max l c (run_arm l c).
  Proof.
    intros l c Hwf [Hid Hn] Hres Hst.
    assert (Hn' : noty (cur_ty l)) by (apply Hn; rewrite Hst; discriminate).
    unfold Lexer.run_arm. rewrite Hst. unfold arm_operator.
    destruct (current_operator (cur (push l c))) eqn:Eop.
    - unfold LexMaxGen.arm_max; cbn. intros _. split; [|intros t Ht; discriminate Ht].
      unfold Inv; cbn. rewrite ?Hst. split; [discriminate | intros _; eapply noty_op; exact Eop].
    - repeat break_if; try (plain Hn' Hst; fail).
      unfold LexMaxGen.arm_max; cbn. intros _. split; [|intros t Ht; discriminate Ht].
      unfold Inv; cbn. split; [intros _|congruence]. left. split; [reflexivity|].
      apply andb_true_iff in Heqb as [H1 H2]. split; [exact H2|].
      apply starts_with_true in H1 as [r Hr]. cbn in Hr. rewrite Hr. reflexivity.
  Qed.

  Lemma id_shape_colon : forall a, id_shape a -> starts_with ch_colon a = true ->
    negb (match nth_error a 1 with Some x => x =? ch_colon | None => false end) = true -> sym_shape a.
  Proof.
    intros [|x a] [H1 _] Hs Hn; [discriminate|]. cbn in Hs. apply N.eqb_eq in Hs. subst x.
    exists a. cbn [forallb] in H1. apply andb_true_iff in H1 as [_ H1]. split; [reflexivity|]. split; [exact H1|].
    destruct a as [|y a]; [exact I|]. cbn in Hn. apply negb_true_iff in Hn. apply N.eqb_neq in Hn. exact Hn.
  Qed.

  Lemma arm_Identifier_max : forall l c, WF l -> Inv l -> result l = None -> st l = SIdentifier -> arm_max l c (run_arm l c).
  Proof.
    intros l c [[Hnt Htk Hsc _ _] _] [Hid Hn] Hres Hst.
    assert (Hne : cur l <> []) by (apply Htk; congruence).
    specialize (Hid Hst).
    unfold Lexer.run_arm. rewrite Hst. unfold arm_identifier.
    destruct (idc c) eqn:Eid.
    - (* an identifier character is appended *)
      unfold LexMaxGen.arm_max; cbn. intros _. split; [|intros t Ht; discriminate Ht].
      unfold Inv; cbn. rewrite ?Hst. split; [intros _|congruence].
      destruct Hid as [[Hty Hsh]|[Hty (r & Hr & Hall)]]; [left | right]; (split; [exact Hty|]).
      + apply id_shape_snoc; assumption.
      + exists (r ++ [c]). rewrite Hr. split; [reflexivity | apply forallb_snoc; assumption].
    - destruct (c =? ch_backtick) eqn:Ebt.
      + (* closing backtick *)
        apply N.eqb_eq in Ebt. subst c. change ch_backtick with 96.
        unfold LexMaxGen.arm_max; cbn.
        split; [intros Hf; discriminate Hf | intros _ nx].
        destruct Hid as [[Hty Hsh]|[Hty (r & Hr & Hall)]]; rewrite Hty; cbn.
        * unfold TM. split_all; intros H; try discriminate H.
          exists (cur l). split; [reflexivity|]. split; assumption.
        * unfold TM. split_all; intros H; try discriminate H.
          exists r. rewrite Hr. split; [reflexivity | exact Hall].
      + (* any other character ends the token before it *)
        unfold LexMaxGen.arm_max. cbn [should_create].
        assert (Hnext : forall nx, nx_ok c nx -> next_not id_next nx).
        { intros nx [->|[-> _]]; cbn; [exact I|]. unfold LexMaximal.id_next.
          change ch_backtick with 96 in Ebt. rewrite Eid, Ebt. reflexivity. }
        destruct (starts_with ch_colon (cur l) &&
                  negb (match nth_error (cur l) 1 with Some x => x =? ch_colon | None => false end)) eqn:Esym.
        * apply andb_true_iff in Esym as [Es1 Es2].
          destruct Hid as [[Hty Hsh]|[Hty (r & Hr & Hall)]].
          -- cbn. split; [intros _ nx Hnx | intros Hf; congruence].
             unfold TM. split_all; intros H; try discriminate H.
             split; [apply id_shape_colon; assumption | apply Hnext; exact Hnx].
          -- rewrite Hr in Es1. discriminate Es1.
        * cbn. split; [intros _ nx Hnx | intros Hf; congruence].
          destruct Hid as [[Hty Hsh]|[Hty Hsh]]; rewrite Hty.
          -- apply TM_noty. apply noty_ty; discriminate.
          -- unfold TM. split_all; intros H; try discriminate H.
             split; [exact Hsh | apply Hnext; exact Hnx].
  Qed.

  Lemma Inv_arm : forall l c, WF l -> Inv l -> result l = None -> arm_max l c (run_arm l c).
  Proof.
    intros l c Hwf Hinv Hres. destruct (st l) eqn:Hst.
    - unfold Lexer.run_arm. rewrite Hst. unfold LexMaxGen.arm_max. intros Hr.
      split; [apply Inv_start; exact Hr | intros t Ht; discriminate Ht].
    - apply arm_Operator_max; auto.
    - apply arm_Spaces_max; auto.
    - apply arm_Subexpression_max; auto.
    - apply arm_Number_max; auto.
    - apply arm_Float_max; auto.
    - apply arm_Identifier_max; auto.
    - apply arm_Annotation_max; auto.
    - apply arm_LineAnnotation_max; auto.
    - apply arm_CharList_max; auto.
    - apply arm_StartCharList_max; auto.
    - apply arm_ByteList_max; auto.
    - apply arm_StartByteList_max; auto.
  Qed.

  Theorem lex_tokens_TM_sym : forall s ts,
    lex un ua s = Ok ts ->
    forall pre t post, ts = pre ++ t :: post ->
      TM (Some (tok_type t)) (tok_text t) (hd_error (texts post)).
  Proof. exact (lex_tokens_max un ua Inv TM Inv_ext Inv_idle Inv_start Inv_arm). Qed.
End Sym.

(* ------------------------------------------------- readable forms *)
(* Symbol: ':' followed by identifier characters (alphanumeric, '_' or ':'; possibly none: the
   bare ":" is a Symbol token) the first of which is not ':'; the next input character is
   neither an identifier character nor a backtick. *)
Theorem lex_symbol_maximal : forall un ua s ts,
  lex un ua s = Ok ts ->
  forall pre t post, ts = pre ++ t :: post -> tok_type t = TT_Symbol ->
    (exists r, tok_text t = 58 :: r /\ forallb (is_identifier_char ua) r = true /\
               match r with c :: _ => c <> 58 | [] => True end) /\
    match concat (map tok_text post) with
    | c :: _ => is_identifier_char ua c = false /\ c <> 96
    | [] => True
    end.
Proof.
  intros un ua s ts H pre t post E Hty.
  destruct (lex_tokens_TM_sym un ua s ts H pre t post E) as (Hs & _).
  destruct (Hs (f_equal Some Hty)) as [H1 H3]. split; [exact H1|].
  unfold texts in H3. destruct (concat (map tok_text post)) as [|c r]; [exact I|].
  cbn in H3. unfold id_next in H3. apply orb_false_iff in H3 as [H3 H4]. split; [exact H3|].
  apply N.eqb_neq. exact H4.
Qed.

(* The backtick forms, by the token type the lexer gives them:
   * TT_SuffixIdentifier "`f": a backtick, then identifier characters (possibly none); the next
     input character is neither an identifier character nor a backtick;
   * TT_InfixIdentifier "`f`": a backtick, identifier characters (possibly none), a backtick;
   * TT_PrefixIdentifier "f`": a non-empty run of identifier characters that does not start
     with a numeric character, then a backtick.
   The closing backtick ends the token whatever follows. *)
Theorem lex_backtick_identifier_forms : forall un ua s ts,
  lex un ua s = Ok ts ->
  forall pre t post, ts = pre ++ t :: post ->
    (tok_type t = TT_SuffixIdentifier ->
       (exists r, tok_text t = 96 :: r /\ forallb (is_identifier_char ua) r = true) /\
       match concat (map tok_text post) with
       | c :: _ => is_identifier_char ua c = false /\ c <> 96
       | [] => True
       end) /\
    (tok_type t = TT_InfixIdentifier ->
       exists r, tok_text t = 96 :: r ++ [96] /\ forallb (is_identifier_char ua) r = true) /\
    (tok_type t = TT_PrefixIdentifier ->
       exists r, tok_text t = r ++ [96] /\ forallb (is_identifier_char ua) r = true /\
                 match r with c :: _ => is_numeric un c = false | [] => False end).
Proof.
  intros un ua s ts H pre t post E.
  destruct (lex_tokens_TM_sym un ua s ts H pre t post E) as (_ & Hsu & Hin & Hpr).
  split; [|split].
  - intros Hty. destruct (Hsu (f_equal Some Hty)) as [H1 H3]. split; [exact H1|].
    unfold texts in H3. destruct (concat (map tok_text post)) as [|c r]; [exact I|].
    cbn in H3. unfold id_next in H3. apply orb_false_iff in H3 as [H3 H4]. split; [exact H3|].
    apply N.eqb_neq. exact H4.
  - intros Hty. exact (Hin (f_equal Some Hty)).
  - intros Hty. destruct (Hpr (f_equal Some Hty)) as (r & Hr & Hne & [H1 H2]).
    exists r. split; [exact Hr|]. split; [exact H1|]. destruct r; [congruence | exact H2].
Qed.
