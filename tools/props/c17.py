"""C17 Host extension points are called exactly as documented."""
import itertools
import vplib, execlib as X
from vplib import Verdict, log
from props import c01

PID = "C17"
MANIFEST_ENTRY = {
 "level_claimed": {
  "category": "proof",
  "text": "Theorems in coq/Properties/C17.v about the runtime model Model/Machine.v: for every state, one Resolve step whose identifier is found in the current input value pushes that value without calling the host (C17_resolve_op_found), otherwise calls the host's resolve exactly once with that symbol and pushes its answer or unit (C17_resolve_op); Apply with an external on the left calls the host's apply exactly once with the external's number and the argument and pushes its answer or unit (C17_external_op); for every printable program of the core grammar outside C01's known-finding classes - every construct, including nested expressions, apply forms and `^~` loops (C01 stages 1-4, nested expressions labelled with their jump indices) - the machine's observable host trace and final host state equal the reference evaluator's (C17_program). Every run re-ties model and evaluator to /repo: generated programs with identifiers and external applications at every operand position are executed by the real pipeline under scripted recording hosts that resolve none / some / all symbols (resolve on both data implementations, external apply on BasicGarnishData), and kind, symbol or external number, argument tree, order and count of every call plus the final value are compared with the runtime model and with the evaluator.",
  "design_ref": "DESIGN.md section 8 C17"
 },
 "level_note": "Trusted: Coq kernel; Flocq's standard-library axioms (through Model/Num.v); extraction; harness/src/bin/exec.rs (the scripted host: SimpleGarnishData::set_resolver / auxiliary data, BasicDataCompanion), ocaml/exec_driver.ml, tools/execlib.py. SimpleGarnishData has no apply hook (externals apply to unit there, observed and accepted per DESIGN A.5). Known findings C01-K1 / C01-K2 affect what is evaluated after them and are excluded.",
 "technique": "Coq proof over the executable runtime model + forward simulation from the reference evaluator + differential correspondence of every host call with the Rust runtime on both data implementations"
}

NAMES = ["a", "b", "c"]
HOSTS = {
    "none": "-",
    "some": "r:a=vi9",
    "all": "r:a=#;r:b=vX7;r:c=v(L (P na i1) (P nb i2));a:7=i",
    "all_const": "r:a=vi3;r:b=vX7;r:c=vC[61];a:7=vi42",
    "decline_apply": "r:a=vX5;r:b=vX7;r:c=vX5",
}
INPUTS = ["U", "(L (P na i1) (P nc (L i2 i3)))", "(P nb i5)", "i7",
          # lists mixing unit items, plain items and keyed pairs (what the input defines is looked up past them)
          "(L U (P na i4) U (P nb i5) (P nc i6))", "(L (P nb i2) U)", "(L i9 U (P nc i1) (P na i2))", "(L U U (P na i3))"]
KEYED_WITH_UNITS = INPUTS[4:]


def operands():
    """what is put at an operand position: identifiers, an external application, a property access"""
    a, b, c = (("x", n) for n in NAMES)
    return [a, b, c,
            ("B", "app", b, a),                 # b <~ a   (b is an external under most hosts)
            ("B", "appto", ("i", 4), b),        # 4 ~> b
            ("U", "ea", b),                     # b ~~
            ("B", "acc", "$", ("p", "a"))]      # $ . a


def contexts():
    """programs with holes: every operand position of every construct (H0, H1, H2 are filled in)"""
    H0, H1, H2 = "H0", "H1", "H2"
    out = []
    for o in X.UNOPS:
        out.append(("U", o, H0))
    for o in ["add", "mul", "band", "shl", "lt", "eq", "ne", "xor", "pair", "acc", "app", "appto"]:
        out.append(("B", o, H0, H1))
    out += [("&", H0, H1), ("O", H0, H1), ("L", "s", H0, H1), ("L", "c", ("L", "c", H0, H1), H2), ("G", H0),
            ("C", 0, H0, H1), ("C", 1, H0, H1),
            ("E", ("C", 0, H0, H1), H2), ("E", ("E", ("C", 0, H0, H1), ("C", 1, H2, H0)), H1),
            ("Q", "s", H0, H1), ("Q", "b", H0, H1), ("S", H0, H1),
            ("B", "app", ("N", 0, H0), H1), ("U", "ea", ("N", 0, ("Q", "s", H0, H1))),
            ("B", "app", ("N", 0, ("C", 0, ("B", "lt", "$", ("i", 2)), ("R", ("Q", "s", H0, ("B", "add", "$", ("i", 1)))))), ("i", 0)),
            ("B", "add", H0, ("B", "mul", H1, H2)),
            ("B", "pair", ("y", "k"), ("L", "s", H0, ("B", "pair", H1, H2)))]
    return out


def fill(t, subst):
    if isinstance(t, str):
        return subst.get(t, t)
    return tuple(fill(x, subst) if not isinstance(x, (int,)) else x for x in t)


def side_ok(e):
    """ESide needs an atom on the left"""
    for n in X.walk(e):
        if not isinstance(n, str) and n[0] == "S" and (not (isinstance(n[1], str) or n[1][0] in ("x", "i", "y", "s"))):
            return False
    return True


def corpus(tier, rng):
    ops = operands()
    cases = []
    for ctx in contexts():
        holes = sorted({n for n in X.walk(ctx) if isinstance(n, str) and n.startswith("H")})
        combos = list(itertools.product(ops, repeat=len(holes)))
        if tier == "quick" and len(combos) > 60:
            combos = rng.sample(combos, 60)
        for combo in combos:
            e = fill(ctx, dict(zip(holes, combo)))
            if not side_ok(e): continue
            e = X.relabel(e)
            for hname, host in HOSTS.items():
                inp = rng.choice(INPUTS) if hname != "none" else "U"
                cases.append(X.Case(e, "min", inp, host, "c17:" + hname))
            cases.append(X.Case(e, "min", INPUTS[1], HOSTS["all"], "c17:input"))
            cases.append(X.Case(e, "min", rng.choice(KEYED_WITH_UNITS), HOSTS["all"], "c17:input-units"))
    # random programs under every host
    g = X.Gen(rng)
    for _ in range(2500 if tier == "quick" else 60000):
        e = g.program(rng.choice([6, 10, 16, 24]))
        if not X.idents(e): continue
        cases.append(X.Case(e, "min", rng.choice(INPUTS), rng.choice(list(HOSTS.values())), "c17:rand"))
    return cases


def run(tier, seed):
    v = Verdict(PID, tier, seed)
    v.assumptions = [
        "the host answers as scripted, pushes exactly one register when it accepts, and declines defer_op",
        "external apply is observed on BasicGarnishData only (SimpleGarnishData has no apply hook: DESIGN A.5)",
        "a list carrying the looked-up key twice is left open (the two data implementations answer differently; C16 assumes distinct keys)",
    ]
    pr, built = c01.build_all(v, PID, ["Proofs/C17", "Proofs/C01"])
    v.coverage.update(vplib.proof_coverage(
        pr, "make -C coq Properties/C17.vo Extract/ExecExtract.vo && coqc Properties/C17.v (Print Assumptions) && tools/props/c17.py correspondence + direct oracle",
        c01.TRUSTED))
    listed = {f["id"] for f in vplib.findings_for("C01")} | {f["id"] for f in vplib.findings_for(PID)}
    stats = X.Stats()
    found = {}
    cases = []
    if built:
        rng = vplib.rng_for(seed, "C17")
        cases = corpus(tier, rng)
        c01.process(v, cases, stats, listed, found, "exec-c17")
        # findings of other properties seen here are reported under their own id by their own check
        for k in [k for k in found if k.startswith("known:")]:
            stats.inc("known_class_cases:" + k[6:], len(found[k]))
            del found[k]
        c01.report(v, found, listed)
    # identifiers under container inputs the value model does not cover (slices of keyed lists, concatenations): the
    # program is just the identifier, the oracle is direct - a key the input defines is answered from the input with no
    # resolve call, any other name goes to the host exactly once
    if built:
        keyed = "(L (P na i1) (P nb i2) (P nc i3))"
        extra_inputs = [("(Z %s (R i0 i0))" % keyed, {"a": "i1"}), ("(Z %s (R i1 i2))" % keyed, {"b": "i2", "c": "i3"}),
                        ("(Z %s (R i0 i2))" % keyed, {"a": "i1", "b": "i2", "c": "i3"}),
                        # range ends at / past the list's length (the lookup clamps the end to the last item)
                        ("(Z %s (R i1 i3))" % keyed, {"b": "i2", "c": "i3"}), ("(Z %s (R i0 i3))" % keyed, {"a": "i1", "b": "i2", "c": "i3"}),
                        ("(Z %s (R i2 i9))" % keyed, {"c": "i3"}), ("(Z (L (P na i1) (P nb i2)) (R i0 i2))", {"a": "i1", "b": "i2"}),
                        ("(Z (L (P na i1)) (R i0 i1))", {"a": "i1"}),
                        ("(K (L (P na i1)) (L (P nb i2) i9))", {"a": "i1", "b": "i2"}),
                        ("(Z (K (L (P na i1)) (L (P nb i2) (P nc i3))) (R i1 i2))", {"b": "i2", "c": "i3"})]
        ecases, want = [], []
        for inp, defined in extra_inputs:
            for nm in NAMES:
                for e in (("x", nm), ("B", "app", ("N", 1, ("x", nm)), "$")):
                    ecases.append(X.Case(X.relabel(e), "min", inp, HOSTS["all"], "c17:containers"))
                    want.append((nm, defined.get(nm)))
        err = X.run_batch(ecases)
        if err:
            v.tie_failure("exec-c17 containers: " + err)
        else:
            for c, (nm, val) in zip(ecases, want):
                im = X.split_impl(c.impl)
                for which, raw in (("SimpleGarnishData", im.get("S", "?")), ("BasicGarnishData", im.get("X") if im.get("X") not in (None, "same") else im.get("S", "?"))):
                    r = X.parse_run(raw)
                    resolves = [cc for cc in r["calls"] if cc.startswith("R")]
                    stats.inc("containers:" + r["cls"])
                    if val is not None and (r["cls"] != "OK" or r["v"] != val or resolves):
                        v.violation(component="resolve", input=X.describe(c), what="the input value (a %s) defines `%s`, yet on %s the program answers %s with resolve calls %s "
                                    "(expected %s and no host call)" % ("slice" if c.input.startswith("(Z") else "concatenation", nm, which, r["v"], resolves, val), impl=raw[:200])
                    if val is None and r["cls"] == "OK" and len(resolves) != 1:
                        v.violation(component="resolve", input=X.describe(c), what="`%s` is not defined by the input value, yet on %s the host's resolve callback was called %d times (expected once)"
                                    % (nm, which, len(resolves)), impl=raw[:200])
    calls = {"R": 0, "A": 0}
    with_calls = 0
    for c in cases:
        im = X.split_impl(getattr(c, "impl", ""))
        r = X.parse_run(im.get("X") if im.get("X") not in (None, "same") else im.get("S", "?"))
        n = 0
        for cc in r["calls"]:
            if cc[:1] in calls:
                calls[cc[:1]] += 1
                n += 1
        if n: with_calls += 1
    c01.coverage(v, stats, cases, found,
                 "identifiers (a, b, c), an external application (b <~ a, 4 ~> b, b ~~) or a property access at every operand position of "
                 "every construct of the core grammar (all unary operators, one binary operator per class, && ||, lists, pairs, conditionals, "
                 "else-chains, sequences, side-effect blocks, nested expressions with apply and a bounded `^~` loop) x hosts resolving none / "
                 "some / all symbols (constants, a per-call counter, externals whose apply answers the argument / a constant / declines) x "
                 "input values that contain some of the names; plus seeded random programs with identifiers",
                 {"host_calls_observed": {"resolve": calls["R"], "apply": calls["A"]}, "cases_with_host_calls": with_calls})
    return v.finish("proof")


def replay(obj):
    return c01.replay(obj)
