(* C11: canonical forms of lists and concatenations are the forms of their item sequences. *)
From Coq Require Import ZArith NArith List Bool Arith Lia.
From GV Require Import Base.Result Gen.Instr Gen.EqTable Model.Num Model.Value Model.Equality Spec.StructEq.
Import ListNotations.

Definition cflat (v : val) : list cval := snd (canon2 v).

Lemma canon_list items : canon (VList items) = CSeq (map canon items).
Proof. reflexivity. Qed.

Lemma cflat_flat v : cflat v = map canon (flat v).
Proof.
  induction v; try reflexivity.
  unfold cflat in *. cbn [canon2 snd flat]. rewrite map_app, IHv1, IHv2. reflexivity.
Qed.

Lemma canon_concat a b : canon (VConcat a b) = CSeq (map canon (flat a ++ flat b)).
Proof. unfold canon. cbn [canon2 fst]. fold (cflat a) (cflat b). rewrite !cflat_flat, map_app. reflexivity. Qed.

Lemma ceq_seq xs : forall ys, ceq (CSeq xs) (CSeq ys) = list_eqb ceq xs ys.
Proof.
  induction xs as [|x xs IH]; intros [|y ys]; try reflexivity.
  cbn [ceq list_eqb]. f_equal. apply IH.
Qed.

Lemma val_all_list P s items : val_all P s (VList items) <-> Forall (val_all P s) items.
Proof.
  cbn [val_all]. induction items as [|x items IH]; [split; auto|].
  split.
  - intros [Hx Hr]. constructor; [exact Hx | apply IH, Hr].
  - intros H. inversion H; subst. split; [assumption | apply IH; assumption].
Qed.

