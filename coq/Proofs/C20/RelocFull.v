(* C20 relocation, assembled: for every tree the build into a non-empty data
   object is the build into the empty one, relocated; for trees outside C05-K2
   this is exactly [Spec.Reloc.relocated]. *)
From Coq Require Import List Arith Bool NArith Lia.
From GV Require Import Base.Result Gen.TokenTypes Gen.Defs Gen.Instr Model.Parser Model.BuilderWL Model.Compile
  Spec.WfCode Spec.Reloc Proofs.C05.InlBase Proofs.C05.Known Proofs.C05.Operands Proofs.C05.Jumps Proofs.C05.Bodies
  Proofs.C20.Relocate Proofs.C20.LastInstr.
Import ListNotations.

Theorem compile_relocates : forall init lit t,
  compile init lit t = shRes (shR init) (compile empty_init lit t).
Proof.
  intros init lit t. rewrite (compile_shift init lit t). f_equal.
  apply compile_last_irrelevant.
Qed.

Lemma instr_eqb_refl : forall io, instr_eqb io io = true.
Proof.
  intros [i o]. unfold instr_eqb. cbn [fst snd]. apply andb_true_iff. split.
  - unfold instruction_eqb. apply N.eqb_refl.
  - destruct o; cbn; try reflexivity; apply Nat.eqb_refl.
Qed.

Lemma code_eqb_refl : forall c, code_eqb c c = true.
Proof.
  intros c. unfold code_eqb. rewrite !Nat.eqb_refl. cbn [andb].
  assert (H1 : forallb (fun p => instr_eqb (fst p) (snd p)) (combine (k_instrs c) (k_instrs c)) = true).
  { induction (k_instrs c) as [|x l IH]; cbn; [reflexivity | rewrite instr_eqb_refl, IH; reflexivity]. }
  assert (H2 : forallb (fun p => opt_nat_eqb (fst p) (snd p)) (combine (k_meta c) (k_meta c)) = true).
  { induction (k_meta c) as [|x l IH]; cbn; [reflexivity|]. rewrite IH.
    destruct x; cbn; [rewrite Nat.eqb_refl|]; reflexivity. }
  assert (H3 : forallb (fun p => Nat.eqb (fst p) (snd p)) (combine (k_jumps c) (k_jumps c)) = true).
  { induction (k_jumps c) as [|x l IH]; cbn; [reflexivity | rewrite Nat.eqb_refl, IH; reflexivity]. }
  rewrite H1, H2, H3. reflexivity.
Qed.

(* when no placeholder survives, relocating by position coincides with adding
   the offset to every entry *)
Lemma mapi_shJ_plain : forall init l k,
  (forall n x, nth_error l n = Some x -> k + n = 0 \/ x <> 0) ->
  mapi_from k (shJ init) l = map (fun t => t + i_instr_len init) l.
Proof.
  intros init l. induction l as [|y l IH]; intros k H; [reflexivity|]. cbn [mapi_from map]. f_equal.
  - unfold shJ. destruct (Nat.eqb k 0) eqn:E; [reflexivity|].
    destruct (H 0 y eq_refl) as [A|A]; [apply Nat.eqb_neq in E; lia|].
    destruct y; [congruence | reflexivity].
  - apply IH. intros n x Hn. destruct (H (S n) x Hn) as [A|A]; [lia | right; exact A].
Qed.

Theorem compile_relocated : forall nodes init lit t r r0,
  tree_in nodes t -> tree_good t ->
  compile init lit t = Ok r -> compile empty_init lit t = Ok r0 ->
  relocated init (code_of_compile r0) (code_of_compile r) = true.
Proof.
  intros nodes init lit t r r0 Htin Hg Hc Hc0.
  rewrite (compile_relocates init lit t), Hc0 in Hc. cbn [shRes] in Hc. inversion Hc; subst r. clear Hc.
  destruct (compile_wf empty_init lit nodes t r0 Htin Hg Hc0) as [_ [Hjumps _]].
  unfold relocated, shift_code, code_of_compile, shR. cbn [k_instrs k_meta k_jumps k_entry fst snd shS ci cm cj].
  rewrite mapi_shJ_plain.
  - apply code_eqb_refl.
  - intros n x Hn. destruct n; [left; reflexivity|]. right.
    specialize (Hjumps (S n) x Hn). unfold jump_ok in Hjumps. apply andb_true_iff in Hjumps.
    destruct Hjumps as [A _]. apply Nat.ltb_lt in A. lia.
Qed.
