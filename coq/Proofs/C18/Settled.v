(* When has the last_left adjustment settled?  After every token that pushes a node or
   opens / closes a parenthesis or brace, last_left is that node (not a closed
   side-effect block) or the group just opened (the current group); whitespace,
   annotations and dropped separators keep it.  So the adjustment can only be pending
   right after the end of a side-effect block. *)
From Coq Require Import List Arith Bool NArith Lia.
From GV Require Import Base.Result Gen.TokenTypes Gen.Defs Model.Parser Spec.Layout Spec.LayoutSim
  Proofs.C18.StepParts.
Import ListNotations.

(* ---- small list facts (local copies; upd is the model's array write) ---- *)
Lemma upd_length' {A} (l : list A) k f l' : upd l k f = Some l' -> length l' = length l.
Proof.
  revert k l'. induction l as [|a r IH]; intros [|k] l' H; cbn [upd] in H; try discriminate.
  - injection H as <-. reflexivity.
  - destruct (upd r k f) as [r'|] eqn:E; [|discriminate]. injection H as <-. cbn [length]. f_equal. eapply IH, E.
Qed.

Lemma nth_upd_same {A} (l : list A) k f l' x :
  upd l k f = Some l' -> nth_error l k = Some x -> nth_error l' k = Some (f x).
Proof.
  revert k l'. induction l as [|a r IH]; intros [|k] l' H Hx; cbn [upd nth_error] in *; try discriminate.
  - injection H as <-. injection Hx as ->. reflexivity.
  - destruct (upd r k f) as [r'|] eqn:E; [|discriminate]. injection H as <-. cbn [nth_error]. eapply IH; eauto.
Qed.

Lemma nth_upd_other {A} (l : list A) k f l' j :
  upd l k f = Some l' -> j <> k -> nth_error l' j = nth_error l j.
Proof.
  revert k l' j. induction l as [|a r IH]; intros [|k] l' j H Hj; cbn [upd] in H; try discriminate.
  - injection H as <-. destruct j; [congruence|reflexivity].
  - destruct (upd r k f) as [r'|] eqn:E; [|discriminate]. injection H as <-.
    destruct j; cbn [nth_error]; [reflexivity|]. eapply IH; eauto.
Qed.

Lemma upd_some_nth {A} (l : list A) k f l' : upd l k f = Some l' -> exists x, nth_error l k = Some x.
Proof.
  revert k l'. induction l as [|a r IH]; intros [|k] l' H; cbn [upd] in H; try discriminate.
  - exists a. reflexivity.
  - destruct (upd r k f) as [r'|] eqn:E; [|discriminate]. cbn [nth_error]. eapply IH, E.
Qed.

(* the part of a node that the adjustment looks at *)
Definition core3 (n : pnode) : definition * option nat * option nat := (n_def n, n_parent n, n_left n).

Lemma upd_core3 (ns : list pnode) k f ns' :
  upd ns k f = Some ns' -> (forall x, nth_error ns k = Some x -> core3 (f x) = core3 x) ->
  forall j, option_map core3 (nth_error ns' j) = option_map core3 (nth_error ns j).
Proof.
  intros Hu Hf j. destruct (Nat.eq_dec j k) as [->|Hne].
  - destruct (upd_some_nth _ _ _ _ Hu) as [x Hx].
    rewrite (nth_upd_same _ _ _ _ _ Hu Hx), Hx. cbn [option_map]. f_equal. apply Hf, Hx.
  - rewrite (nth_upd_other _ _ _ _ _ Hu Hne). reflexivity.
Qed.

Lemma upd_defs (ns : list pnode) k f ns' :
  upd ns k f = Some ns' -> (forall x, nth_error ns k = Some x -> n_def (f x) = n_def x) ->
  forall j, option_map n_def (nth_error ns' j) = option_map n_def (nth_error ns j).
Proof.
  intros Hu Hf j. destruct (Nat.eq_dec j k) as [->|Hne].
  - destruct (upd_some_nth _ _ _ _ Hu) as [x Hx].
    rewrite (nth_upd_same _ _ _ _ _ Hu Hx), Hx. cbn [option_map]. f_equal. apply Hf, Hx.
  - rewrite (nth_upd_other _ _ _ _ _ Hu Hne). reflexivity.
Qed.

Lemma finished_block_core3 ns ns' ug l :
  option_map core3 (nth_error ns' l) = option_map core3 (nth_error ns l) ->
  finished_block ns' ug (Some l) = finished_block ns ug (Some l).
Proof.
  unfold finished_block. intros H.
  destruct (nth_error ns' l) as [n'|], (nth_error ns l) as [n|]; cbn [option_map] in H; try discriminate H; [|reflexivity].
  unfold core3 in H. injection H as -> -> ->. reflexivity.
Qed.

Lemma definition_eqb_SE d : definition_eqb d D_SideEffect = true -> d = D_SideEffect.
Proof. destruct d; try reflexivity; discriminate. Qed.

Lemma finished_block_not_SE ns ug l n :
  nth_error ns l = Some n -> n_def n <> D_SideEffect -> finished_block ns ug (Some l) = false.
Proof.
  intros Hn Hd. unfold finished_block. rewrite Hn.
  destruct (definition_eqb (n_def n) D_SideEffect) eqn:E; [|reflexivity].
  exfalso. apply Hd, definition_eqb_SE, E.
Qed.

Lemma finished_block_out ns ug l : nth_error ns l = None -> finished_block ns ug (Some l) = false.
Proof. intros H. unfold finished_block. rewrite H. reflexivity. Qed.

Lemma finished_block_ug ns l : finished_block ns (Some l) (Some l) = false.
Proof.
  unfold finished_block. destruct (nth_error ns l) as [n|]; [|reflexivity].
  cbn [opt_nat_eqb]. rewrite Nat.eqb_refl. cbn [negb]. rewrite andb_false_r. reflexivity.
Qed.

(* ---- calm states ---- *)
Definition CalmSt (st : pstate) : Prop :=
  forall ug, under_group_of st = Ok ug -> finished_block (nodes st) ug (last_left st) = false.

Lemma calm_settled st :
  (last_left st = None -> nodes st = []) -> CalmSt st -> adjust_settled st = true.
Proof.
  intros Hn Hc. unfold adjust_settled.
  destruct (last_left st) as [li|] eqn:El.
  - destruct (under_group_of st) as [ug| | |] eqn:Hug; try reflexivity.
    destruct (nth_error (nodes st) li); [|reflexivity].
    pose proof (Hc ug Hug) as Hf. rewrite El in Hf. rewrite Hf. reflexivity.
  - rewrite (Hn eq_refl). reflexivity.
Qed.

Lemma adjust3_calm st0 ug ll ps pg :
  CalmSt st0 -> under_group_of st0 = Ok ug -> adjust3_of st0 ug = Ok (ll, ps, pg) ->
  ll = last_left st0 /\ finished_block (nodes st0) ug ll = false.
Proof.
  intros Hc Hug Ha. specialize (Hc ug Hug). unfold adjust3_of in Ha.
  destruct (last_left st0) as [li|] eqn:El.
  - unfold finished_block in Hc. destruct (nth_error (nodes st0) li) as [n|] eqn:En; [|discriminate Ha].
    rewrite Hc in Ha. injection Ha as <- _ _. split; [reflexivity|].
    unfold finished_block. rewrite En. exact Hc.
  - injection Ha as <- _ _. split; reflexivity.
Qed.

(* ---- what the final push gives ---- *)
Lemma under_group_of_finish i sec cid st1 inf :
  under_group_of (step_finish i sec cid (st1, inf)) = under_group_of st1.
Proof. reflexivity. Qed.

Lemma calm_drop i sec cid st1 :
  cid = length (nodes st1) ->
  (forall ug, under_group_of st1 = Ok ug -> finished_block (nodes st1) ug (next_last_left st1) = false) ->
  CalmSt (step_finish i sec cid (st1, drop_info)).
Proof.
  intros Hc H ug Hug. rewrite under_group_of_finish in Hug. specialize (H ug Hug).
  unfold step_finish, pushed_nodes, drop_info. cbn [fst snd nodes last_left].
  change (definition_eqb D_Drop D_Drop) with true. cbv iota.
  destruct (next_last_left st1) as [k|]; [exact H|].
  destruct (nodes st1) eqn:En; [reflexivity|].
  apply finished_block_out. apply nth_error_None. lia.
Qed.

Lemma pushed_def i sec st1 d p l rr :
  definition_eqb d D_Drop = false ->
  exists x, pushed_nodes i sec st1 (d, p, l, rr) = nodes st1 ++ [x] /\ (n_def x = d \/ n_def x = D_Property).
Proof.
  intros Hd. unfold pushed_nodes. rewrite Hd. eexists. split; [reflexivity|]. cbn [n_def].
  destruct (definition_eqb d D_Identifier); [|left; reflexivity].
  destruct p as [pp|]; [|left; reflexivity].
  destruct (nth_error (nodes st1) pp) as [pn|]; [|left; reflexivity].
  destruct (definition_eqb (n_def pn) D_Access); [right|left]; reflexivity.
Qed.

Lemma calm_pushed i sec cid st1 d p l rr :
  d <> D_SideEffect ->
  match next_last_left st1 with
  | Some k => k = length (nodes st1)
  | None => cid = length (nodes st1)
  end ->
  CalmSt (step_finish i sec cid (st1, (d, p, l, rr))).
Proof.
  intros Hd Hk ug Hug. unfold step_finish. cbn [fst snd nodes last_left].
  destruct (definition_eqb d D_Drop) eqn:Ed.
  - unfold pushed_nodes. rewrite Ed.
    destruct (next_last_left st1) as [k|].
    + apply finished_block_out. apply nth_error_None. lia.
    + destruct (nodes st1) eqn:En; [reflexivity|].
      apply finished_block_out. apply nth_error_None. lia.
  - destruct (pushed_def i sec st1 d p l rr Ed) as [x [-> Hx]].
    assert (Hnx : n_def x <> D_SideEffect) by (destruct Hx as [->| ->]; [exact Hd|discriminate]).
    assert (Hnth : nth_error (nodes st1 ++ [x]) (length (nodes st1)) = Some x)
      by (rewrite nth_error_app2, Nat.sub_diag by lia; reflexivity).
    destruct (next_last_left st1) as [k|].
    + subst k. exact (finished_block_not_SE _ ug _ x Hnth Hnx).
    + destruct (nodes st1 ++ [x]) eqn:En; [reflexivity|]. subst cid.
      exact (finished_block_not_SE _ ug _ x Hnth Hnx).
Qed.

Lemma calm_open i sec cid st1 inf gs b :
  next_last_left st1 = None -> group_stack st1 = gs ++ [(cid, b)] -> current_group st1 = Some (length gs) ->
  CalmSt (step_finish i sec cid (st1, inf)).
Proof.
  intros Hn Hgs Hcg ug Hug. rewrite under_group_of_finish in Hug.
  unfold under_group_of in Hug. rewrite Hcg, Hgs, nth_error_app2, Nat.sub_diag in Hug by lia.
  cbn [nth_error] in Hug. injection Hug as <-.
  unfold step_finish. cbn [fst snd nodes last_left]. rewrite Hn.
  destruct (pushed_nodes i sec st1 inf); [reflexivity|]. apply finished_block_ug.
Qed.

(* ---- lengths ---- *)
Lemma parse_token_length id d l ns ug rtl ns' p tl :
  parse_token id d l ns ug rtl = Ok (ns', p, tl) -> length ns' = length ns.
Proof.
  unfold parse_token. destruct (prio_of d) as [my| | |]; cbn [bind]; try discriminate.
  destruct (walk _ ns id my _ rtl ug l l 0) as [[pa tr]| | |]; cbn [bind]; try discriminate.
  assert (G : forall ns1 tl1, length ns1 = length ns ->
    match pa with
    | None => Ok (ns1, pa, tl1)
    | Some ix =>
      match nth_error ns1 ix with
      | None => impl_err
      | Some pn =>
        match upd ns1 ix (set_right (Some id)) with
        | None => impl_err
        | Some nodes2 =>
          match n_right pn with
          | None => Ok (nodes2, pa, tl1)
          | Some r => match upd nodes2 r (set_parent (Some id)) with
                      | None => Ok (nodes2, pa, tl1)
                      | Some nodes3 => Ok (nodes3, pa, Some r)
                      end
          end
        end
      end
    end = Ok (ns', p, tl) -> length ns' = length ns).
  { intros ns1 tl1 H1. destruct pa as [ix|]; [|intros H; injection H as <- _ _; exact H1].
    destruct (nth_error ns1 ix) as [pn|]; [|discriminate].
    destruct (upd ns1 ix (set_right (Some id))) as [ns2|] eqn:E2; [|discriminate]. apply upd_length' in E2.
    destruct (n_right pn) as [r|].
    - destruct (upd ns2 r (set_parent (Some id))) as [ns3|] eqn:E3; intros H; injection H as <- _ _.
      + apply upd_length' in E3. lia.
      + lia.
    - intros H; injection H as <- _ _. lia. }
  destruct (if opt_nat_eqb pa tr then None else tr) as [ix|].
  - destruct (upd ns ix (set_parent (Some id))) as [ns1|] eqn:E1; cbn [bind]; [|discriminate].
    apply upd_length' in E1. apply G, E1.
  - cbn [bind]. apply G. reflexivity.
Qed.

Lemma make_list_node_length cid oid st ug ns :
  make_list_node cid oid st ug = Ok ns -> length ns = S (length (nodes st)).
Proof.
  unfold make_list_node.
  destruct (parse_token cid D_List (last_left st) (nodes st) ug false) as [[[ns1 p] tl]| | |] eqn:E; cbn [bind]; try discriminate.
  intros H. injection H as <-. rewrite app_length, (parse_token_length _ _ _ _ _ _ _ _ _ E). cbn [length]. lia.
Qed.

(* ---- the arms that push or open ---- *)
Section Arms.
Variables (i : nat) (sec : secondary) (cid : nat) (st : pstate) (ug : option nat) (t : tail4).
Hypothesis Hnll : next_last_left st = None.
Hypothesis Hcid : cid = length (nodes st).

Lemma arm_value_calm d r : d <> D_SideEffect ->
  arm_value cid d st ug t = Ok r -> CalmSt (step_finish i sec cid r).
Proof.
  intros Hd. unfold arm_value. destruct (check_for_list st).
  - destruct (make_list_node cid (cid + 1) st ug) as [ns| | |] eqn:El; cbn [bind]; try discriminate.
    destruct (parse_token (cid + 1) d (Some cid) ns ug false) as [[[ns2 p] tl]| | |] eqn:Ep; cbn [bind]; try discriminate.
    intros H. injection H as <-. apply calm_pushed; [exact Hd|]. cbn [next_last_left nodes].
    rewrite (parse_token_length _ _ _ _ _ _ _ _ _ Ep). reflexivity.
  - destruct (parse_token cid d (last_left st) (nodes st) ug false) as [[[ns2 p] tl]| | |] eqn:Ep; cbn [bind]; try discriminate.
    intros H. injection H as <-. apply calm_pushed; [exact Hd|]. cbn [next_last_left nodes]. rewrite Hnll.
    rewrite (parse_token_length _ _ _ _ _ _ _ _ _ Ep). exact Hcid.
Qed.

Lemma arm_binary_calm rtl ar d r : d <> D_SideEffect ->
  arm_binary rtl cid ar d st ug t = Ok r -> CalmSt (step_finish i sec cid r).
Proof.
  intros Hd. unfold arm_binary.
  destruct (parse_token cid d (last_left st) (nodes st) ug rtl) as [[[ns2 p] tl]| | |] eqn:Ep; cbn [bind]; try discriminate.
  intros H. injection H as <-. apply calm_pushed; [exact Hd|]. cbn [next_last_left nodes]. rewrite Hnll.
  rewrite (parse_token_length _ _ _ _ _ _ _ _ _ Ep). exact Hcid.
Qed.

Lemma arm_suffix_calm d r : d <> D_SideEffect ->
  arm_suffix cid d st ug t = Ok r -> CalmSt (step_finish i sec cid r).
Proof.
  intros Hd. unfold arm_suffix.
  destruct (parse_token cid d (last_left st) (nodes st) ug false) as [[[ns2 p] tl]| | |] eqn:Ep; cbn [bind]; try discriminate.
  intros H. injection H as <-. apply calm_pushed; [exact Hd|]. cbn [next_last_left nodes]. rewrite Hnll.
  rewrite (parse_token_length _ _ _ _ _ _ _ _ _ Ep). exact Hcid.
Qed.

Lemma arm_prefix_calm ar d r : d <> D_SideEffect ->
  arm_prefix cid ar d st ug t = Ok r -> CalmSt (step_finish i sec cid r).
Proof.
  intros Hd. unfold arm_prefix. destruct (check_for_list st).
  - destruct (make_list_node cid (cid + 1) st ug) as [ns| | |] eqn:El; cbn [bind]; try discriminate.
    intros H. injection H as <-. apply calm_pushed; [exact Hd|]. reflexivity.
  - intros H. injection H as <-. apply calm_pushed; [exact Hd|]. cbn [next_last_left nodes]. rewrite Hnll. exact Hcid.
Qed.

Lemma arm_startgroup_calm ar d r : d <> D_SideEffect ->
  arm_startgroup cid ar d st ug t = Ok r -> CalmSt (step_finish i sec cid r).
Proof.
  intros Hd. unfold arm_startgroup. destruct (check_for_list st).
  - destruct (make_list_node cid (cid + 1) st ug) as [ns| | |] eqn:El; cbn [bind]; try discriminate.
    intros H. injection H as <-. apply calm_pushed; [exact Hd|]. cbn [next_last_left nodes].
    rewrite (make_list_node_length _ _ _ _ _ El). lia.
  - intros H. injection H as <-. apply calm_pushed; [exact Hd|]. cbn [next_last_left nodes]. rewrite Hnll. exact Hcid.
Qed.

Lemma arm_startse_calm ar d r :
  arm_startse cid ar d st ug t = Ok r -> CalmSt (step_finish i sec cid r).
Proof.
  unfold arm_startse.
  destruct (parse_token cid d (last_left st) (nodes st) ug false) as [[[ns2 p] tl]| | |] eqn:Ep; cbn [bind]; try discriminate.
  intros H. injection H as <-.
  eapply calm_open; cbn [next_last_left group_stack current_group]; [exact Hnll|reflexivity|reflexivity].
Qed.

(* the node surgery at a closing bracket keeps every definition *)
Lemma end_fixup_defs gleft ns :
  end_fixup cid st gleft = Ok ns ->
  forall j, option_map n_def (nth_error ns j) = option_map n_def (nth_error (nodes st) j).
Proof.
  unfold end_fixup. destruct (last_left st) as [l|]; [|intros H; injection H as <-; reflexivity].
  destruct (nth_error (nodes st) l) as [ln|] eqn:En; [|discriminate].
  match goal with |- context [upd (nodes st) l (fun _ => ?x)] => remember x as ln1 eqn:Hln1 end.
  assert (Hd1 : n_def ln1 = n_def ln) by (rewrite Hln1; destruct (_ || _ || _); reflexivity).
  clear Hln1.
  destruct (upd (nodes st) l (fun _ => ln1)) as [ns1|] eqn:E1; [|discriminate].
  assert (D1 : forall j, option_map n_def (nth_error ns1 j) = option_map n_def (nth_error (nodes st) j)).
  { apply (upd_defs _ _ _ _ E1). intros x Hx. rewrite En in Hx. injection Hx as <-. exact Hd1. }
  match goal with |- (if ?c then _ else _) = _ -> _ => destruct c end; [|intros H; injection H as <-; exact D1].
  destruct (n_left ln1) as [lf|]; [|intros H; injection H as <-; exact D1].
  destruct (upd ns1 lf (set_parent (n_parent ln1))) as [ns2|] eqn:E2; [|discriminate].
  assert (D2 : forall j, option_map n_def (nth_error ns2 j) = option_map n_def (nth_error (nodes st) j)).
  { intros j. rewrite <- D1. apply (upd_defs _ _ _ _ E2). reflexivity. }
  destruct (n_parent ln1) as [par|]; [|intros H; injection H as <-; exact D2].
  destruct (upd ns2 par (set_right (Some lf))) as [ns3|] eqn:E3; [|discriminate].
  intros H; injection H as <-. intros j. rewrite <- D2. apply (upd_defs _ _ _ _ E3). reflexivity.
Qed.

Lemma end_fixup_length gleft ns : end_fixup cid st gleft = Ok ns -> length ns = length (nodes st).
Proof.
  intros H. pose proof (end_fixup_defs gleft ns H) as D.
  destruct (Nat.lt_trichotomy (length ns) (length (nodes st))) as [Hl|[He|Hl]]; [|exact He|].
  - specialize (D (length ns)). rewrite (proj2 (nth_error_None ns (length ns))) in D by lia.
    destruct (nth_error (nodes st) (length ns)) eqn:E; [discriminate D|].
    apply nth_error_None in E. lia.
  - specialize (D (length (nodes st))). rewrite (proj2 (nth_error_None (nodes st) _)) in D by lia.
    destruct (nth_error ns (length (nodes st))) eqn:E; [discriminate D|].
    apply nth_error_None in E. lia.
Qed.

(* closing a parenthesis or a brace: last_left becomes the group node, never a block *)
Lemma arm_end_calm tok r : tok <> TT_EndSideEffect ->
  arm_end cid tok st t = Ok r -> CalmSt (step_finish i sec cid r).
Proof.
  intros Htok. unfold arm_end.
  destruct (removelast_pair (group_stack st)) as [[gs' [gleft nlc]]|]; [|discriminate].
  destruct (nth_error (nodes st) gleft) as [sgn|] eqn:Eg; [|discriminate].
  destruct (expected_end (n_def sgn)) as [ex|] eqn:Ex; [|discriminate].
  destruct (token_type_eqb tok ex) eqn:Et; cbn [negb]; [|discriminate].
  destruct (end_fixup cid st gleft) as [ns| | |] eqn:Ef; cbn [bind]; try discriminate.
  intros H. injection H as <-.
  apply calm_drop; cbn [nodes next_last_left].
  - rewrite (end_fixup_length _ _ Ef). exact Hcid.
  - intros ug' _. pose proof (end_fixup_defs _ _ Ef gleft) as D. rewrite Eg in D. cbn [option_map] in D.
    destruct (nth_error ns gleft) as [x|] eqn:Ex'; [|discriminate D]. cbn [option_map] in D. injection D as D.
    apply (finished_block_not_SE _ _ _ x Ex'). rewrite D. intros HSE. rewrite HSE in Ex. cbn [expected_end] in Ex.
    injection Ex as <-. apply Htok. destruct tok; try discriminate Et; reflexivity.
Qed.

End Arms.

(* ---- the arms that keep last_left: trivia and dropped separators ---- *)
Lemma arm_ws_calm i sec cid st ug t r :
  cid = length (nodes st) ->
  (forall ug', under_group_of st = Ok ug' -> finished_block (nodes st) ug' (last_left st) = false) ->
  arm_ws st ug t = Ok r -> CalmSt (step_finish i sec cid r).
Proof.
  intros Hcid Hc. unfold arm_ws.
  destruct (space_list_check st ug) as [cfl| | |]; cbn [bind]; try discriminate.
  intros H. injection H as <-. apply calm_drop; [exact Hcid|]. exact Hc.
Qed.

Lemma arm_annot_calm i sec cid st t r :
  cid = length (nodes st) ->
  (forall ug', under_group_of st = Ok ug' -> finished_block (nodes st) ug' (last_left st) = false) ->
  arm_annot D_Drop st t = Ok r -> CalmSt (step_finish i sec cid r).
Proof.
  intros Hcid Hc. unfold arm_annot. intros H. injection H as <-.
  apply calm_drop; [exact Hcid|]. exact Hc.
Qed.

Lemma subexpr_drop_core3 st ig gi ns1 drop :
  subexpr_drop st ig gi = Ok (ns1, drop) ->
  forall j, option_map core3 (nth_error ns1 j) = option_map core3 (nth_error (nodes st) j).
Proof.
  unfold subexpr_drop. destruct (last_left st) as [l|]; [|intros H; injection H as <- _; reflexivity].
  destruct (nth_error (nodes st) l) as [ln|] eqn:En; [|discriminate].
  destruct (upd (nodes st) l _) as [ns'|] eqn:E1; [|discriminate].
  intros H. injection H as <- _.
  apply (upd_core3 _ _ _ _ E1). intros x Hx. rewrite En in Hx. injection Hx as <-.
  destruct (is_optional (n_def ln)); reflexivity.
Qed.

Lemma core3_length (ns ns' : list pnode) :
  (forall j, option_map core3 (nth_error ns' j) = option_map core3 (nth_error ns j)) -> length ns' = length ns.
Proof.
  intros D.
  destruct (Nat.lt_trichotomy (length ns') (length ns)) as [Hl|[He|Hl]]; [|exact He|].
  - specialize (D (length ns')). rewrite (proj2 (nth_error_None ns' (length ns'))) in D by lia.
    destruct (nth_error ns (length ns')) eqn:E; [discriminate D|]. apply nth_error_None in E. lia.
  - specialize (D (length ns)). rewrite (proj2 (nth_error_None ns _)) in D by lia.
    destruct (nth_error ns' (length ns)) eqn:E; [discriminate D|]. apply nth_error_None in E. lia.
Qed.

Lemma arm_subexpr_calm i sec cid ar d st ug t r :
  next_last_left st = None -> cid = length (nodes st) -> d <> D_SideEffect ->
  (forall ug', under_group_of st = Ok ug' -> finished_block (nodes st) ug' (last_left st) = false) ->
  arm_subexpr cid ar d st ug t = Ok r -> CalmSt (step_finish i sec cid r).
Proof.
  intros Hnll Hcid Hd Hc. unfold arm_subexpr.
  destruct (subexpr_group st) as [[ig gi]| | |]; cbn [bind]; try discriminate.
  destruct (definition_eqb ig D_Group).
  - destruct (space_list_check st ug) as [cfl| | |]; cbn [bind]; try discriminate.
    intros H. injection H as <-. apply calm_drop; [exact Hcid|]. exact Hc.
  - destruct (subexpr_drop st ig gi) as [[ns1 drop]| | |] eqn:Ed; cbn [bind]; try discriminate.
    pose proof (subexpr_drop_core3 _ _ _ _ _ Ed) as D. pose proof (core3_length _ _ D) as HL.
    destruct drop.
    + intros H. injection H as <-. apply calm_drop; cbn [nodes next_last_left]; [lia|].
      intros ug' Hu. specialize (Hc ug' Hu). destruct (last_left st) as [l|]; [|reflexivity].
      rewrite (finished_block_core3 (nodes st) ns1 ug' l (D l)). exact Hc.
    + destruct (parse_token cid d (last_left st) ns1 ug false) as [[[ns2 p] tl]| | |] eqn:Ep; cbn [bind]; try discriminate.
      intros H. injection H as <-. apply calm_pushed; [exact Hd|]. cbn [next_last_left nodes]. rewrite Hnll.
      rewrite (parse_token_length _ _ _ _ _ _ _ _ _ Ep). lia.
Qed.

(* ---- one step ---- *)
Lemma step_inv n i tok st0 st' : step n i tok st0 = Ok st' ->
  exists ug ll ps pg r,
    under_group_of st0 = Ok ug /\ adjust3_of st0 ug = Ok (ll, ps, pg) /\
    step_arm (length (nodes st0)) (if Nat.leb n (i + 1) then None else Some (length (nodes st0) + 1)) tok
             (fst (get_definition tok)) (snd (get_definition tok)) (adjusted st0 ll ps pg) ug
             (new_tail (snd (get_definition tok)) (adjusted st0 ll ps pg)) = Ok r /\
    st' = step_finish i (snd (get_definition tok)) (length (nodes st0)) r.
Proof.
  rewrite step_decomp.
  destruct (under_group_of st0) as [ug| | |] eqn:Hug; cbn [bind]; try discriminate.
  destruct (adjust3_of st0 ug) as [[[ll ps] pg]| | |] eqn:Ha; cbn [bind]; try discriminate.
  unfold step_main.
  destruct (forbidden _ _ _); [discriminate|].
  destruct (_ && _ && _); [discriminate|].
  destruct (step_arm _ _ tok _ _ _ ug _) as [r| | |] eqn:Ea; cbn [bind]; try discriminate.
  rewrite step_finish_res_eq. intros H. injection H as <-.
  exists ug, ll, ps, pg, r. split; [reflexivity|]. split; [exact Ha|]. split; [exact Ea|reflexivity].
Qed.

Lemma step_finish_shape i sec cid r :
  next_last_left (step_finish i sec cid r) = None /\
  (last_left (step_finish i sec cid r) = None -> nodes (step_finish i sec cid r) = []).
Proof.
  unfold step_finish. cbn [next_last_left last_left nodes]. split; [reflexivity|].
  destruct (next_last_left (fst r)); [discriminate|].
  destruct (pushed_nodes i sec (fst r) (snd r)); [reflexivity|discriminate].
Qed.

Lemma step_calm n i tok st0 st' : step n i tok st0 = Ok st' -> next_last_left st0 = None ->
  (next_last_left st' = None /\ (last_left st' = None -> nodes st' = [])) /\
  (is_pass_tok tok = true -> CalmSt st0 -> CalmSt st') /\
  (is_pass_tok tok = false -> tok <> TT_EndSideEffect -> CalmSt st').
Proof.
  intros Hstep Hnll.
  destruct (step_inv _ _ _ _ _ Hstep) as (ug & ll & ps & pg & r & Hug & Ha & Harm & ->).
  split; [apply step_finish_shape|]. split.
  - intros Hp Hc. destruct (adjust3_calm st0 ug ll ps pg Hc Hug Ha) as [-> _].
    assert (Hc' : forall ug', under_group_of (adjusted st0 (last_left st0) ps pg) = Ok ug' ->
                  finished_block (nodes (adjusted st0 (last_left st0) ps pg)) ug'
                                 (last_left (adjusted st0 (last_left st0) ps pg)) = false)
      by (intros ug' Hu; exact (Hc ug' Hu)).
    destruct tok; try discriminate Hp; cbn [get_definition fst snd step_arm] in Harm |- *.
    + exact (arm_ws_calm _ _ _ _ _ _ _ eq_refl Hc' Harm).
    + eapply arm_subexpr_calm; [| | | |exact Harm]; [exact Hnll|reflexivity|discriminate|exact Hc'].
    + eapply arm_subexpr_calm; [| | | |exact Harm]; [exact Hnll|reflexivity|discriminate|exact Hc'].
    + exact (arm_annot_calm _ _ _ _ _ _ eq_refl Hc' Harm).
    + exact (arm_annot_calm _ _ _ _ _ _ eq_refl Hc' Harm).
  - intros Hp Hne.
    destruct tok; try discriminate Hp; try congruence; cbn [get_definition fst snd step_arm] in Harm |- *;
      first
        [ eapply arm_value_calm; [| | |exact Harm]; [exact Hnll|reflexivity|discriminate]
        | eapply arm_binary_calm; [| | |exact Harm]; [exact Hnll|reflexivity|discriminate]
        | eapply arm_suffix_calm; [| | |exact Harm]; [exact Hnll|reflexivity|discriminate]
        | eapply arm_prefix_calm; [| | |exact Harm]; [exact Hnll|reflexivity|discriminate]
        | eapply arm_startgroup_calm; [| | |exact Harm]; [exact Hnll|reflexivity|discriminate]
        | eapply arm_startse_calm; [|exact Harm]; exact Hnll
        | eapply arm_end_calm; [| |exact Harm]; [reflexivity|discriminate] ].
Qed.

(* ---- a whole prefix ---- *)
Definition Quiet (acc : option token_type) (st : pstate) : Prop :=
  next_last_left st = None /\ (last_left st = None -> nodes st = []) /\
  (acc <> Some TT_EndSideEffect -> CalmSt st).

Lemma run_quiet n : forall pre i acc st st',
  run_steps n i pre st = Ok st' -> Quiet acc st -> Quiet (last_sig pre acc) st'.
Proof.
  induction pre as [|t r IH]; intros i acc st st' Hrun HQ; cbn [run_steps last_sig] in *.
  - injection Hrun as <-. exact HQ.
  - destruct (step n i t st) as [s1| | |] eqn:Es; cbn [bind] in Hrun; try discriminate Hrun.
    destruct HQ as (Hnll & Hnil & Hc).
    destruct (step_calm _ _ _ _ _ Es Hnll) as ((Hn1 & Hl1) & Hpass & Hpush).
    apply (IH (S i) _ s1 st' Hrun). split; [exact Hn1|]. split; [exact Hl1|].
    destruct (is_pass_tok t) eqn:Ep.
    + intros Hacc. apply Hpass; [reflexivity|]. apply Hc, Hacc.
    + intros Hacc. apply Hpush; [reflexivity|]. congruence.
Qed.

Lemma quiet_init : Quiet None init_state.
Proof.
  split; [reflexivity|]. split; [reflexivity|]. intros _ ug _. reflexivity.
Qed.

(* the adjustment has settled after every prefix whose last significant token is not the
   end of a side-effect block *)
Theorem settled_unless_block_end pre : not_after_block_end pre = true -> settled_after pre.
Proof.
  unfold not_after_block_end, settled_after, state_after. intros H.
  destruct (run_steps (S (length pre)) 0 pre init_state) as [st| | |] eqn:Er; try exact I.
  destruct (run_quiet _ _ _ _ _ _ Er quiet_init) as (_ & Hnil & Hc).
  apply calm_settled; [exact Hnil|]. apply Hc. intros Hl. rewrite Hl in H. discriminate H.
Qed.
