(* data_equal (the machine's worklist comparison, unfolded on trees) is the
   evaluator's structural equality on values of the core language. *)
From Coq Require Import ZArith NArith List Bool Arith Lia.
From GV Require Import Base.Result Base.Host Gen.Instr Model.Num Model.Value Model.Machine Spec.Ast Spec.Eval.
Import ListNotations.

Section ValInd.
Variable P : val -> Prop.
Hypothesis Hpair : forall a b, P a -> P b -> P (VPair a b).
Hypothesis Hlist : forall l, Forall P l -> P (VList l).
Hypothesis Hother : forall v, (match v with VPair _ _ | VList _ => False | _ => True end) -> P v.

Fixpoint val_ind_nested (v : val) : P v :=
  match v as v0 return P v0 with
  | VPair a b => Hpair a b (val_ind_nested a) (val_ind_nested b)
  | VList l =>
      Hlist l ((fix go (l : list val) : Forall P l :=
                  match l with
                  | [] => Forall_nil P
                  | x :: r => Forall_cons x (val_ind_nested x) (go r)
                  end) l)
  | v0 => Hother v0 I
  end.
End ValInd.

Lemma items_eqb_list_eqb : forall a b, items_eqb a b = list_eqb N.eqb a b.
Proof. induction a; destruct b; cbn; auto. rewrite IHa. reflexivity. Qed.

Lemma symparts_same : forall a b, symparts_eqb a b = list_eqb Eval.sympart_eqb a b.
Proof. induction a; destruct b; cbn; auto. rewrite IHa. reflexivity. Qed.

Lemma data_equal_veq : forall l r,
  core_value l = true -> core_value r = true -> data_equal l r = Some (veq l r).
Proof.
  intros l. pattern l. apply val_ind_nested; clear l.
  - (* pair *)
    intros a b IHa IHb r Hl Hr. destruct r; cbn in Hl, Hr |- *; try reflexivity; try discriminate.
    apply andb_prop in Hl. destruct Hl as [Ha Hb]. apply andb_prop in Hr. destruct Hr as [Hr1 Hr2].
    rewrite (IHa _ Ha Hr1), (IHb _ Hb Hr2). reflexivity.
  - (* list *)
    intros xs IH r Hl Hr. destruct r; cbn in Hl, Hr; try discriminate; try reflexivity.
    cbn [data_equal veq].
    revert items Hr. induction IH as [|x xs Px Pxs IHxs]; intros ys Hr; destruct ys as [|y ys]; try reflexivity.
    cbn in Hl, Hr. apply andb_prop in Hl. destruct Hl as [Hx Hxs]. apply andb_prop in Hr. destruct Hr as [Hy Hys].
    rewrite (Px _ Hx Hy). specialize (IHxs Hxs ys Hys).
    cbn in IHxs. rewrite IHxs. reflexivity.
  - (* everything else *)
    intros v Hv r Hl Hr.
    destruct v; try contradiction; cbn in Hl; try discriminate;
      destruct r; cbn in Hr; try discriminate; cbn [data_equal veq]; try reflexivity;
      try (rewrite items_eqb_list_eqb; reflexivity);
      try (rewrite symparts_same; reflexivity).
    all: destruct l as [|c0 [|c1 r]]; try reflexivity; cbn; try reflexivity; try (rewrite N.eqb_sym; reflexivity).
    all: try (destruct l0 as [|y [|y0 r0]]; cbn; rewrite ?items_eqb_list_eqb; reflexivity).
Qed.
