(* cmp driver (C12): reads the cmp harness output lines
     <left value> <right value>\t<impl results>\t-
   (value syntax: harness/src/valtree.rs) and prints
     <case>\t<m6>\t<order>
   m6: the model's results for  <  <=  >  >=  ==  !=  as letters
       T | F | U | E (model error) | ~ (outside the model: Slice x Slice) | - (== outside C12's domain)
   order: Lt | Eq | Gt | NC (not comparable) from Spec.NatOrder.nat_order_exec, or - (float involved) *)
let pos = ref 0
let src = ref ""
let peek () = if !pos < String.length !src then !src.[!pos] else '\000'
let adv () = incr pos
let skip_spaces () = while peek () = ' ' do adv () done
let word () =
  let st = !pos in
  while !pos < String.length !src && not (List.mem !src.[!pos] [' '; ')'; '('; ','; ']'; '['; '=']) do adv () done;
  String.sub !src st (!pos - st)
let hex_list () : string list =
  if peek () <> '[' then failwith "expected [";
  adv ();
  let out = ref [] in
  let fin = ref false in
  while not !fin do
    if peek () = ']' then (adv (); fin := true)
    else if peek () = ',' then adv ()
    else out := word () :: !out
  done;
  List.rev !out

let rec value () : val0 =
  let c = peek () in
  adv ();
  match c with
  | 'U' -> VUnit | 'T' -> VTrue | 'F' -> VFalse
  | 'i' -> VNum (Int (z_of_hex (word ())))
  | 'f' -> VNum (Flt (b64_of_bits (z_of_hex (word ()))))
  | 'c' -> VChar (n_of_hex (word ()))
  | 'b' -> VByte (n_of_hex (word ()))
  | 's' -> VSym (n_of_hex (word ()))
  | 'Y' -> VType (List.nth all_data_type (int_of_string (word ())))
  | 'E' -> VExpr (n_of_hex (word ()))
  | 'X' -> VExternal (n_of_hex (word ()))
  | 'C' -> VChars (List.map n_of_hex (hex_list ()))
  | 'B' -> VBytes (List.map n_of_hex (hex_list ()))
  | 'S' -> VSymList (List.map (fun h -> SPSym (n_of_hex h)) (hex_list ()))
  | '!' -> value ()
  | '#' -> let _ = word () in adv (); value ()
  | '(' ->
    let k = peek () in
    adv ();
    let two () =
      skip_spaces (); let a = value () in skip_spaces (); let b = value () in skip_spaces ();
      if peek () <> ')' then failwith "expected )"; adv (); (a, b) in
    (match k with
     | 'P' -> let (a, b) = two () in VPair (a, b)
     | 'K' -> let (a, b) = two () in VConcat (a, b)
     | 'R' -> let (a, b) = two () in VRange (a, b)
     | 'Z' -> let (a, b) = two () in VSlice (a, b)
     | 'A' -> let (a, b) = two () in VPartial (a, b)
     | 'L' ->
       let items = ref [] in
       let fin = ref false in
       while not !fin do
         skip_spaces ();
         if peek () = ')' then (adv (); fin := true) else items := value () :: !items
       done;
       VList (List.rev !items)
     | _ -> failwith "bad form")
  | _ -> failwith "bad value syntax"

let letter (r : val0 res) : string =
  match r with
  | Ok VTrue -> "T" | Ok VFalse -> "F" | Ok VUnit -> "U" | Ok _ -> "?"
  | Err c -> if int_of_n c = 99 then "~" else "E"
  | Panic _ -> "P" | OutOfFuel -> "H"

let () =
  iter_lines (fun line ->
    match split_on '\t' line with
    | case :: _ ->
      src := case; pos := 0;
      skip_spaces ();
      let l = value () in
      skip_spaces ();
      let r = value () in
      let ops = String.concat "" (List.map (fun o -> letter (compare_op o l r)) all_cmp_op) in
      let eq = (match prim_equal l r with
                | Some true -> "TF" | Some false -> "FT" | None -> "--") in
      let ord = (match nat_order_exec l r with
                 | None -> "-"
                 | Some None -> "NC"
                 | Some (Some Lt) -> "Lt" | Some (Some Eq) -> "Eq" | Some (Some Gt) -> "Gt") in
      Printf.printf "%s\t%s%s\t%s\n" case ops eq ord
    | _ -> failwith ("bad line " ^ line))
