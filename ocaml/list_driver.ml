(* list driver (C16); the first part (conversions, views, tree printer) is the same text as in store_driver.ml.
   store driver header follows: reads the output lines of harness/src/bin/store.rs
     <case>\t<impl results and dumps>\t<oracle>
   runs the same history on the extracted store model and prints
     <case>\t<model results and dumps>\t-
   in exactly the harness' format (see the header of store.rs). *)
let nat_of_int (i : int) : nat =
  let r = ref O in
  for _ = 1 to i do r := S !r done;
  !r
let int_of_nat (x : nat) : int =
  let rec go acc = function O -> acc | S y -> go (acc + 1) y in
  go 0 x

let sp = Printf.sprintf
(* split on a separator string (no Str dependency) *)
let split_str (sep : string) (s : string) : string list =
  let n = String.length s and m = String.length sep in
  let rec go start i acc =
    if i + m > n then Stdlib.List.rev (String.sub s start (n - start) :: acc)
    else if String.sub s i m = sep then go (i + m) (i + m) (String.sub s start (i - start) :: acc)
    else go start (i + 1) acc in
  go 0 0 []
let join = String.concat
let dotted l = if l = [] then "-" else join "." l
let hexn (v : n) = hex_of_n v

let parse_dotted_hex (s : string) : n list =
  if s = "-" then [] else Stdlib.List.map n_of_hex (split_on '.' s)

let show_snum = function
  | SInt v -> "i" ^ hex_of_z v
  | SFlt b ->
    let h = hex_of_n b in
    "f" ^ String.make (max 0 (16 - String.length h)) '0' ^ h
let parse_snum (s : string) : snum =
  let body = String.sub s 1 (String.length s - 1) in
  match s.[0] with
  | 'i' -> SInt (z_of_hex body)
  | 'f' -> SFlt (n_of_hex body)
  | _ -> failwith ("bad num " ^ s)

let instr_tbl = Array.of_list all_instruction
let type_tbl = Array.of_list all_data_type
let instr_ix i = int_of_n (instruction_index i)
let type_ix t = int_of_n (data_type_index t)

(* a read-only view of either store *)
type 's view = {
  v_type : int -> 's -> data_type res;
  v_number : int -> 's -> snum res;
  v_ty : int -> 's -> data_type res;
  v_char : int -> 's -> n res;
  v_byte : int -> 's -> n res;
  v_symbol : int -> 's -> n res;
  v_expression : int -> 's -> nat res;
  v_external : int -> 's -> nat res;
  v_pair : int -> 's -> (nat * nat) res;
  v_concat : int -> 's -> (nat * nat) res;
  v_range : int -> 's -> (nat * nat) res;
  v_slice : int -> 's -> (nat * nat) res;
  v_partial : int -> 's -> (nat * nat) res;
  v_list_len : int -> 's -> nat res;
  v_list_item : int -> int -> 's -> nat option res;
  v_clist_len : int -> 's -> nat res;
  v_clist_item : int -> int -> 's -> n option res;
  v_blist_len : int -> 's -> nat res;
  v_blist_item : int -> int -> 's -> n option res;
  v_slist_len : int -> 's -> nat res;
  v_slist_item : int -> int -> 's -> string option res;
}

let ni = nat_of_int
let basic_view : basic view = {
  v_type = (fun a s -> get_data_type (ni a) s);
  v_number = (fun a s -> get_number (ni a) s);
  v_ty = (fun a s -> get_type (ni a) s);
  v_char = (fun a s -> get_char (ni a) s);
  v_byte = (fun a s -> get_byte (ni a) s);
  v_symbol = (fun a s -> get_symbol (ni a) s);
  v_expression = (fun a s -> get_expression (ni a) s);
  v_external = (fun a s -> get_external (ni a) s);
  v_pair = (fun a s -> get_pair (ni a) s);
  v_concat = (fun a s -> get_concatenation (ni a) s);
  v_range = (fun a s -> get_range (ni a) s);
  v_slice = (fun a s -> get_slice (ni a) s);
  v_partial = (fun a s -> get_partial (ni a) s);
  v_list_len = (fun a s -> get_list_len (ni a) s);
  v_list_item = (fun a i s -> get_list_item (ni a) (z_of_int i) s);
  v_clist_len = (fun a s -> get_char_list_len (ni a) s);
  v_clist_item = (fun a i s -> get_char_list_item (ni a) (ni i) s);
  v_blist_len = (fun a s -> get_byte_list_len (ni a) s);
  v_blist_item = (fun a i s -> get_byte_list_item (ni a) (ni i) s);
  v_slist_len = (fun a s -> get_symbol_list_len (ni a) s);
  v_slist_item = (fun a i s ->
    match get_symbol_list_item (ni a) (ni i) s with
    | Ok (Some (Inl x)) -> Ok (Some ("s" ^ hexn x))
    | Ok (Some (Inr x)) -> Ok (Some ("n" ^ show_snum x))
    | Ok None -> Ok None
    | Err e -> Err e | Panic p -> Panic p | OutOfFuel -> OutOfFuel);
}
let zi i = z_of_int i
let simple_view : simple view = {
  v_type = (fun a s -> s_get_data_type (ni a) s);
  v_number = (fun a s -> s_get_number (ni a) s);
  v_ty = (fun a s -> s_get_type (ni a) s);
  v_char = (fun a s -> s_get_char (ni a) s);
  v_byte = (fun a s -> s_get_byte (ni a) s);
  v_symbol = (fun a s -> s_get_symbol (ni a) s);
  v_expression = (fun a s -> s_get_expression (ni a) s);
  v_external = (fun a s -> s_get_external (ni a) s);
  v_pair = (fun a s -> s_get_pair (ni a) s);
  v_concat = (fun a s -> s_get_concatenation (ni a) s);
  v_range = (fun a s -> s_get_range (ni a) s);
  v_slice = (fun a s -> s_get_slice (ni a) s);
  v_partial = (fun a s -> s_get_partial (ni a) s);
  v_list_len = (fun a s -> s_get_list_len (ni a) s);
  v_list_item = (fun a i s -> s_get_list_item (ni a) (zi i) s);
  v_clist_len = (fun a s -> s_get_char_list_len (ni a) s);
  v_clist_item = (fun a i s -> s_get_char_list_item (ni a) (zi i) s);
  v_blist_len = (fun a s -> s_get_byte_list_len (ni a) s);
  v_blist_item = (fun a i s -> s_get_byte_list_item (ni a) (zi i) s);
  v_slist_len = (fun a s -> s_get_symbol_list_len (ni a) s);
  v_slist_item = (fun a i s ->
    match s_get_symbol_list_item (ni a) (zi i) s with
    | Ok (Some x) -> Ok (Some ("s" ^ hexn x))
    | Ok None -> Ok None
    | Err e -> Err e | Panic p -> Panic p | OutOfFuel -> OutOfFuel);
}

exception Model_panic
exception Model_hang
(* the implementation stopped (panicked) before the step whose oracle value is needed *)
exception Oracle_missing
(* Err -> None; a model panic / hang inside a getter aborts the dump *)
let okv (r : 'a res) : 'a option =
  match r with Ok a -> Some a | Err _ -> None | Panic _ -> raise Model_panic | OutOfFuel -> raise Model_hang

let range n = Stdlib.List.init n (fun i -> i)

let rec tree : 's. 's view -> 's -> int -> int -> string = fun v s addr depth ->
  match okv (v.v_type addr s) with
  | None -> "Err"
  | Some t ->
    let two name r =
      match okv r with
      | None -> name ^ "(Err)"
      | Some (a, b) ->
        if depth = 0 then name ^ "(~)"
        else sp "%s(%s,%s)" name (tree v s (int_of_nat a) (depth - 1)) (tree v s (int_of_nat b) (depth - 1)) in
    let leaf name f r = match okv r with None -> name ^ "(Err)" | Some x -> sp "%s(%s)" name (f x) in
    let items len_r item f =
      match okv len_r with
      | None -> None
      | Some len ->
        Some (Stdlib.List.map (fun i ->
          match item i with
          | Ok (Some x) -> f x
          | Ok None -> "?"
          | Err _ -> "!"
          | Panic _ -> raise Model_panic
          | OutOfFuel -> raise Model_hang) (range (int_of_nat len))) in
    (match t with
     | T_Invalid -> "Inv"
     | T_Unit -> "U" | T_True -> "T" | T_False -> "F" | T_Custom -> "Cu"
     | T_Type -> leaf "Ty" (fun t -> string_of_int (type_ix t)) (v.v_ty addr s)
     | T_Number -> leaf "N" show_snum (v.v_number addr s)
     | T_Char -> leaf "Ch" hexn (v.v_char addr s)
     | T_Byte -> leaf "By" hexn (v.v_byte addr s)
     | T_Symbol -> leaf "Sy" hexn (v.v_symbol addr s)
     | T_Expression -> leaf "Ex" (fun x -> string_of_int (int_of_nat x)) (v.v_expression addr s)
     | T_External -> leaf "Xt" (fun x -> string_of_int (int_of_nat x)) (v.v_external addr s)
     | T_CharList ->
       (match items (v.v_clist_len addr s) (fun i -> v.v_clist_item addr i s) hexn with
        | None -> "Cl(Err)" | Some l -> sp "Cl(%s)" (dotted l))
     | T_ByteList ->
       (match items (v.v_blist_len addr s) (fun i -> v.v_blist_item addr i s) hexn with
        | None -> "Bl(Err)" | Some l -> sp "Bl(%s)" (dotted l))
     | T_SymbolList ->
       (match items (v.v_slist_len addr s) (fun i -> v.v_slist_item addr i s) (fun x -> x) with
        | None -> "SyL(Err)" | Some l -> sp "SyL(%s)" (dotted l))
     | T_Pair -> two "P" (v.v_pair addr s)
     | T_Concatenation -> two "Cc" (v.v_concat addr s)
     | T_Range -> two "Rg" (v.v_range addr s)
     | T_Slice -> two "Sl" (v.v_slice addr s)
     | T_Partial -> two "Pt" (v.v_partial addr s)
     | T_List ->
       (match okv (v.v_list_len addr s) with
        | None -> "L(Err)"
        | Some len ->
          if depth = 0 then "L(~)"
          else
            let its = Stdlib.List.map (fun i ->
              match v.v_list_item addr i s with
              | Ok (Some a) -> tree v s (int_of_nat a) (depth - 1)
              | Ok None -> "?"
              | Err _ -> "!"
              | Panic _ -> raise Model_panic
              | OutOfFuel -> raise Model_hang) (range (int_of_nat len)) in
            sp "L(%s)" (join "," its)))

let us x = string_of_int (int_of_nat x)
let depth = 3
let fuel = nat_of_int 100000

(* everything the harness does with a store, for either model *)
type 's store = {
  ops : 's dataOps;
  view : 's view;
  add_number : snum -> ('s, nat) sM;
  add_symbol : n -> ('s, nat) sM;
  add_pair : nat -> nat -> ('s, nat) sM;
  add_text : n list -> ('s, nat) sM;
  list_iter : nat -> 's -> nat list option;
}

let utf8_len (cps : n list) : int =
  Stdlib.List.fold_left (fun acc c ->
    let c = int_of_n c in
    acc + (if c < 0x80 then 1 else if c < 0x800 then 2 else if c < 0x10000 then 3 else 4)) 0 cps

let basic_store : basic store = {
  ops = basic_ops; view = basic_view;
  add_number = add_number; add_symbol = add_symbol; add_pair = add_pair;
  add_text = (fun cps -> add_string (ni (utf8_len cps)) cps);
  list_iter = (fun l s -> match get_list_item_iter_all l s with Ok v -> Some v | Err _ -> None | Panic _ -> raise Model_panic | OutOfFuel -> raise Model_hang);
}

let simple_store (h : sdata -> n) : simple store = {
  ops = simple_ops h; view = simple_view;
  add_number = s_add_number h; add_symbol = s_add_symbol h; add_pair = s_add_pair;
  add_text = (fun cps -> sbind s_start_char_list (fun _ -> sbind (sfor cps s_add_to_char_list) (fun _ -> s_end_char_list h)));
  list_iter = (fun l s -> Some (s_get_list_item_iter l s));
}

exception Stop of string

let run_case (type s) (st : s store) (s0 : s) (items : string list) (syms : n list) (items2 : string list option) : string =
  let cur = ref s0 in
  (* run a state-monad computation: Some a / None on a handled error *)
  let exec : 'a. (s, 'a) sM -> 'a option = fun m ->
    match m !cur with
    | Ok (s', Done a) -> cur := s'; Some a
    | Ok (s', Fail _) -> cur := s'; None
    | Err _ -> None
    | Panic _ -> raise Model_panic
    | OutOfFuel -> raise Model_hang in
  let need what = function Some a -> a | None -> raise (Stop what) in
  let build_direct addrs = exec (build_list st.ops addrs) in
  let int_num k = SInt (z_of_int k) in
  let make_item (spec : string) : nat =
    let body = String.sub spec 1 (String.length spec - 1) in
    let kv () = match split_on '=' body with [k; v] -> k, v | _ -> failwith "k=v" in
    need "ITEMERR"
      (match spec.[0] with
       | 'n' -> exec (st.add_number (int_num (int_of_string body)))
       | 't' -> exec (st.add_text (parse_dotted_hex body))
       | 's' -> exec (st.add_symbol (n_of_hex body))
       | 'k' ->
         let k, v = kv () in
         (match exec (st.add_symbol (n_of_hex k)) with
          | None -> None
          | Some ka ->
            (match exec (st.add_number (int_num (int_of_string v))) with
             | None -> None
             | Some va -> exec (st.add_pair ka va)))
       | 'p' ->
         let k, v = kv () in
         (match exec (st.add_number (int_num (int_of_string k))) with
          | None -> None
          | Some ka ->
            (match exec (st.add_number (int_num (int_of_string v))) with
             | None -> None
             | Some va -> exec (st.add_pair ka va)))
       | 'l' ->
         let count = int_of_string body in
         let its = Stdlib.List.map (fun i -> need "ITEMERR" (exec (st.add_number (int_num i)))) (range count) in
         build_direct its
       | 'u' -> exec st.ops.d_add_unit
       | _ -> failwith ("bad item " ^ spec)) in
  let tr a = tree st.view !cur (int_of_nat a) depth in
  let show (r : nat option res) : string =
    match r with
    | Ok (Some a) -> tr a
    | Ok None -> "none"
    | Err _ -> "err"
    | Panic _ -> raise Model_panic
    | OutOfFuel -> raise Model_hang in
  let reg_len () = match st.ops.d_get_register_len !cur with Ok x -> int_of_nat x | Err _ -> 0 | Panic _ -> raise Model_panic | OutOfFuel -> raise Model_hang in
  let via_op (left : nat) (key : nat) (apply : bool) : string =
    let before = reg_len () in
    let p1 = exec (st.ops.d_push_register left) in
    let p2 = if p1 = None then None else exec (st.ops.d_push_register key) in
    if p1 = None || p2 = None then "err"
    else begin
      let r = exec (if apply then apply_list st.ops fuel else access st.ops fuel) in
      let out =
        (match r with
         | None -> "err"
         | Some () ->
           (match st.ops.d_pop_register !cur with
            | Ok (s', Done (Some a)) -> cur := s'; tr a
            | Ok (s', Done None) -> cur := s'; "none"
            | Ok (s', Fail _) -> cur := s'; "err"
            | Err _ -> "err"
            | Panic _ -> raise Model_panic
            | OutOfFuel -> raise Model_hang)) in
      let continue = ref true in
      while !continue && reg_len () > before do
        (match exec st.ops.d_pop_register with None -> continue := false | Some _ -> ())
      done;
      out
    end in
  let queries (addr : nat) (n_hint : int) (is_list : bool) : string =
    let parts = ref [] in
    let add p = parts := p :: !parts in
    if is_list then begin
      add (sp "len=%s" (match st.ops.d_get_list_len addr !cur with Ok x -> us x | Err _ -> "err" | Panic _ -> raise Model_panic | OutOfFuel -> raise Model_hang));
      add (sp "items=%s" (join "," (Stdlib.List.map (fun k ->
        sp "%d:%s" k (show (st.ops.d_get_list_item addr (z_of_int k) !cur))) (Stdlib.List.init (n_hint + 3) (fun i -> i - 1)))));
      add (sp "iter=%s" (match st.list_iter addr !cur with Some v -> join "," (Stdlib.List.map tr v) | None -> "err"));
      add (sp "sym=%s" (join "," (Stdlib.List.map (fun sy -> sp "%s:%s" (hexn sy) (show (st.ops.d_get_list_item_with_symbol addr sy !cur))) syms)))
    end else begin
      Stdlib.List.iter (fun (name, rev) ->
        let seen = ref [] in
        let r = exec (iterate_concatenation st.ops fuel rev (fun i a _ -> seen := (i, a) :: !seen; Ok None) addr) in
        let txt =
          (match r with
           | Some (_, total) ->
             sp "%s/%s" (join "," (Stdlib.List.rev_map (fun (i, a) -> sp "i%x:%s" (int_of_nat i) (tr a)) !seen)) (us total)
           | None -> "err") in
        add (sp "%s=%s" name txt)) [("iter", false); ("riter", true)]
    end;
    Stdlib.List.iter (fun (name, apply) ->
      if apply && not is_list then ()
      else begin
        let out = ref [] in
        Stdlib.List.iter (fun k ->
          let r = (match exec (st.add_number (int_num k)) with Some ka -> via_op addr ka apply | None -> "err") in
          out := sp "i%d:%s" k r :: !out) (Stdlib.List.init (n_hint + 4) (fun i -> i - 2));
        Stdlib.List.iter (fun sy ->
          let r = (match exec (st.add_symbol sy) with Some ka -> via_op addr ka apply | None -> "err") in
          out := sp "y%s:%s" (hexn sy) r :: !out) syms;
        add (sp "%s=%s" name (join "," (Stdlib.List.rev !out)))
      end) [("acc", false); ("app", true)];
    join " " (Stdlib.List.rev !parts) in
  try
    let out = ref [] in
    let addrs = Stdlib.List.map make_item items in
    let n = Stdlib.List.length addrs in
    let la = need "BUILDERR" (build_direct addrs) in
    out := sp "A@%s{%s}" (us la) (queries la n true) :: !out;
    let ok = Stdlib.List.for_all (fun a -> exec (st.ops.d_push_register a) <> None) addrs in
    let lb =
      if ok && exec (make_list st.ops (ni n)) <> None then
        (match st.ops.d_pop_register !cur with
         | Ok (s', Done (Some a)) -> cur := s'; Some a
         | Ok (s', _) -> cur := s'; None
         | Err _ -> None
         | Panic _ -> raise Model_panic
         | OutOfFuel -> raise Model_hang)
      else None in
    (match lb with
     | Some lb -> out := sp "B@%s{%s}" (us lb) (queries lb n true) :: !out
     | None -> out := "B@err" :: !out);
    (match items2 with
     | None -> ()
     | Some items2 ->
       let addrs2 = Stdlib.List.map make_item items2 in
       let l2 = need "BUILDERR" (build_direct addrs2) in
       let total = n + Stdlib.List.length addrs2 in
       (match exec (st.ops.d_add_concatenation la l2) with
        | Some c1 ->
          out := sp "C1@%s{%s}" (us c1) (queries c1 total false) :: !out;
          let x = (match addrs with [] -> exec st.ops.d_add_unit | a :: _ -> Some a) in
          (match x with
           | Some x ->
             (match exec (st.ops.d_add_concatenation c1 x) with
              | Some c2 -> out := sp "C2@%s{%s}" (us c2) (queries c2 (total + 1) false) :: !out
              | None -> ())
           | None -> ())
        | None -> out := "C1@err" :: !out));
    join " " (Stdlib.List.rev !out)
  with
  | Stop what -> what
  | Model_panic -> "PANIC"
  | Model_hang -> "HANG"

let () =
  iter_lines (fun line ->
    match split_on '\t' line with
    | case :: _ :: oracle :: _ ->
      let secs = Array.of_list (split_str " | " case) in
      let toks s = if s = "-" || s = "" then [] else split_on ' ' s in
      let items = toks secs.(1) in
      let syms = Stdlib.List.map n_of_hex (toks secs.(2)) in
      let items2 = if Array.length secs > 3 && secs.(3) <> "-" then Some (toks secs.(3)) else None in
      let htable : (sdata * n) list =
        if oracle = "-" then []
        else Stdlib.List.map (fun e ->
          match split_on '=' e with
          | [k; v] ->
            let body = String.sub k 1 (String.length k - 1) in
            let key = (match k.[0] with
                | 'N' -> SNumber (parse_snum body)
                | 'S' -> SSymbol (n_of_hex body)
                | 'T' -> SCharList (parse_dotted_hex body)
                | _ -> failwith "oracle kind") in
            (key, n_of_hex v)
          | _ -> failwith ("bad oracle entry " ^ e)) (split_on ' ' oracle) in
      let hf v = match Stdlib.List.assoc_opt v htable with Some x -> x | None -> raise (Stop "NO-ORACLE") in
      let res =
        (match secs.(0) with
         | "B" ->
           let small = { initial_size = ni 16; max_items = None; strat = FixedSize (ni 16) } in
           let big = { initial_size = ni 2048; max_items = None; strat = FixedSize (ni 2048) } in
           (match new_with_settings small small small small big small with
            | Ok (s0, Done ()) -> run_case basic_store s0 items syms items2
            | _ -> "NEWERR")
         | "S" -> (try run_case (simple_store hf) simple_new items syms items2 with Stop w -> w)
         | _ -> failwith "bad impl") in
      Printf.printf "%s\t%s\t-\n" case res
    | _ -> failwith ("bad line " ^ line))
