(* C15: every operation of the Basic store model, run from a state satisfying
   [G], returns normally (no panic, no fuel exhaustion), re-establishes [G]
   and is [Stable]. *)
From Coq Require Import NArith List Bool Arith Lia Permutation.
From GV Require Import Base.Result Gen.Instr Model.StoreBase Model.BasicStore Model.StoreOps Spec.AbsTables
  Proofs.C15.ListFacts Proofs.C15.Layout Proofs.C15.Stable.
Import ListNotations.

Definition okm {A} (m : BM A) (s : basic) : Prop :=
  exists s' r, m s = Ok (s', r) /\ G s' /\ Stable s s'.

Lemma okm_bind : forall A B (m : BM A) (f : A -> BM B) s s1 r,
  m s = Ok (s1, r) -> G s1 -> Stable s s1 -> (forall a, r = Done a -> okm (f a) s1) -> okm (sbind m f) s.
Proof.
  intros A B m f s s1 r Hm G1 S1 Hf. unfold okm, sbind. rewrite Hm. destruct r as [a|e].
  - destruct (Hf a eq_refl) as (s' & r' & Hr & G' & S'). exists s', r'. split; [exact Hr|]. split; [exact G'|].
    eapply Stable_trans; eassumption.
  - exists s1, (Fail e). auto.
Qed.

Lemma okm_ret : forall A (a : A) s, G s -> okm (sret a) s.
Proof. intros. exists s, (Done a). split; [reflexivity|]. split; [assumption|apply Stable_refl]. Qed.

Lemma okm_fail : forall A e s, G s -> okm (@sfail basic A e) s.
Proof. intros. exists s, (Fail e). split; [reflexivity|]. split; [assumption|apply Stable_refl]. Qed.

Lemma data_len : forall s, Inv s -> length (data s) = cur s BData.
Proof. intros. apply window_len. assumption. Qed.

(* ---- exact effect of pushes to the data block ---- *)
Definition appended (s s' : basic) (cells : list cell) : Prop :=
  Good s' /\ data s' = data s ++ cells /\ (forall b, b <> BData -> window s' b = window s b) /\ same_heads s s'.

Lemma appended_refl : forall s, Good s -> appended s s [].
Proof. intros s Gs. split; [assumption|]. split; [symmetry; apply app_nil_r|]. split; [auto|apply same_heads_refl]. Qed.

Lemma appended_trans : forall a b c l1 l2, appended a b l1 -> appended b c l2 -> appended a c (l1 ++ l2).
Proof.
  intros a b c l1 l2 (G1 & D1 & W1 & H1) (G2 & D2 & W2 & H2). split; [assumption|].
  split; [rewrite D2, D1, app_assoc; reflexivity|]. split; [|eapply same_heads_trans; eassumption].
  intros x Hx. rewrite W2, W1; auto.
Qed.

Lemma push_data_raw : forall s c, Good s ->
  exists s', push_to_data_block c s = Ok (s', Done (length (data s))) /\ appended s s' [c].
Proof.
  intros s c Gs. unfold push_to_data_block.
  destruct (push_to_ok s BData c Gs) as (s' & Hp & G' & Hw & Ho & _ & _ & Hh).
  exists s'. rewrite (data_len s (good_inv s Gs)). split; [exact Hp|].
  split; [exact G'|]. split; [exact Hw|]. split; [exact Ho|exact Hh].
Qed.

Lemma push_all_raw : forall cells s, Good s ->
  exists s', push_all cells s = Ok (s', Done tt) /\ appended s s' cells.
Proof.
  induction cells as [|c r IH]; intros s Gs.
  - exists s. split; [reflexivity|apply appended_refl; assumption].
  - unfold push_all. cbn [sfor]. unfold sbind at 1.
    destruct (push_data_raw s c Gs) as (s1 & Hp & A1).
    unfold sbind at 1. rewrite Hp. cbn [sret].
    destruct (IH s1 (proj1 A1)) as (s2 & Hr & A2). unfold push_all in Hr. rewrite Hr.
    exists s2. split; [reflexivity|]. apply (appended_trans s s1 s2 [c] r); assumption.
Qed.

Lemma push_empties_raw : forall n s, Good s ->
  exists s', srepeat n (sdo _ <- push_to_data_block CEmpty ; sret tt) s = Ok (s', Done tt) /\ appended s s' (repeat CEmpty n).
Proof.
  induction n as [|n IH]; intros s Gs.
  - exists s. split; [reflexivity|apply appended_refl; assumption].
  - cbn [srepeat]. unfold sbind at 1. destruct (push_data_raw s CEmpty Gs) as (s1 & Hp & A1).
    unfold sbind at 1. rewrite Hp. cbn [sret].
    destruct (IH s1 (proj1 A1)) as (s2 & Hr & A2). rewrite Hr.
    exists s2. split; [reflexivity|]. apply (appended_trans s s1 s2 [CEmpty] (repeat CEmpty n)); assumption.
Qed.

Lemma appended_stable : forall s s' cells, appended s s' cells -> Stable s s'.
Proof.
  intros s s' cells (G' & D & W & H). unfold data in D.
  constructor.
  - intro b. destruct (blk_eqb b BData) eqn:E.
    + apply blk_eqb_eq in E. subst b. rewrite D, app_length. lia.
    + apply blk_eqb_neq in E. rewrite (W b E). lia.
  - intros i [c [Hc _]]. unfold data in *. rewrite D. apply nth_error_app1. apply nth_error_Some. congruence.
  - intros i c Hc. rewrite W by congruence. exact Hc.
  - intros i c Hc. rewrite W by congruence. exact Hc.
  - intros c Hc. rewrite W by congruence. exact Hc.
  - intros c Hc. rewrite W by congruence. exact Hc.
Qed.

Lemma appended_G : forall s s' cells, G s -> appended s s' cells -> RegionOk (data s ++ cells) ->
  (forall c, In c cells -> frame_ok c) -> G s'.
Proof.
  intros s s' cells [Gd R F C] (G' & D & W & H) HR HF. constructor.
  - exact G'.
  - rewrite D. exact HR.
  - rewrite D. apply frames_app; assumption.
  - destruct H as (_ & _ & Hf & _). rewrite Hf. exact C.
Qed.

(* a push of cells that are not list headers *)
Lemma appended_G_plain : forall s s' cells, G s -> appended s s' cells ->
  (forall c, In c cells -> header_len c = None) -> (forall c, In c cells -> frame_ok c) -> G s'.
Proof.
  intros s s' cells Gs A Hh Hf. eapply appended_G; try eassumption. apply region_app; [apply (g_region s Gs)|exact Hh].
Qed.

Definition plain (c : cell) : Prop := header_len c = None /\ frame_ok c.

Lemma push_data_ok : forall s c, G s -> plain c ->
  exists s', push_to_data_block c s = Ok (s', Done (length (data s))) /\ G s' /\ Stable s s' /\ appended s s' [c].
Proof.
  intros s c Gs [Hh Hf]. destruct (push_data_raw s c (g_good s Gs)) as (s' & Hp & A).
  exists s'. split; [exact Hp|]. split; [|split; [eapply appended_stable; eassumption|exact A]].
  eapply appended_G_plain; try eassumption; intros c' [<-|[]]; assumption.
Qed.

Lemma push_all_ok : forall cells s, G s -> (forall c, In c cells -> plain c) ->
  exists s', push_all cells s = Ok (s', Done tt) /\ G s' /\ Stable s s' /\ appended s s' cells.
Proof.
  intros cells s Gs Hp. destruct (push_all_raw cells s (g_good s Gs)) as (s' & Hr & A).
  exists s'. split; [exact Hr|]. split; [|split; [eapply appended_stable; eassumption|exact A]].
  eapply appended_G_plain; try eassumption; intros c Hc; apply (Hp c Hc).
Qed.

(* ---- pushes to the other blocks ---- *)
Lemma push_other_ok : forall s b c, G s -> b <> BData ->
  exists s', push_to b c s = Ok (s', Done (cur s b)) /\ G s' /\ Stable s s' /\
    window s' b = window s b ++ [c] /\ (forall b', b' <> b -> window s' b' = window s b') /\ same_heads s s'.
Proof.
  intros s b c Gs Hb. destruct (push_to_ok s b c (g_good s Gs)) as (s' & Hp & G' & Hw & Ho & _ & _ & Hh).
  exists s'. split; [exact Hp|]. split; [|split; [|split; [exact Hw|split; [exact Ho|exact Hh]]]].
  - destruct Gs as [Gd R F C]. constructor; [exact G'| | |].
    + unfold data. rewrite Ho by congruence. exact R.
    + unfold data. rewrite Ho by congruence. exact F.
    + destruct Hh as (_ & _ & Hf & _). rewrite Hf. exact C.
  - constructor.
    + intro x. destruct (blk_eqb x b) eqn:E.
      * apply blk_eqb_eq in E. subst x. rewrite Hw, app_length. lia.
      * apply blk_eqb_neq in E. rewrite (Ho x E). lia.
    + intros i _. unfold data. rewrite Ho by congruence. reflexivity.
    + intros i c0 Hc. destruct (blk_eqb BInstr b) eqn:E.
      * apply blk_eqb_eq in E. subst b. rewrite Hw. rewrite nth_error_app1; [exact Hc|]. apply nth_error_Some. congruence.
      * apply blk_eqb_neq in E. rewrite (Ho _ E). exact Hc.
    + intros i c0 Hc. destruct (blk_eqb BCustom b) eqn:E.
      * apply blk_eqb_eq in E. subst b. rewrite Hw. rewrite nth_error_app1; [exact Hc|]. apply nth_error_Some. congruence.
      * apply blk_eqb_neq in E. rewrite (Ho _ E). exact Hc.
    + intros c0 Hc. destruct (blk_eqb BSym b) eqn:E.
      * apply blk_eqb_eq in E. subst b. rewrite Hw. apply in_or_app. left. exact Hc.
      * apply blk_eqb_neq in E. rewrite (Ho _ E). exact Hc.
    + intros c0 Hc. destruct (blk_eqb BExpr b) eqn:E.
      * apply blk_eqb_eq in E. subst b. rewrite Hw. apply in_or_app. left. exact Hc.
      * apply blk_eqb_neq in E. rewrite (Ho _ E). exact Hc.
Qed.

(* ---- changing only the chain heads / the cursor ---- *)
Lemma heads_ok : forall A (s s' : basic) (r : outcome A), G s -> same_store s s' ->
  (forall i, cur_frame s' = Some i -> 1 <= i) -> G s' /\ Stable s s'.
Proof.
  intros A s s' r Gs H HC. split; [eapply same_store_G; eassumption|apply same_store_stable; exact H].
Qed.

Lemma okm_heads : forall A (f : basic -> basic) (a : A) s, G s -> (forall x, same_store x (f x)) ->
  (forall i, cur_frame (f s) = Some i -> 1 <= i) -> okm (fun x => Ok (f x, Done a)) s.
Proof.
  intros A f a s Gs Hf HC. exists (f s), (Done a). split; [reflexivity|].
  eapply (heads_ok A s (f s) (Done a)); auto.
Qed.

Lemma okm_push_data : forall s c, G s -> plain c -> okm (push_to_data_block c) s.
Proof.
  intros s c Gs Hp. destruct (push_data_ok s c Gs Hp) as (s' & Hr & G' & S' & _). exists s', (Done (length (data s))). auto.
Qed.

Lemma plain_chars : forall l c, In c (map CChar l) -> plain c.
Proof. intros l c H. apply in_map_iff in H. destruct H as (x & <- & _). split; [reflexivity|exact I]. Qed.
Lemma plain_bytes : forall l c, In c (map CByte l) -> plain c.
Proof. intros l c H. apply in_map_iff in H. destruct H as (x & <- & _). split; [reflexivity|exact I]. Qed.

Lemma okm_push_all : forall cells s, G s -> (forall c, In c cells -> plain c) -> okm (push_all cells) s.
Proof.
  intros cells s Gs Hp. destruct (push_all_ok cells s Gs Hp) as (s' & Hr & G' & S' & _). exists s', (Done tt). auto.
Qed.

Ltac plain_tac := split; [reflexivity|exact I].

Lemma add_string_ok : forall n chars s, G s -> okm (add_string n chars) s.
Proof.
  intros n chars s Gs. unfold add_string.
  destruct (push_data_ok s (CCharList n) Gs) as (s1 & H1 & G1 & S1 & _); [plain_tac|].
  eapply okm_bind; [exact H1|exact G1|exact S1|]. intros a _.
  destruct (push_all_ok (map CChar chars) s1 G1 (plain_chars chars)) as (s2 & H2 & G2 & S2 & _).
  eapply okm_bind; [exact H2|exact G2|exact S2|]. intros _ _. apply okm_ret. exact G2.
Qed.

Lemma add_byte_slice_ok : forall bytes s, G s -> okm (add_byte_slice bytes) s.
Proof.
  intros bytes s Gs. unfold add_byte_slice.
  destruct (push_data_ok s (CByteList (length bytes)) Gs) as (s1 & H1 & G1 & S1 & _); [plain_tac|].
  eapply okm_bind; [exact H1|exact G1|exact S1|]. intros a _.
  destruct (push_all_ok (map CByte bytes) s1 G1 (plain_bytes bytes)) as (s2 & H2 & G2 & S2 & _).
  eapply okm_bind; [exact H2|exact G2|exact S2|]. intros _ _. apply okm_ret. exact G2.
Qed.

(* ---- registers and values: one cell, then the head ---- *)
Lemma okm_push_then_head : forall (c : cell) (f : basic -> nat -> basic) s, G s -> plain c ->
  (forall x i, same_store x (f x i)) -> (forall x i, cur_frame (f x i) = cur_frame x) ->
  okm (sdo index <- push_to_data_block c ; fun s' => Ok (f s' index, Done tt)) s.
Proof.
  intros c f s Gs Hp Hs Hc.
  destruct (push_data_ok s c Gs Hp) as (s1 & H1 & G1 & S1 & A1).
  eapply okm_bind; [exact H1|exact G1|exact S1|]. intros idx _.
  apply (okm_heads unit (fun x => f x idx) tt s1 G1).
  - intro x. apply Hs.
  - intros i Hi. apply (g_cur_frame s1 G1). rewrite Hc in Hi. exact Hi.
Qed.

Lemma push_register_ok : forall a s, G s -> okm (push_register a) s.
Proof.
  intros a s Gs. unfold push_register.
  eapply okm_bind; [reflexivity|exact Gs|apply Stable_refl|]. intros s0 E. inversion E; subst s0. clear E. cbv beta.
  destruct (cur_register s);
    apply (okm_push_then_head _ (fun x i => set_cur_register x (Some i)) s Gs); try plain_tac;
    try (intros; apply same_store_set_cur_register); reflexivity.
Qed.

Lemma push_value_stack_ok : forall a s, G s -> okm (push_value_stack a) s.
Proof.
  intros a s Gs. unfold push_value_stack.
  eapply okm_bind; [reflexivity|exact Gs|apply Stable_refl|]. intros s0 E. inversion E; subst s0. clear E. cbv beta.
  destruct (cur_value s);
    apply (okm_push_then_head _ (fun x i => set_cur_value x (Some i)) s Gs); try plain_tac;
    try (intros; apply same_store_set_cur_value); reflexivity.
Qed.

Lemma get_data_cases : forall s i, G s ->
  (exists c, get_from_block BData i s = Ok c /\ nth_error (data s) i = Some c) \/
  (get_from_block BData i s = Err E_index /\ nth_error (data s) i = None).
Proof.
  intros s i Gs. rewrite (get_from_block_ok s BData i (good_inv s (g_good s Gs))). unfold data.
  destruct (nth_error (window s BData) i) as [c|]; [left; exists c; auto|right; auto].
Qed.

Lemma okm_same : forall A s (r : outcome A) (m : BM A), G s -> m s = Ok (s, r) -> okm m s.
Proof. intros A s r m Gs H. exists s, r. split; [exact H|]. split; [exact Gs|apply Stable_refl]. Qed.

Lemma okm_head_to : forall A s s' (r : outcome A) (m : BM A), G s -> m s = Ok (s', r) -> same_store s s' ->
  (forall i, cur_frame s' = Some i -> 1 <= i) -> okm m s.
Proof.
  intros A s s' r m Gs H HS HC. exists s', r. split; [exact H|]. eapply (heads_ok A s s' r); eassumption.
Qed.

Lemma cur_frame_set_reg : forall s v, cur_frame (set_cur_register s v) = cur_frame s.
Proof. reflexivity. Qed.
Lemma cur_frame_set_val : forall s v, cur_frame (set_cur_value s v) = cur_frame s.
Proof. reflexivity. Qed.

Lemma pop_register_ok : forall s, G s -> okm pop_register s.
Proof.
  intros s Gs. destruct (cur_register s) as [index|] eqn:Ec.
  - destruct (get_data_cases s index Gs) as [(c & Hc & _)|(He & _)].
    + destruct c; try (eapply okm_same; [exact Gs|unfold pop_register; rewrite Ec, Hc; reflexivity]);
        (eapply okm_head_to; [exact Gs|unfold pop_register; rewrite Ec, Hc; reflexivity|apply same_store_set_cur_register|
                              intros i Hi; apply (g_cur_frame s Gs); exact Hi]).
    + eapply okm_same; [exact Gs|unfold pop_register; rewrite Ec, He; reflexivity].
  - eapply okm_same; [exact Gs|unfold pop_register; rewrite Ec; reflexivity].
Qed.

Lemma pop_value_stack_ok : forall s, G s -> okm pop_value_stack s.
Proof.
  intros s Gs. destruct (cur_value s) as [index|] eqn:Ec.
  - destruct (get_data_cases s index Gs) as [(c & Hc & _)|(He & _)].
    + destruct c; try (eapply okm_same; [exact Gs|unfold pop_value_stack; rewrite Ec, Hc; reflexivity]);
        (eapply okm_head_to; [exact Gs|unfold pop_value_stack; rewrite Ec, Hc; reflexivity|apply same_store_set_cur_value|
                              intros i Hi; apply (g_cur_frame s Gs); exact Hi]).
    + eapply okm_same; [exact Gs|unfold pop_value_stack; rewrite Ec, He; reflexivity].
  - eapply okm_same; [exact Gs|unfold pop_value_stack; rewrite Ec; reflexivity].
Qed.

(* ---- frames ---- *)
Lemma push_frame_ok : forall n s, G s -> okm (push_frame n) s.
Proof.
  intros n s Gs. unfold push_frame.
  destruct (push_data_ok s (CJumpPoint n) Gs) as (s1 & H1 & G1 & S1 & A1); [plain_tac|].
  eapply okm_bind; [exact H1|exact G1|exact S1|]. intros _ _.
  eapply okm_bind; [reflexivity|exact G1|apply Stable_refl|]. intros s0 E. inversion E; subst s0. clear E. cbv beta.
  set (fd := match cur_frame s1, cur_register s1 with
             | Some frame, Some register => CFrame frame register
             | Some frame, None => CFrameIndex frame
             | None, Some register => CFrameRegister register
             | None, None => CFrameRoot
             end).
  assert (Hfd : plain fd).
  { unfold fd. destruct (cur_frame s1) as [f|] eqn:Ef; destruct (cur_register s1); split; try reflexivity; try exact I;
      cbn; apply (g_cur_frame s1 G1 f Ef). }
  destruct (push_data_ok s1 fd G1 Hfd) as (s2 & H2 & G2 & S2 & A2).
  eapply okm_bind; [exact H2|exact G2|exact S2|]. intros idx Hidx.
  eapply okm_head_to; [exact G2|reflexivity|apply same_store_set_cur_frame|].
  intros i Hi. cbn in Hi. inversion Hi; subst i. inversion Hidx; subst idx.
  destruct A1 as (_ & D1 & _). rewrite D1, app_length. cbn. lia.
Qed.

Lemma pop_frame_ok : forall s, G s -> okm pop_frame s.
Proof.
  intros s Gs. destruct (cur_frame s) as [index|] eqn:Ec.
  - pose proof (g_cur_frame s Gs index Ec) as Hge. destruct index as [|im1]; [lia|].
    destruct (get_data_cases s im1 Gs) as [(c1 & Hc1 & _)|(He1 & _)].
    + destruct (as_jump_point c1) as [ret| | |] eqn:Ej;
        try (destruct c1; discriminate).
      * destruct (get_data_cases s (S im1) Gs) as [(c2 & Hc2 & Hn2)|(He2 & _)].
        -- pose proof (g_frames s Gs (S im1) c2 Hn2) as Hf.
           destruct c2; try (eapply okm_same; [exact Gs|unfold pop_frame; rewrite Ec, Hc1; cbn [bind]; rewrite Ej, Hc2; reflexivity]);
             (eapply okm_head_to; [exact Gs|unfold pop_frame; rewrite Ec, Hc1; cbn [bind]; rewrite Ej, Hc2; reflexivity| |]);
             try (split; [reflexivity|destruct b; reflexivity]);
             intros i Hi; cbn in Hi; try discriminate; inversion Hi; subst; exact Hf.
        -- eapply okm_same; [exact Gs|unfold pop_frame; rewrite Ec, Hc1; cbn [bind]; rewrite Ej, He2; reflexivity].
      * eapply okm_same; [exact Gs|unfold pop_frame; rewrite Ec, Hc1; cbn [bind]; rewrite Ej; reflexivity].
    + eapply okm_same; [exact Gs|unfold pop_frame; rewrite Ec, He1; reflexivity].
  - eapply okm_same; [exact Gs|unfold pop_frame; rewrite Ec; reflexivity].
Qed.

(* ---- overwriting one data cell that is not frozen ---- *)
Lemma scratch_no_header : forall c, scratch c = true -> header_len c = None.
Proof. destruct c; cbn; congruence. Qed.

Lemma update_data_ok : forall s i old new, G s -> nth_error (data s) i = Some old -> ~ frozen (data s) i ->
  header_len new = header_len old -> scratch new = scratch old -> frame_ok new ->
  exists s', set_data i new s = Ok (s', Done tt) /\ G s' /\ Stable s s' /\
    set_ix (data s) i new = Some (data s') /\ same_heads s s' /\ (forall b, b <> BData -> window s' b = window s b).
Proof.
  intros s i old new Gs Hold Hnf Hh Hs Hf.
  pose proof (good_inv s (g_good s Gs)) as I.
  assert (Hi : i < cur s BData).
  { rewrite <- (data_len s I). apply nth_error_Some. congruence. }
  destruct (set_in_block_ok s BData i new I Hi) as (s' & l' & Hr & I' & Hset & Hw & Ho & Hb & Hh').
  exists s'. unfold set_data. split; [exact Hr|]. fold (data s) in Hset. fold (data s') in Hw. subst l'.
  assert (SS : forall b, get_block s' b = get_block s b) by exact Hb.
  split; [|split; [|split; [exact Hset|split; [exact Hh'|exact Ho]]]].
  - destruct Gs as [[I0 P M] R F C]. constructor.
    + constructor; [exact I'| |].
      * intro b. rewrite SS. apply P.
      * intro b. unfold sett. rewrite SS. apply M.
    + eapply region_update; eassumption.
    + eapply frames_update; eassumption.
    + destruct Hh' as (_ & _ & Hcf & _). rewrite Hcf. exact C.
  - constructor.
    + intro b. destruct (blk_eqb b BData) eqn:E.
      * apply blk_eqb_eq in E. subst b. fold (data s) (data s'). rewrite (set_ix_length _ _ _ _ Hset). lia.
      * apply blk_eqb_neq in E. rewrite (Ho b E). lia.
    + intros j Fj. rewrite (set_ix_nth _ _ _ _ j Hset). destruct (j =? i) eqn:E; [|reflexivity].
      apply Nat.eqb_eq in E. subst j. contradiction.
    + intros j c Hc. rewrite Ho by congruence. exact Hc.
    + intros j c Hc. rewrite Ho by congruence. exact Hc.
    + intros c Hc. rewrite Ho by congruence. exact Hc.
    + intros c Hc. rewrite Ho by congruence. exact Hc.
Qed.

Lemma set_current_value_ok : forall v s, G s -> okm (set_current_value v) s.
Proof.
  intros v s Gs. destruct (cur_value s) as [index|] eqn:Ec.
  - destruct (get_data_cases s index Gs) as [(c & Hc & Hn)|(He & _)].
    + destruct c; try (eapply okm_same; [exact Gs|unfold set_current_value; rewrite Ec, Hc; reflexivity]).
      * destruct (update_data_ok s index (CValue prev v0) (CValue prev v) Gs Hn) as (s' & Hr & G' & S' & _); try reflexivity; try exact I.
        { eapply unstable_not_in_list; [apply (g_region s Gs)|exact Hn|reflexivity|reflexivity]. }
        exists s', (Done true). split; [unfold set_current_value; rewrite Ec, Hc, Hr; reflexivity|auto].
      * destruct (update_data_ok s index (CValueRoot v0) (CValueRoot v) Gs Hn) as (s' & Hr & G' & S' & _); try reflexivity; try exact I.
        { eapply unstable_not_in_list; [apply (g_region s Gs)|exact Hn|reflexivity|reflexivity]. }
        exists s', (Done true). split; [unfold set_current_value; rewrite Ec, Hc, Hr; reflexivity|auto].
    + eapply okm_same; [exact Gs|unfold set_current_value; rewrite Ec, He; reflexivity].
  - eapply okm_same; [exact Gs|unfold set_current_value; rewrite Ec; reflexivity].
Qed.

(* ---- the jump table: push and patch ---- *)
Lemma set_jump_table_ok : forall idx v s, G s -> okm (set_jump_table idx v) s.
Proof.
  intros idx v s Gs. pose proof (good_inv s (g_good s Gs)) as I.
  unfold okm, set_jump_table, get_from_jump_table_block_ensure_index.
  rewrite (get_from_block_ok s BJump idx I).
  destruct (nth_error (window s BJump) idx) as [c|] eqn:Hn.
  - cbn [bind]. destruct (as_jump_point c) as [x| | |] eqn:Ej; try (destruct c; discriminate).
    + assert (Hi : idx < cur s BJump).
      { rewrite <- (window_len s BJump I). apply nth_error_Some. congruence. }
      destruct (set_in_block_ok s BJump idx (CJumpPoint v) I Hi) as (s' & l' & Hr & I' & Hset & Hw & Ho & Hb & Hh).
      rewrite Hr. exists s', (Done true). split; [reflexivity|].
      split.
      * destruct Gs as [[I0 P M] R F C]. constructor.
        -- constructor; [exact I'| |]; intro b; [rewrite Hb; apply P|unfold sett; rewrite Hb; apply M].
        -- unfold data. rewrite Ho by congruence. exact R.
        -- unfold data. rewrite Ho by congruence. exact F.
        -- destruct Hh as (_ & _ & Hcf & _). rewrite Hcf. exact C.
      * constructor.
        -- intro b. destruct (blk_eqb b BJump) eqn:E.
           ++ apply blk_eqb_eq in E. subst b. rewrite Hw, (set_ix_length _ _ _ _ Hset). lia.
           ++ apply blk_eqb_neq in E. rewrite (Ho b E). lia.
        -- intros j _. unfold data. rewrite Ho by congruence. reflexivity.
        -- intros j c0 Hc. rewrite Ho by congruence. exact Hc.
        -- intros j c0 Hc. rewrite Ho by congruence. exact Hc.
        -- intros c0 Hc. rewrite Ho by congruence. exact Hc.
        -- intros c0 Hc. rewrite Ho by congruence. exact Hc.
    + exists s, (Done false). split; [reflexivity|]. split; [exact Gs|apply Stable_refl].
  - cbn [bind]. exists s, (Done false). split; [reflexivity|]. split; [exact Gs|apply Stable_refl].
Qed.

(* ---- lists ---- *)
Lemma sbind_done : forall S A B (m : SM S A) (f : A -> SM S B) s s1 a, m s = Ok (s1, Done a) -> sbind m f s = f a s1.
Proof. intros. unfold sbind. rewrite H. reflexivity. Qed.

Lemma start_list_ok : forall len s, G s -> okm (start_list len) s.
Proof.
  intros len s Gs. unfold start_list.
  destruct (push_data_raw s (CUninitializedList len 0) (g_good s Gs)) as (s1 & H1 & A1).
  destruct (push_empties_raw (len * 2) s1 (proj1 A1)) as (s2 & H2 & A2).
  pose proof (appended_trans s s1 s2 _ _ A1 A2) as A. cbn [app] in A.
  assert (G2 : G s2).
  { eapply appended_G; [exact Gs|exact A| |].
    - rewrite Nat.mul_comm. apply region_app_list. apply (g_region s Gs).
    - intros c [<-|Hc]; [exact I|]. apply repeat_spec in Hc. subst c. exact I. }
  exists s2, (Done (length (data s))). split.
  - rewrite (sbind_done _ _ _ _ _ _ _ _ H1), (sbind_done _ _ _ _ _ _ _ _ H2). reflexivity.
  - split; [exact G2|eapply appended_stable; exact A].
Qed.

Lemma header_at : forall (T T' : list cell) i new q c, set_ix T i new = Some T' -> q <> i -> nth_error T q = Some c -> nth_error T' q = Some c.
Proof.
  intros T T' i new q c Hset Hne Hq. rewrite (set_ix_nth _ _ _ _ q Hset).
  destruct (q =? i) eqn:E; [apply Nat.eqb_eq in E; contradiction|exact Hq].
Qed.

Lemma add_to_list_ok : forall l it s, G s -> okm (add_to_list l it) s.
Proof.
  intros l it s Gs. unfold add_to_list, get_data.
  destruct (get_data_cases s l Gs) as [(h & Hh & Hn)|(He & _)].
  2:{ eapply okm_bind; [unfold sread; rewrite He; reflexivity|exact Gs|apply Stable_refl|]. intros a Ha. discriminate. }
  eapply okm_bind; [unfold sread; rewrite Hh; reflexivity|exact Gs|apply Stable_refl|].
  intros h0 E. inversion E; subst h0. clear E.
  destruct h; try (apply okm_fail; exact Gs).
  destruct (len <=? count) eqn:Elc; [apply okm_fail; exact Gs|]. apply Nat.leb_gt in Elc.
  (* the header *)
  destruct (update_data_ok s l (CUninitializedList len count) (CUninitializedList len (S count)) Gs Hn) as (s1 & H1 & G1 & S1 & D1 & _); try reflexivity; try exact I.
  { eapply unstable_not_in_list; [apply (g_region s Gs)|exact Hn|reflexivity|reflexivity]. }
  eapply okm_bind; [exact H1|exact G1|exact S1|]. intros _ _.
  assert (Hq1 : nth_error (data s1) l = Some (CUninitializedList len (S count))).
  { rewrite (set_ix_nth _ _ _ _ l D1), Nat.eqb_refl. reflexivity. }
  (* the item slot *)
  destruct (g_region s1 G1 l _ len Hq1 eq_refl) as [Hb1 Hreg1].
  destruct (Hreg1 (1 + count)) as (c1 & Hc1 & Hs1); [lia|].
  replace (l + (1 + count)) with (l + 1 + count) in Hc1 by lia.
  destruct (update_data_ok s1 (l + 1 + count) c1 (CListItem it) G1 Hc1) as (s2 & H2 & G2 & S2 & D2 & _).
  { replace (l + 1 + count) with (l + (1 + count)) by lia.
    eapply open_region_not_frozen; [apply (g_region s1 G1)|exact Hq1|lia]. }
  { rewrite (scratch_no_header _ Hs1). reflexivity. }
  { rewrite Hs1. reflexivity. }
  { exact I. }
  eapply okm_bind; [exact H2|exact G2|exact S2|]. intros _ _.
  assert (Hq2 : nth_error (data s2) l = Some (CUninitializedList len (S count))).
  { eapply header_at; [exact D2|lia|exact Hq1]. }
  (* the item *)
  destruct (get_data_cases s2 it G2) as [(ci & Hci & _)|(Hei & _)].
  2:{ eapply okm_bind; [unfold sread; rewrite Hei; reflexivity|exact G2|apply Stable_refl|]. intros a Ha. discriminate. }
  eapply okm_bind; [unfold sread; rewrite Hci; reflexivity|exact G2|apply Stable_refl|].
  intros ci0 E. inversion E; subst ci0. clear E.
  destruct ci; try (apply okm_ret; exact G2).
  destruct (get_data_cases s2 a G2) as [(cl & Hcl & _)|(Hel & _)].
  2:{ eapply okm_bind; [unfold sread; rewrite Hel; reflexivity|exact G2|apply Stable_refl|]. intros x Hx. discriminate. }
  eapply okm_bind; [unfold sread; rewrite Hcl; reflexivity|exact G2|apply Stable_refl|].
  intros cl0 E. inversion E; subst cl0. clear E.
  destruct cl; try (apply okm_ret; exact G2).
  (* the association slot *)
  destruct (g_region s2 G2 l _ len Hq2 eq_refl) as [Hb2 Hreg2].
  destruct (Hreg2 (1 + count + len)) as (c3 & Hc3 & Hs3); [lia|].
  replace (l + (1 + count + len)) with (l + 1 + count + len) in Hc3 by lia.
  destruct (update_data_ok s2 (l + 1 + count + len) c3 (CAssociativeItem s0 b) G2 Hc3) as (s3 & H3 & G3 & S3 & _).
  { replace (l + 1 + count + len) with (l + (1 + count + len)) by lia.
    eapply open_region_not_frozen; [apply (g_region s2 G2)|exact Hq2|lia]. }
  { rewrite (scratch_no_header _ Hs3). reflexivity. }
  { rewrite Hs3. reflexivity. }
  { exact I. }
  eapply okm_bind; [exact H3|exact G3|exact S3|]. intros _ _. apply okm_ret. exact G3.
Qed.

Lemma in_slice : forall (T : list cell) a n c, In c (firstn n (skipn a T)) -> exists k, k < n /\ nth_error T (a + k) = Some c.
Proof.
  intros T a n c H. apply In_nth_error in H. destruct H as [k Hk]. rewrite nth_error_window in Hk.
  destruct (k <? n) eqn:E; [|discriminate]. apply Nat.ltb_lt in E. exists k. auto.
Qed.

Lemma sort_region_ok : forall s l len count, G s -> nth_error (data s) l = Some (CUninitializedList len count) ->
  exists s', sort_range (st s BData + (l + 1 + len)) (st s BData + (l + 1 + len + len)) s = Ok (s', Done tt) /\
    G s' /\ Stable s s' /\ nth_error (data s') l = Some (CUninitializedList len count) /\
    (forall b, get_block s' b = get_block s b).
Proof.
  intros s l len count Gs Hq.
  pose proof (good_inv s (g_good s Gs)) as I.
  destruct (g_region s Gs l _ len Hq eq_refl) as [Hb Hreg].
  rewrite (data_len s I) in Hb.
  destruct (sort_range_ok s BData (l + 1 + len) (l + 1 + len + len) I) as (s' & Hr & I' & Hw & Ho & Hbl & Hh); [lia|lia|].
  exists s'. split; [exact Hr|].
  fold (data s) in Hw. fold (data s') in Hw.
  set (T := data s) in *. set (T' := data s') in *.
  set (a' := l + 1 + len) in *. set (b' := l + 1 + len + len) in *.
  set (sl := firstn (b' - a') (skipn a' T)) in *.
  assert (LT : length T = cur s BData) by (apply data_len; exact I).
  assert (Hn : forall j, nth_error T' j = if (a' <=? j) && (j <? b') then nth_error (stable_sort assoc_le sl) (j - a') else nth_error T j).
  { intro j. rewrite Hw. apply splice_ix_nth; [unfold a', b'; lia|unfold b'; lia|].
    rewrite stable_sort_length. unfold sl. rewrite firstn_length, skipn_length. unfold a', b'. lia. }
  assert (LT' : length T' = length T).
  { rewrite Hw. apply splice_ix_length; [unfold a', b'; lia|unfold b'; lia|].
    rewrite stable_sort_length. unfold sl. rewrite firstn_length, skipn_length. unfold a', b'. lia. }
  (* every cell of the sorted slice is a scratch cell of the region *)
  assert (Hsl : forall c, In c (stable_sort assoc_le sl) -> exists k, a' <= k < b' /\ nth_error T k = Some c /\ scratch c = true).
  { intros c Hc. apply (Permutation_in _ (Permutation_sym (stable_sort_perm assoc_le sl))) in Hc.
    apply in_slice in Hc. destruct Hc as (k & Hk & Hkc). exists (a' + k). split; [unfold a', b' in *; lia|]. split; [exact Hkc|].
    destruct (Hreg (1 + len + k)) as (c' & Hc' & Hs'); [unfold a', b' in *; lia|].
    replace (l + (1 + len + k)) with (a' + k) in Hc' by (unfold a'; lia). rewrite Hkc in Hc'. inversion Hc'; subst c'. exact Hs'. }
  assert (Hin : forall j c, nth_error T' j = Some c -> (a' <=? j) && (j <? b') = true -> scratch c = true).
  { intros j c Hc Hr'. rewrite Hn, Hr' in Hc. apply nth_error_In in Hc. destruct (Hsl c Hc) as (k & _ & _ & Hs). exact Hs. }
  assert (Hrange : forall j, (a' <=? j) && (j <? b') = true -> exists c, nth_error T' j = Some c /\ scratch c = true).
  { intros j Hr'. destruct (nth_error T' j) as [c|] eqn:Hc.
    - exists c. split; [reflexivity|]. eapply Hin; eassumption.
    - apply nth_error_None in Hc. bool_arith. unfold b' in *. lia. }
  assert (Hout : forall j, (a' <=? j) && (j <? b') = false -> nth_error T' j = nth_error T j).
  { intros j Hr'. rewrite Hn, Hr'. reflexivity. }
  split; [|split; [|split; [|exact Hbl]]].
  - destruct Gs as [[I0 P M] R F C]. constructor.
    + constructor; [exact I'| |]; intro b; [rewrite Hbl; apply P|unfold sett; rewrite Hbl; apply M].
    + fold T'. intros p c lp Hp Hlp.
      destruct ((a' <=? p) && (p <? b')) eqn:Ep.
      * pose proof (Hin p c Hp Ep) as Hs. rewrite (header_not_scratch _ _ Hlp) in Hs. discriminate.
      * rewrite (Hout p Ep) in Hp. destruct (R p c lp Hp Hlp) as [Hbp Hregp]. fold T in Hbp, Hregp.
        split; [rewrite LT'; exact Hbp|]. intros k Hk.
        destruct ((a' <=? p + k) && (p + k <? b')) eqn:Ek.
        -- apply Hrange. exact Ek.
        -- rewrite (Hout _ Ek). apply Hregp. exact Hk.
    + fold T'. intros j c Hc. destruct ((a' <=? j) && (j <? b')) eqn:Ej.
      * rewrite Hn, Ej in Hc. apply nth_error_In in Hc. destruct (Hsl c Hc) as (k & _ & Hk & _). eapply F. exact Hk.
      * rewrite (Hout j Ej) in Hc. eapply F. exact Hc.
    + destruct Hh as (_ & _ & Hcf & _). rewrite Hcf. exact C.
  - constructor.
    + intro b. destruct (blk_eqb b BData) eqn:E.
      * apply blk_eqb_eq in E. subst b. fold (data s) (data s'). fold T T'. lia.
      * apply blk_eqb_neq in E. rewrite (Ho b E). lia.
    + intros j Fj. fold T T'. destruct ((a' <=? j) && (j <? b')) eqn:Ej; [|apply Hout; exact Ej].
      exfalso. bool_arith. apply (open_region_not_frozen T l len count (j - l) (g_region s Gs) Hq); [unfold a', b' in *; lia|].
      replace (l + (j - l)) with j by (unfold a' in *; lia). exact Fj.
    + intros j c Hc. rewrite Ho by congruence. exact Hc.
    + intros j c Hc. rewrite Ho by congruence. exact Hc.
    + intros c Hc. rewrite Ho by congruence. exact Hc.
    + intros c Hc. rewrite Ho by congruence. exact Hc.
  - rewrite Hout; [exact Hq|]. apply andb_false_iff. left. apply Nat.leb_gt. unfold a'. lia.
Qed.

Lemma end_list_ok : forall l s, G s -> okm (end_list l) s.
Proof.
  intros l s Gs. unfold end_list, get_data.
  destruct (get_data_cases s l Gs) as [(h & Hh & Hn)|(He & _)].
  2:{ eapply okm_bind; [unfold sread; rewrite He; reflexivity|exact Gs|apply Stable_refl|]. intros a Ha. discriminate. }
  eapply okm_bind; [unfold sread; rewrite Hh; reflexivity|exact Gs|apply Stable_refl|].
  intros h0 E. inversion E; subst h0. clear E.
  destruct h; try (apply okm_fail; exact Gs).
  destruct (count <? len) eqn:Elc; [apply okm_fail; exact Gs|].
  eapply okm_bind; [reflexivity|exact Gs|apply Stable_refl|]. intros s0 E. inversion E; subst s0. clear E. cbv beta.
  pose proof (good_inv s (g_good s Gs)) as I.
  destruct (g_region s Gs l _ len Hn eq_refl) as [Hb Hreg]. rewrite (data_len s I) in Hb.
  change (b_start (blk_data s)) with (st s BData).
  assert (Hin : st s BData + (l + 1 + len + len) <= length (heap s)).
  { pose proof (in_heap s BData (l + len + len) I). pose proof (inv_cursor s I BData). lia. }
  rewrite slice_ix_some by lia.
  replace (st s BData + l + 1 + len) with (st s BData + (l + 1 + len)) by lia.
  replace (st s BData + (l + 1 + len) + len) with (st s BData + (l + 1 + len + len)) by lia.
  destruct (sort_region_ok s l len count Gs Hn) as (s1 & H1 & G1 & S1 & Hq1 & _).
  eapply okm_bind; [exact H1|exact G1|exact S1|]. intros _ _.
  match goal with |- okm (sdo _ <- set_data l (CList len ?ac) ; _) _ => set (n_assoc := ac) end.
  destruct (update_data_ok s1 l (CUninitializedList len count) (CList len n_assoc) G1 Hq1) as (s2 & H2 & G2 & S2 & _); try reflexivity; try exact I.
  { eapply unstable_not_in_list; [apply (g_region s1 G1)|exact Hq1|reflexivity|reflexivity]. }
  eapply okm_bind; [exact H2|exact G2|exact S2|]. intros _ _. apply okm_ret. exact G2.
Qed.

(* ---- the two sorted symbol tables ---- *)
Lemma push_assoc_ok : forall b sym v s, G s -> b = BSym \/ b = BExpr -> okm (push_assoc b sym v) s.
Proof.
  intros b sym v s Gs Hb0.
  assert (Hb : b <> BData) by (destruct Hb0; subst; congruence).
  assert (HbI : b <> BInstr) by (destruct Hb0; subst; congruence).
  assert (HbC : b <> BCustom) by (destruct Hb0; subst; congruence).
  unfold push_assoc.
  destruct (push_other_ok s b (CAssociativeItem sym v) Gs Hb) as (s1 & H1 & G1 & S1 & Hw1 & _).
  eapply okm_bind; [exact H1|exact G1|exact S1|]. intros _ _.
  pose proof (good_inv s1 (g_good s1 G1)) as I1.
  destruct (sort_range_ok s1 b 0 (cur s1 b) I1) as (s2 & H2 & I2 & Hw2 & Ho2 & Hbl2 & Hh2); [lia|lia|].
  exists s2, (Done tt). split; [unfold st, cur in H2; rewrite Nat.add_0_r in H2; exact H2|].
  assert (Hsorted : window s2 b = stable_sort assoc_le (window s1 b)).
  { rewrite Hw2. rewrite Nat.sub_0_r. cbn [skipn]. rewrite <- (window_len s1 b I1), firstn_all.
    unfold splice_ix. cbn [firstn app]. rewrite skipn_all, app_nil_r. reflexivity. }
  assert (Hmem : forall c, In c (window s1 b) -> In c (window s2 b)).
  { intros c Hc. rewrite Hsorted. eapply Permutation_in; [apply stable_sort_perm|exact Hc]. }
  split.
  - destruct G1 as [[I0 P M] R F C]. constructor.
    + constructor; [exact I2| |]; intro x; [rewrite Hbl2; apply P|unfold sett; rewrite Hbl2; apply M].
    + unfold data. rewrite Ho2 by congruence. exact R.
    + unfold data. rewrite Ho2 by congruence. exact F.
    + destruct Hh2 as (_ & _ & Hcf & _). rewrite Hcf. exact C.
  - constructor.
    + intro x. destruct (blk_eqb x b) eqn:E.
      * apply blk_eqb_eq in E. subst x. rewrite Hsorted, stable_sort_length. lia.
      * apply blk_eqb_neq in E. rewrite (Ho2 x E). lia.
    + intros j _. unfold data. rewrite Ho2 by congruence. reflexivity.
    + intros j c Hc. rewrite Ho2 by congruence. exact Hc.
    + intros j c Hc. rewrite Ho2 by congruence. exact Hc.
    + intros c Hc. destruct (blk_eqb BSym b) eqn:E.
      * apply blk_eqb_eq in E. subst b. apply Hmem. exact Hc.
      * apply blk_eqb_neq in E. rewrite (Ho2 _ E). exact Hc.
    + intros c Hc. destruct (blk_eqb BExpr b) eqn:E.
      * apply blk_eqb_eq in E. subst b. apply Hmem. exact Hc.
      * apply blk_eqb_neq in E. rewrite (Ho2 _ E). exact Hc.
Qed.

Lemma parse_add_symbol_ok : forall sym n chars s, G s -> okm (parse_add_symbol sym n chars) s.
Proof.
  intros sym n chars s Gs. unfold parse_add_symbol.
  destruct (push_data_ok s (CSymbol sym) Gs) as (s1 & H1 & G1 & S1 & _); [plain_tac|].
  eapply okm_bind; [exact H1|exact G1|exact S1|]. intros symbol_index _.
  destruct (push_data_ok s1 (CCharList n) G1) as (s2 & H2 & G2 & S2 & _); [plain_tac|].
  eapply okm_bind; [exact H2|exact G2|exact S2|]. intros list_index _.
  destruct (push_all_ok (map CChar chars) s2 G2 (plain_chars chars)) as (s3 & H3 & G3 & S3 & _).
  eapply okm_bind; [exact H3|exact G3|exact S3|]. intros _ _.
  destruct (push_assoc_ok BSym sym list_index s3 G3) as (s4 & r4 & H4 & G4 & S4); [left; reflexivity|].
  eapply okm_bind; [exact H4|exact G4|exact S4|]. intros _ _. apply okm_ret. exact G4.
Qed.

(* ---- every operation of the history vocabulary ---- *)
Lemma lift_ok : forall A (f : A -> result) (m : BM A) s, okm m s ->
  exists s' r, lift f m s = Ok (s', r) /\ G s' /\ Stable s s'.
Proof.
  intros A f m s (s' & r & Hr & G' & S'). unfold lift. rewrite Hr. destruct r; eauto.
Qed.

Theorem bstep_ok : forall o s, G s -> exists s' r, bstep o s = Ok (s', r) /\ G s' /\ Stable s s'.
Proof.
  intros o s Gs. destruct o; cbn [bstep]; try (apply lift_ok).
  - unfold push_to_instruction_block. destruct (push_other_ok s BInstr (match d with Some x => CInstructionWithData i x | None => CInstruction i end) Gs) as (s' & H & G' & S' & _); [congruence|]. exists s', (Done (cur s BInstr)). auto.
  - unfold push_to_jump_table_block. destruct (push_other_ok s BJump (CJumpPoint n) Gs) as (s' & H & G' & S' & _); [congruence|]. exists s', (Done (cur s BJump)). auto.
  - apply set_jump_table_ok; exact Gs.
  - apply parse_add_symbol_ok; exact Gs.
  - apply push_assoc_ok; [exact Gs|right; reflexivity].
  - unfold push_to_custom_data_block. destruct (push_other_ok s BCustom CCustom Gs) as (s' & H & G' & S' & _); [congruence|]. exists s', (Done (cur s BCustom)). auto.
  - apply okm_push_data; [exact Gs|plain_tac].
  - apply okm_push_data; [exact Gs|plain_tac].
  - apply okm_push_data; [exact Gs|plain_tac].
  - apply okm_push_data; [exact Gs|plain_tac].
  - apply okm_push_data; [exact Gs|plain_tac].
  - apply okm_push_data; [exact Gs|plain_tac].
  - apply okm_push_data; [exact Gs|plain_tac].
  - apply okm_push_data; [exact Gs|plain_tac].
  - apply okm_push_data; [exact Gs|plain_tac].
  - apply okm_push_data; [exact Gs|plain_tac].
  - apply okm_push_data; [exact Gs|plain_tac].
  - apply okm_push_data; [exact Gs|plain_tac].
  - apply okm_push_data; [exact Gs|plain_tac].
  - apply okm_push_data; [exact Gs|plain_tac].
  - apply okm_push_data; [exact Gs|plain_tac].
  - apply add_string_ok; exact Gs.
  - apply add_byte_slice_ok; exact Gs.
  - apply start_list_ok; exact Gs.
  - apply add_to_list_ok; exact Gs.
  - apply end_list_ok; exact Gs.
  - apply push_register_ok; exact Gs.
  - apply pop_register_ok; exact Gs.
  - apply push_value_stack_ok; exact Gs.
  - apply pop_value_stack_ok; exact Gs.
  - apply set_current_value_ok; exact Gs.
  - apply push_frame_ok; exact Gs.
  - apply pop_frame_ok; exact Gs.
  - exists (set_ip s n), ROk. split; [reflexivity|].
    eapply (heads_ok unit s (set_ip s n) (Done tt)); [exact Gs|apply same_store_set_ip|].
    intros i Hi. apply (g_cur_frame s Gs). exact Hi.
Qed.
