(* Unbounded families of token lists for C02 and the intermediate reference
   "spine insertion": the operator-precedence algorithm that builds the tree left
   to right, keeping the right spine of the tree built so far as a stack of open
   frames.  Definitions only; the proofs are in Proofs/C02/{Spine,Denote,Invariant,
   Chains}.v.  Trees carry the node index the parser gives to each node ([ntree]);
   [erase] forgets it and yields the [rtree] of Spec.Pratt. *)
From Coq Require Import List Arith Bool NArith.
From GV Require Import Base.Result Gen.TokenTypes Gen.Defs Model.Parser Spec.RefTable Spec.Pratt.
Import ListNotations.

(* ---- token classes (pinned table) ---- *)
Definition is_value_tok (t : token_type) : bool :=
  match ref_kind t with KValue => true | _ => false end.
Definition is_binary_tok (t : token_type) : bool :=
  match ref_kind t with KBinary => true | _ => false end.
Definition is_prefix_tok (t : token_type) : bool :=
  match ref_kind t with KPrefix => true | _ => false end.
Definition is_suffix_tok (t : token_type) : bool :=
  match ref_kind t with KSuffix => true | _ => false end.
Definition is_space_tok (t : token_type) : bool :=
  match ref_kind t with KSpace => true | _ => false end.

(* ---- (1) binary chains:  v0 o1 v1 ... on vn, every binary operator token allowed,
   no operator token is excluded ---- *)
Fixpoint chain_tail (toks : list token_type) : bool :=
  match toks with
  | [] => true
  | o :: v :: r => is_binary_tok o && is_value_tok v && chain_tail r
  | _ => false
  end.

Definition binary_chain (toks : list token_type) : bool :=
  match toks with
  | v :: r => is_value_tok v && chain_tail r
  | [] => false
  end.

(* ---- trees with node indices ---- *)
Inductive ntree : Type :=
| NAtom (id : nat) (d : definition) (tok : nat)       (* [d]: the definition the node stores *)
| NPre (id : nat) (d : definition) (tok : nat) (arg : ntree)
| NSuf (id : nat) (d : definition) (tok : nat) (arg : ntree)
| NBin (id : nat) (d : definition) (tok : option nat) (l r : ntree)
| NGroup (b : bkind) (id : nat) (tok : nat) (inner : ntree).

Fixpoint erase (t : ntree) : rtree :=
  match t with
  | NAtom _ d k => RAtom (norm_atom d) k
  | NPre _ d k a => RPre d k (erase a)
  | NSuf _ d k a => RSuf d k (erase a)
  | NBin _ d k l r => RBin d k (erase l) (erase r)
  | NGroup b _ k a => RGroup b k (erase a)
  end.

Definition nid (t : ntree) : nat :=
  match t with
  | NAtom i _ _ | NPre i _ _ _ | NSuf i _ _ _ | NBin i _ _ _ _ | NGroup _ i _ _ => i
  end.

(* ---- open frames of the right spine, innermost first ---- *)
Inductive frame : Type :=
| FBin (id : nat) (d : definition) (tok : option nat) (l : ntree)   (* [l d _]: right operand pending *)
| FPre (id : nat) (d : definition) (tok : nat)                      (* [d _] *)
| FGroup (b : bkind) (id : nat) (tok : nat).                       (* [( _] or [{ _]: an open bracket *)

Definition frame_def (f : frame) : definition :=
  match f with FBin _ d _ _ | FPre _ d _ => d | FGroup b _ _ => bdef b end.
Definition frame_id (f : frame) : nat :=
  match f with FBin i _ _ _ | FPre i _ _ | FGroup _ i _ => i end.

Definition plug (f : frame) (t : ntree) : ntree :=
  match f with
  | FBin i d k l => NBin i d k l t
  | FPre i d k => NPre i d k t
  | FGroup b i k => NGroup b i k t
  end.

Fixpoint close (fs : list frame) (t : ntree) : ntree :=
  match fs with
  | [] => t
  | f :: r => close r (plug f t)
  end.

(* the operator [d] stays below the frame [f] (is "inside" the operand the frame is
   waiting for) iff the table says so; otherwise the frame is closed first *)
Definition stays_below (d : definition) (f : frame) : bool :=
  match f with
  | FGroup _ _ _ => true          (* an open bracket is never closed by an operator *)
  | _ => match ref_rank (frame_def f) with
         | Some q => inside d q
         | None => false
         end
  end.

Fixpoint pop (d : definition) (fs : list frame) (t : ntree) : list frame * ntree :=
  match fs with
  | [] => ([], t)
  | f :: r => if stays_below d f then (fs, t) else pop d r (plug f t)
  end.

(* a closing bracket closes every frame above the innermost open bracket, and the bracket
   if it is of the same kind *)
Fixpoint close_group (b : bkind) (fs : list frame) (t : ntree) : option (list frame * ntree) :=
  match fs with
  | [] => None
  | FGroup b' i k :: r => if bkind_eqb b' b then Some (r, NGroup b' i k t) else None
  | f :: r => close_group b r (plug f t)
  end.

Definition is_fgroup (f : frame) : bool := match f with FGroup _ _ _ => true | _ => false end.

(* the definition a value node stores: an identifier directly to the right of the access
   operator `.` is stored as Property *)
Definition atom_store (d : definition) (fs : list frame) : definition :=
  if definition_eqb d D_Identifier then
    match fs with
    | f :: _ => if definition_eqb (frame_def f) D_Access then D_Property else d
    | [] => d
    end
  else d.

(* a separator is not an operator directly inside round brackets *)
Definition top_round (fs : list frame) : bool :=
  match fs with FGroup BRound _ _ :: _ => true | _ => false end.
Definition sep_blocked (d : definition) (fs : list frame) : bool := is_sep_def d && top_round fs.

(* machine state: open frames and the operand just completed ([None]: an operand is
   expected).  [n] is the index the next node gets: every item but a closing bracket
   makes one node. *)
Definition spine_state : Type := (list frame * option ntree)%type.

Definition spine_step (it : item) (n : nat) (st : spine_state) : option spine_state :=
  match it, st with
  | IValue d k, (fs, None) => Some (fs, Some (NAtom n (atom_store d fs) k))
  | IPrefix d k, (fs, None) =>
      match ref_rank d with Some _ => Some (FPre n d k :: fs, None) | None => None end
  | IBinary d k, (fs, Some t) =>
      match ref_rank d with
      | Some _ => let '(fs', t') := pop d fs t in
                  if sep_blocked d fs' then None else Some (FBin n d k t' :: fs', None)
      | None => None
      end
  | ISuffix d k, (fs, Some t) =>
      match ref_rank d with
      | Some _ => let '(fs', t') := pop d fs t in Some (fs', Some (NSuf n d k t'))
      | None => None
      end
  | IOpen b k, (fs, None) => Some (FGroup b n k :: fs, None)
  | IClose b _, (fs, Some t) =>
      match close_group b fs t with
      | Some (fs', t') => Some (fs', Some t')
      | None => None
      end
  | _, _ => None
  end.

Definition next_index (it : item) (n : nat) : nat :=
  match it with IClose _ _ => n | _ => S n end.

Fixpoint spine_run (its : list item) (n : nat) (st : spine_state) : option spine_state :=
  match its with
  | [] => Some st
  | it :: r =>
    match spine_step it n st with
    | Some st' => spine_run r (next_index it n) st'
    | None => None
    end
  end.

Definition spine_insert (its : list item) : option ntree :=
  match spine_run its 0 ([], None) with
  | Some (fs, Some t) => if existsb is_fgroup fs then None else Some (close fs t)
  | _ => None
  end.

(* ---- (2) operator expressions of any length: values, prefix, suffix and binary
   operators (every token of each class), round brackets `( )` and nested-expression
   brackets `{ }` nested to any depth and properly matched, whitespace anywhere between
   tokens.  [after]: an operand has just been completed; [spaced]: whitespace seen since the
   last significant token; [depth]: the open brackets, innermost first.  A value, a
   prefix operator or an opening bracket directly after a completed operand is only
   allowed across whitespace (the implicit space list). ---- *)
Fixpoint opexpr_from (toks : list token_type) (after spaced : bool) (depth : list bkind) : bool :=
  match toks with
  | [] => after && negb spaced && match depth with [] => true | _ => false end
  | t :: r =>
    match ref_kind t with
    | KSpace => opexpr_from r after true depth
    | KValue => (negb after || spaced) && opexpr_from r true false depth
    | KPrefix => (negb after || spaced) && opexpr_from r false false depth
    | KOpen b => (negb after || spaced) && opexpr_from r false false (b :: depth)
    | KBinary => after && negb (sep_tok t && match depth with BRound :: _ => true | _ => false end)
                 && opexpr_from r false false depth
    | KSuffix => after && opexpr_from r true false depth
    | KClose b => after && match depth with b' :: d => bkind_eqb b' b && opexpr_from r true false d | [] => false end
    | KOther => false
    end
  end.

Definition operator_expression (toks : list token_type) : bool :=
  match toks with
  | t :: _ => negb (is_space_tok t) && opexpr_from toks false false []
  | [] => false
  end.
