(* Decimal -> binary64: the model's conversion is the IEEE-754 rounding to
   nearest (ties to even) of the decimal number, or an infinity when that
   rounding overflows.  Built on Flocq's Bdiv_correct_aux, which holds for
   arbitrary positive integer mantissas. *)
From Coq Require Import ZArith NArith List Bool Lia Reals Psatz SpecFloat.
From Flocq Require Import Core IEEE754.BinarySingleNaN IEEE754.Binary IEEE754.Bits.
From GV Require Import Base.Result Model.Num Model.Literals.
Local Open Scope Z_scope.

Definition rnd64 (x : R) : R := round radix2 (SpecFloat.fexp 53 1024) ZnearestE x.

Lemma sf_to_b64_valid : forall z, SpecFloat.valid_binary 53 1024 z = true ->
  Binary.B2R 53 1024 (sf_to_b64 z) = SF2R radix2 z /\
  Binary.is_finite 53 1024 (sf_to_b64 z) = is_finite_SF z.
Proof.
  intros z Hv. destruct z as [s|s| |s m e]; try (split; reflexivity).
  unfold sf_to_b64. cbn [SpecFloat.valid_binary] in Hv.
  destruct (Sumbool.sumbool_of_bool (SpecFloat.bounded 53 1024 m e)) as [H|H].
  - split; reflexivity.
  - congruence.
Qed.

Lemma sf_to_b64_overflow : forall s,
  sf_to_b64 (BinarySingleNaN.binary_overflow 53 1024 mode_NE s) = Binary.B754_infinity 53 1024 s.
Proof. intros s. reflexivity. Qed.

(* the correctly rounded quotient of two positive integers *)
Theorem f64_of_ratio_correct : forall neg mx my,
  let x := (IZR (cond_Zopp neg (Zpos mx)) / IZR (Zpos my))%R in
  if Rlt_bool (Rabs (rnd64 x)) (bpow radix2 1024) then
    Binary.B2R 53 1024 (f64_of_ratio neg mx my) = rnd64 x /\
    Binary.is_finite 53 1024 (f64_of_ratio neg mx my) = true
  else f64_of_ratio neg mx my = Binary.B754_infinity 53 1024 neg.
Proof.
  intros neg mx my x.
  pose proof (BinarySingleNaN.Bdiv_correct_aux 53 1024 (eq_refl _) (eq_refl _) mode_NE neg mx 0 false my 0) as H.
  cbv zeta in H. rewrite xorb_false_r in H.
  unfold f64_of_ratio.
  destruct (SFdiv_core_binary 53 1024 (Z.pos mx) 0 (Z.pos my) 0) as [[mz ez] lz].
  destruct H as [Hv H].
  assert (Hx : (F2R (Float radix2 (cond_Zopp neg (Z.pos mx)) 0) / F2R (Float radix2 (cond_Zopp false (Z.pos my)) 0))%R = x).
  { unfold x, F2R. cbn [Fnum Fexp bpow cond_Zopp]. rewrite !Rmult_1_r. reflexivity. }
  rewrite Hx in H. cbn [round_mode] in H. fold (rnd64 x) in H.
  destruct (Rlt_bool (Rabs (rnd64 x)) (bpow radix2 1024)).
  - destruct H as [HR [HF _]]. destruct (sf_to_b64_valid _ Hv) as [H1 H2].
    split; [rewrite H1; exact HR | rewrite H2; exact HF].
  - rewrite H. apply sf_to_b64_overflow.
Qed.

(* the decimal number m * 10^e as a real *)
Definition dec_real (neg : bool) (p : positive) (e10 : Z) : R :=
  if 0 <=? e10 then IZR (cond_Zopp neg (Zpos p * 10 ^ e10))
  else (IZR (cond_Zopp neg (Zpos p)) / IZR (10 ^ (- e10)))%R.

Lemma pow10_pos : forall k, 0 <= k -> 0 < 10 ^ k.
Proof. intros k Hk. apply Z.pow_pos_nonneg; lia. Qed.

(* outside the two ranges that are decided without computing the power
   (e10 >= 310: at least 10^310; 10000*bits + 33219*e10 <= -10750000: below
   2^-1075), the conversion is the rounding of the decimal number *)
Theorem f64_of_decimal_correct : forall neg p e10,
  e10 < 310 ->
  ~ (10000 * (Z.log2 (Zpos p) + 1) + 33219 * e10 <= -10750000) ->
  let x := dec_real neg p e10 in
  if Rlt_bool (Rabs (rnd64 x)) (bpow radix2 1024) then
    Binary.B2R 53 1024 (f64_of_decimal neg (Npos p) e10) = rnd64 x /\
    Binary.is_finite 53 1024 (f64_of_decimal neg (Npos p) e10) = true
  else f64_of_decimal neg (Npos p) e10 = Binary.B754_infinity 53 1024 neg.
Proof.
  intros neg p e10 H310 Hsmall x. unfold f64_of_decimal.
  replace (310 <=? e10) with false by (symmetry; apply Z.leb_gt; lia).
  replace (10000 * (Z.log2 (Z.pos p) + 1) + 33219 * e10 <=? -10750000) with false
    by (symmetry; apply Z.leb_gt; lia).
  unfold x, dec_real. destruct (0 <=? e10) eqn:E.
  - apply Z.leb_le in E. pose proof (pow10_pos e10 E) as Hp.
    pose proof (f64_of_ratio_correct neg (p * Z.to_pos (10 ^ e10)) 1) as H. cbv zeta in H.
    replace (IZR (cond_Zopp neg (Z.pos (p * Z.to_pos (10 ^ e10)))) / IZR (Z.pos 1))%R
      with (IZR (cond_Zopp neg (Z.pos p * 10 ^ e10))) in H.
    + exact H.
    + rewrite Pos2Z.inj_mul, Z2Pos.id by exact Hp. unfold Rdiv. rewrite Rinv_1, Rmult_1_r. reflexivity.
  - apply Z.leb_gt in E. assert (Hp : 0 < 10 ^ (- e10)) by (apply pow10_pos; lia).
    pose proof (f64_of_ratio_correct neg p (Z.to_pos (10 ^ (- e10)))) as H. cbv zeta in H.
    rewrite Z2Pos.id in H by exact Hp. exact H.
Qed.

(* zero mantissa *)
Lemma f64_of_decimal_zero : forall neg e10,
  f64_of_decimal neg N0 e10 = Binary.B754_zero 53 1024 neg.
Proof. reflexivity. Qed.
