(* The static bounded theorem of C06 for token sequences of length 7 over
   the small alphabet of Proofs/C05/Bounded7.v. *)
From Coq Require Import List Arith Bool NArith Lia.
From GV Require Import Base.Result Gen.TokenTypes Gen.Defs Gen.Instr Model.Parser Model.BuilderWL Model.Compile
  Spec.Depth Proofs.C05.Known Proofs.C05.Bounded Proofs.C06.Known Proofs.C06.DepthSound Proofs.C06.Bounded.
Import ListNotations.

Lemma small_d_7 : all_seqs_ok check_d small_alphabet 7 [] = true.
Proof. vm_cast_no_check (@eq_refl bool true). Qed.

Lemma small_check_d : forall toks, length toks = 7 -> (forall x, In x toks -> In x small_alphabet) -> check_d toks = true.
Proof. intros toks H7 Hin. exact (all_seqs_ok_spec _ check_d small_alphabet 7 [] small_d_7 toks H7 Hin). Qed.
