(* C19 model: BasicGarnishData's data block as a list of cells, and the code of
     data/src/basic/ordering.rs   create_index_stack
     data/src/basic/clone.rs      clone_index_stack, lookup_in_data_slice(_optional)
     data/src/basic/optimize.rs   optimize_data_block_and_retain
     data/src/basic/basic.rs      push_to_data_block, optimize, clone_data
   transliterated into executable Gallina.  No proofs in this file.

   What is modelled and how:
   * [cells s] is the data block up to its cursor (block-relative indices, as the Rust
     uses them everywhere except in the lookup slices); cells between the cursor and the
     allocated size are [Empty] in the Rust (the harness reports any exception) and are
     not represented.  [dsize] is the allocated size (it decides when the block grows and
     enters the iteration limit of create_index_stack), [dstart] the absolute start of the
     block in the heap vector (lookup slices are absolute).  The four blocks below the data
     block never hold CloneIndexMap cells (the harness reports any exception), so an
     absolute slice that starts below [dstart] contributes nothing from there.
   * The symbol table block is [symtab]: its (symbol, data index) entries in block order.
   * usize subtraction is checked (debug profile): [Panic].  Unchecked indexing/slicing:
     [Panic].  The loop of create_index_stack runs on fuel.
   * T = (): a Custom cell has no addresses (the default BasicDataCustom methods).
   * A growth setting that makes no progress (FixedSize(0), Multiplicative(<=1), size 0
     with Multiplicative) lets the Rust write past the block; that is C15's subject and
     is [Panic P_push] here; the harness does not use such settings. *)
From Coq Require Import NArith ZArith List Bool Arith.
From GV Require Import Base.Result.
Import ListNotations.

(* ---------------------------------------------------------------- cells *)
Inductive numrep : Type := NInt (z : Z) | NFloat (bits : N).

Inductive cell : Type :=
| CUnit | CTrue | CFalse
| CType (t : N)                     (* GarnishDataType discriminant *)
| CNumber (n : numrep)
| CChar (c : N) | CByte (b : N) | CSymbol (s : N)
| CSymbolList (len : nat)
| CExpression (e : nat) | CExternal (e : nat)
| CCharList (len : nat) | CByteList (len : nat)
| CPair (l r : nat) | CRange (l r : nat) | CSlice (l r : nat) | CPartial (l r : nat)
| CList (len alen : nat)
| CConcat (l r : nat)
| CCustom
| CEmpty
| CUninitList (len count : nat)
| CListItem (a : nat)
| CAssocItem (sym : N) (a : nat)
| CValue (prev v : nat) | CValueRoot (v : nat)
| CRegister (prev v : nat) | CRegisterRoot (v : nat)
| CInstrData (i : N) (d : nat) | CInstr (i : N)
| CJumpPoint (p : nat)
| CFrame (prev reg : nat) | CFrameIndex (prev : nat) | CFrameRegister (reg : nat) | CFrameRoot
| CCloneItem (a : nat)
| CCloneMap (orig new : nat).

Inductive realloc : Type := Fixed (n : nat) | Mult (n : nat).

Record store : Type := mkStore {
  cells : list cell;
  dsize : nat;
  dstart : nat;
  strat : realloc;
  maxitems : option nat;          (* None: usize::MAX *)
  retention : nat;
  cur_value : option nat;
  cur_register : option nat;
  cur_frame : option nat;
  symtab : list (N * nat)
}.

Definition cursor (s : store) : nat := length (cells s).

Definition with_cells (s : store) (l : list cell) : store :=
  mkStore l (dsize s) (dstart s) (strat s) (maxitems s) (retention s) (cur_value s) (cur_register s) (cur_frame s) (symtab s).
Definition with_dsize (s : store) (n : nat) : store :=
  mkStore (cells s) n (dstart s) (strat s) (maxitems s) (retention s) (cur_value s) (cur_register s) (cur_frame s) (symtab s).
Definition with_heads (s : store) (v r f : option nat) : store :=
  mkStore (cells s) (dsize s) (dstart s) (strat s) (maxitems s) (retention s) v r f (symtab s).
Definition with_symtab (s : store) (t : list (N * nat)) : store :=
  mkStore (cells s) (dsize s) (dstart s) (strat s) (maxitems s) (retention s) (cur_value s) (cur_register s) (cur_frame s) t.

(* error classes (DataErrorType) and panic sites *)
Definition E_InvalidIndex : N := 1%N.
Definition E_NotBasic : N := 2%N.
Definition E_CloneLimit : N := 3%N.
Definition E_NoMapped : N := 4%N.
Definition E_CannotClone : N := 5%N.
Definition E_UninitNonItem : N := 6%N.
Definition E_NotAssoc : N := 7%N.
Definition E_MaxItems : N := 8%N.
Definition P_slice : N := 1%N.     (* &self.data()[start..end] with start > end or end past the block *)
Definition P_sub : N := 2%N.       (* usize subtraction below zero *)
Definition P_push : N := 3%N.      (* push with cursor >= size after the growth step *)
Definition P_index : N := 4%N.     (* self.data_mut()[i] out of range in the slide *)

(* ---------------------------------------------------------------- block access *)
Definition next_size (s : store) : nat :=
  match strat s with Fixed n => dsize s + n | Mult n => dsize s * n end.

(* push_to_data_block (+ the data-block part of reallocate_heap, + push_to_block) *)
Definition push (s : store) (c : cell) : res (store * nat) :=
  do s1 <- (if dsize s <=? cursor s then
              let ns := next_size s in
              match maxitems s with
              | Some m => if m <? ns then Err E_MaxItems else Ok (with_dsize s ns)
              | None => Ok (with_dsize s ns)
              end
            else Ok s);
  if dsize s1 <=? cursor s1 then Panic P_push
  else Ok (with_cells s1 (cells s1 ++ [c]), cursor s1).

Definition push_ (s : store) (c : cell) : res store :=
  do (s1, _) <- push s c; Ok s1.

(* get_from_data_block_ensure_index *)
Definition get (s : store) (i : nat) : res cell :=
  match nth_error (cells s) i with Some c => Ok c | None => Err E_InvalidIndex end.

Fixpoint set_nth (l : list cell) (i : nat) (c : cell) : list cell :=
  match l, i with
  | [], _ => []
  | _ :: t, O => c :: t
  | h :: t, S i' => h :: set_nth t i' c
  end.

(* *get_from_data_block_ensure_index_mut(i)? = c *)
Definition set (s : store) (i : nat) (c : cell) : res store :=
  if i <? cursor s then Ok (with_cells s (set_nth (cells s) i c)) else Err E_InvalidIndex.

(* for i in start .. start + n { body } *)
Fixpoint for_range (n : nat) (i : nat) (body : nat -> store -> res store) (s : store) : res store :=
  match n with
  | O => Ok s
  | S n' => do s1 <- body i s; for_range n' (S i) body s1
  end.

Fixpoint push_items (s : store) (l : list nat) : res store :=
  match l with
  | [] => Ok s
  | a :: t => do s1 <- push_ s (CCloneItem a); push_items s1 t
  end.

(* ---------------------------------------------------------------- ordering.rs *)
(* the match of create_index_stack: which clone items the cell at [index] contributes *)
Definition expand (s : store) (index : nat) (c : cell) : res store :=
  match c with
  | CPair l r | CRange l r | CSlice l r | CPartial l r | CConcat l r => push_items s [r; l]
  | CList len _ =>
      for_range len (index + 1)
        (fun i s => do c <- get s i;
                    match c with CListItem a => push_ s (CCloneItem a) | _ => Err E_NotBasic end) s
  | CUninitList _ count =>
      for_range count (index + 1)
        (fun i s => do c <- get s i;
                    match c with
                    | CListItem a => push_ s (CCloneItem a)
                    | CEmpty => Ok s
                    | _ => Err E_UninitNonItem
                    end) s
  | CValue p v | CRegister p v | CFrame p v => push_items s [p; v]
  | CValueRoot v | CRegisterRoot v | CFrameIndex v | CFrameRegister v => push_items s [v]
  | CInstrData _ d => push_items s [d]
  | _ => Ok s
  end.

Fixpoint cis_loop (fuel maxit current iterations : nat) (s : store) : res store :=
  match fuel with
  | O => OutOfFuel
  | S f =>
      if current <? cursor s then
        do c <- get s current;
        match c with
        | CCloneItem index =>
            do tgt <- get s index;
            do s1 <- expand s index tgt;
            if maxit <? S iterations then Err E_CloneLimit
            else cis_loop f maxit (S current) (S iterations) s1
        | _ => Err E_NotBasic
        end
      else Ok s
  end.

Definition create_index_stack (s : store) (from : nat) : res (store * nat) :=
  do (s1, start) <- push s (CCloneItem from);
  let maxit := (dsize s1 / 2) * (dsize s1 / 2) in
  do s2 <- cis_loop (S (S maxit)) maxit start 0 s1;
  Ok (s2, start).

(* ---------------------------------------------------------------- clone.rs *)
Fixpoint find_map (idx : nat) (l : list cell) : option nat :=
  match l with
  | [] => None
  | CCloneMap o n :: t => if o =? idx then Some n else find_map idx t
  | _ :: t => find_map idx t
  end.

(* lookup_in_data_slice_optional: [st, en) are absolute heap indices *)
Definition lookup_opt (s : store) (st en idx : nat) : res (option nat) :=
  if idx <? retention s then Ok (Some idx)
  else if en <? st then Panic P_slice
  else if dstart s + dsize s <? en then Panic P_slice
  else
    let lo := st - dstart s in
    let hi := en - dstart s in
    Ok (find_map idx (firstn (hi - lo) (skipn lo (cells s)))).

Definition lookup (s : store) (st en idx : nat) : res nat :=
  do r <- lookup_opt s st en idx;
  match r with Some v => Ok v | None => Err E_NoMapped end.

Definition copy_following (s : store) (index len : nat) : res store :=
  for_range len (index + 1) (fun i s => do c <- get s i; push_ s c) s.

Definition jump_before (s : store) (index : nat) : res nat :=
  match index with
  | O => Panic P_sub
  | S i => do c <- get s i; match c with CJumpPoint p => Ok p | _ => Err E_NotBasic end
  end.

Definition clone_list_items (s : store) (st en index len : nat) : res store :=
  for_range (len * 2) (index + 1)
    (fun i s => do c <- get s i;
                match c with
                | CListItem a => do a' <- lookup s st en a; push_ s (CListItem a')
                | CAssocItem sy a => do a' <- lookup s st en a; push_ s (CAssocItem sy a')
                | CEmpty => push_ s CEmpty
                | _ => Err E_NotAssoc
                end) s.

(* the inner match of clone_index_stack: copy the cell [c] found at [index]; the result is the
   block-relative index of the copy *)
Definition clone_cell (s : store) (st en index : nat) (c : cell) : res (store * nat) :=
  match c with
  | CUnit | CTrue | CFalse | CType _ | CNumber _ | CChar _ | CByte _ | CSymbol _
  | CExpression _ | CExternal _ | CCustom | CEmpty | CInstr _ | CJumpPoint _ => push s c
  | CSymbolList len | CCharList len | CByteList len =>
      do (s1, li) <- push s c;
      do s2 <- copy_following s1 index len;
      Ok (s2, li)
  | CPair l r => do l' <- lookup s st en l; do r' <- lookup s st en r; push s (CPair l' r')
  | CRange l r => do l' <- lookup s st en l; do r' <- lookup s st en r; push s (CRange l' r')
  | CSlice l r => do l' <- lookup s st en l; do r' <- lookup s st en r; push s (CSlice l' r')
  | CPartial l r => do l' <- lookup s st en l; do r' <- lookup s st en r; push s (CPartial l' r')
  | CConcat l r => do l' <- lookup s st en l; do r' <- lookup s st en r; push s (CConcat l' r')
  | CList len alen =>
      do (s1, li) <- push s (CList len alen);
      do s2 <- clone_list_items s1 st en index len;
      Ok (s2, li)
  | CUninitList len count =>
      do (s1, li) <- push s (CUninitList len count);
      do s2 <- clone_list_items s1 st en index len;
      Ok (s2, li)
  | CListItem _ | CAssocItem _ _ | CCloneItem _ | CCloneMap _ _ => Err E_CannotClone
  | CValue p v => do p' <- lookup s st en p; do v' <- lookup s st en v; push s (CValue p' v')
  | CValueRoot v => do v' <- lookup s st en v; push s (CValueRoot v')
  | CRegister p v => do p' <- lookup s st en p; do v' <- lookup s st en v; push s (CRegister p' v')
  | CRegisterRoot v => do v' <- lookup s st en v; push s (CRegisterRoot v')
  | CInstrData i d => do d' <- lookup s st en d; push s (CInstrData i d')
  | CFrame p r =>
      do pt <- jump_before s index;
      do p' <- lookup s st en p; do r' <- lookup s st en r;
      do s1 <- push_ s (CJumpPoint pt); push s1 (CFrame p' r')
  | CFrameIndex p =>
      do pt <- jump_before s index;
      do p' <- lookup s st en p;
      do s1 <- push_ s (CJumpPoint pt); push s1 (CFrameIndex p')
  | CFrameRegister r =>
      do pt <- jump_before s index;
      do r' <- lookup s st en r;
      do s1 <- push_ s (CJumpPoint pt); push s1 (CFrameRegister r')
  | CFrameRoot =>
      do pt <- jump_before s index;
      do s1 <- push_ s (CJumpPoint pt); push s1 CFrameRoot
  end.

(* one iteration of `for i in clone_range.rev()`; the accumulator is (store, lookup_start) *)
Definition clone_step (offset en : nat) (acc : store * nat) (i : nat) : res (store * nat) :=
  let '(s, st) := acc in
  do c <- get s i;
  match c with
  | CCloneItem index =>
      do ex <- lookup_opt s st en index;
      do (s1, ni) <-
        match ex with
        | Some x => Ok (s, x)
        | None =>
            do tgt <- get s index;
            do (s1, ni) <- clone_cell s st en index tgt;
            if ni <? retention s1 then Ok (s1, ni)
            else if ni <? offset then Panic P_sub
            else Ok (s1, ni - offset)
        end;
      do s2 <- set s1 i (CCloneMap index ni);
      match st with
      | O => Panic P_sub
      | S st' => Ok (s2, st')
      end
  | _ => Err E_NotBasic
  end.

Fixpoint fold_res {A B : Type} (f : A -> B -> res A) (l : list B) (a : A) : res A :=
  match l with
  | [] => Ok a
  | b :: t => do a1 <- f a b; fold_res f t a1
  end.

Definition clone_index_stack (s : store) (top offset : nat) : res (store * nat) :=
  let en := dstart s + cursor s in
  do (s1, _) <- fold_res (clone_step offset en) (rev (seq top (cursor s - top))) (s, en);
  do c <- get s1 top;
  match c with
  | CCloneMap _ new => Ok (s1, new)
  | _ => Err E_NotBasic
  end.

(* ---------------------------------------------------------------- basic.rs *)
Definition clone_data (s : store) (index : nat) : res (store * nat) :=
  do (s1, start) <- create_index_stack s index;
  clone_index_stack s1 start 0.

(* ---------------------------------------------------------------- optimize.rs *)
Definition create_stacks (s : store) (roots : list nat) : res store :=
  fold_res (fun s r => do (s1, _) <- create_index_stack s r; Ok s1) roots s.

Definition opt_list (o : option nat) : list nat := match o with Some x => [x] | None => [] end.

Fixpoint map_res {A B : Type} (f : A -> res B) (l : list A) : res (list B) :=
  match l with
  | [] => Ok []
  | a :: t => do b <- f a; do r <- map_res f t; Ok (b :: r)
  end.

Definition map_opt (f : nat -> res nat) (o : option nat) : res (option nat) :=
  match o with None => Ok None | Some x => do y <- f x; Ok (Some y) end.

(* for i in from_range { data[current] = data[i]; current += 1 } *)
Fixpoint slide (n src dst : nat) (l : list cell) : res (list cell) :=
  match n with
  | O => Ok l
  | S n' =>
      match nth_error l src with
      | None => Panic P_index
      | Some c => if dst <? length l then slide n' (S src) (S dst) (set_nth l dst c) else Panic P_index
      end
  end.

Definition optimize (s : store) (roots : list nat) : res (store * list nat) :=
  let current_data_end := dstart s + cursor s in
  let retained_data_end := dstart s + retention s in
  let original_register := cur_register s in
  let original_value := cur_value s in
  let original_frame := cur_frame s in
  let index_list_start := cursor s in
  do s1 <- create_stacks s (map snd (symtab s));
  do s2 <- create_stacks s1 (opt_list original_register);
  do s3 <- create_stacks s2 (opt_list original_value);
  do s4 <- create_stacks s3 (opt_list original_frame);
  do s5 <- create_stacks s4 roots;
  let index_list_end := dstart s5 + cursor s5 in
  let index_lookup_start := dstart s5 + index_list_start in
  if dstart s5 + cursor s5 <? retained_data_end then Panic P_sub else
  let offset := dstart s5 + cursor s5 - retained_data_end in
  do s6 <- (if index_list_end =? current_data_end then Ok s5
            else do (s6, _) <- clone_index_stack s5 index_list_start offset; Ok s6);
  let lk := lookup s6 index_lookup_start index_list_end in
  do syms <- map_res (fun e => do m <- lk (snd e); Ok (fst e, m)) (symtab s6);
  do r' <- map_opt lk original_register;
  do v' <- map_opt lk original_value;
  do f' <- map_opt lk original_frame;
  do mapped <- map_res lk roots;
  let new_data_end := dstart s6 + cursor s6 in
  do moved <- slide (new_data_end - index_list_end) (index_list_end - dstart s6) (retention s6) (cells s6);
  let current := retained_data_end + (new_data_end - index_list_end) in
  if current <? dstart s6 then Panic P_sub else
  let s7 := with_cells (with_heads (with_symtab s6 syms) v' r' f') (firstn (current - dstart s6) moved) in
  Ok (s7, mapped).

(* ---------------------------------------------------------------- getters the read-back uses *)
(* search.rs search_for_associative_item_index over (symbol, payload) entries; [None] in the list is a
   cell that is not an AssociativeItem (probing it is an error: the outer None) *)
Fixpoint assoc_search_loop {A : Type} (fuel : nat) (items : list (option (N * A))) (sym : N) (base size : nat)
  : option nat :=
  match fuel with
  | O => Some base
  | S f =>
      if 1 <? size then
        let half := size / 2 in
        let mid := base + half in
        match nth_error items mid with
        | Some (Some (k, _)) =>
            assoc_search_loop f items sym (if (sym <? k)%N then base else mid) (size - half)
        | _ => None
        end
      else Some base
  end.

(* Some (Some x): found; Some None: absent; None: error (non-associative cell probed) *)
Definition assoc_search {A : Type} (items : list (option (N * A))) (sym : N) : option (option A) :=
  match items with
  | [] => Some None
  | _ =>
      match assoc_search_loop (length items) items sym 0 (length items) with
      | None => None
      | Some base =>
          match nth_error items base with
          | Some (Some (k, v)) => if (k =? sym)%N then Some (Some v) else Some None
          | _ => None
          end
      end
  end.
