(* literal driver (C14): reads the harness output lines
     <case>\t<impl result>\t<oracle>
   where <case> = "<K> <cps> <annotation>", K in N C B S, <cps> = '.'-separated
   hex code points ('-' = empty), and prints
     <case>\tD=<model of the parsing function>;S=<model Simple read-back>;B=<model Basic read-back>\t<spec>
   in the harness's own notation.  <spec> is what the Coq spec (Spec/LitDenote.v)
   says the annotated spelling denotes, after checking that the case text IS the
   spelling the spec defines for the annotated value ("MISMATCH" otherwise). *)
let cps_of (s : string) : n list =
  if s = "-" || s = "" then [] else List.map n_of_hex (split_on '.' s)
let show_cps (l : n list) : string =
  if l = [] then "-" else String.concat "." (List.map hex_of_n l)

let pad16 s = String.make (max 0 (16 - String.length s)) '0' ^ s
let is_nan (f : binary64) = match f with B754_nan (_, _) -> true | _ -> false
let show_num (x : num) : string =
  match x with
  | Int v -> "I:" ^ hex_of_z v
  | Flt f -> if is_nan f then "F:NaN" else "F:" ^ pad16 (hex_of_z (bits_of_b64 f))

let show_item (r : n option res) : string =
  match r with
  | Ok (Some c) -> hex_of_n c
  | Ok None -> "None"
  | Err _ -> "Err"
  | Panic _ -> "PANIC"
  | OutOfFuel -> "FUEL"
let show_stored (tag : string) (content : n list) (st : n * n option res list) : string =
  let (len, items) = st in
  let its = if items = [] then "-" else String.concat "." (List.map show_item items) in
  Printf.sprintf "%s:%s,len=%d,items=%s" tag (show_cps content) (int_of_n len) its

(* oracle column *)
let parse_f64_table (o : string) : (n list * binary64 option) list =
  if String.length o > 4 && String.sub o 0 4 = "f64:" then
    List.map (fun kv ->
      match split_on '=' kv with
      | [k; v] ->
        let f = if v = "ERR" then None
          else if v = "NaN" then Some (b64_of_bits (z_of_hex "7ff8000000000000"))
          else Some (b64_of_bits (z_of_hex v)) in
        (cps_of k, f)
      | _ -> failwith ("bad f64 oracle " ^ kv))
      (split_on ',' (String.sub o 4 (String.length o - 4)))
  else []
let f64_mismatch = ref false
let parse_num_table (o : string) : n list =
  if String.length o > 4 && String.sub o 0 4 = "num:" then cps_of (String.sub o 4 (String.length o - 4)) else []
let parse_sym (o : string) : string =
  if String.length o > 4 && String.sub o 0 4 = "sym=" then String.sub o 4 (String.length o - 4) else "?"

(* items:  r<cp> | e<letter> | u<hex digit cps>  separated by ',' *)
let esc_of_letter = function
  | "n" -> EscN | "t" -> EscT | "r" -> EscR | "0" -> Esc0 | "b" -> EscBackslash | "q" -> EscQuote
  | s -> failwith ("bad esc " ^ s)
let besc_of_letter = function
  | "n" -> BEscN | "t" -> BEscT | "r" -> BEscR | "0" -> BEsc0 | "b" -> BEscBackslash | "q" -> BEscApos
  | s -> failwith ("bad besc " ^ s)
let tail1 s = String.sub s 1 (String.length s - 1)
let citems_of (s : string) : citem list =
  if s = "-" then [] else
  List.map (fun it ->
    match it.[0] with
    | 'r' -> CRaw (n_of_hex (tail1 it))
    | 'e' -> CEsc (esc_of_letter (tail1 it))
    | 'u' -> CUni (cps_of (tail1 it))
    | _ -> failwith ("bad item " ^ it)) (split_on ',' s)
let bitems_of (s : string) : bitem list =
  if s = "-" then [] else
  List.map (fun it ->
    match it.[0] with
    | 'r' -> BRaw (n_of_hex (tail1 it))
    | 'e' -> BEsc (besc_of_letter (tail1 it))
    | _ -> failwith ("bad item " ^ it)) (split_on ',' s)

let rec split_prefix (p : n list) (l : n list) : n list option =
  match p, l with
  | [], r -> Some r
  | a :: p', b :: l' -> if a = b then split_prefix p' l' else None
  | _ :: _, [] -> None

(* v <= i32::MAX, for v of any size: compare the hexadecimal spellings *)
let n_le_i32_max (v : n) : bool =
  let h = hex_of_n v in
  String.length h < 8 || (String.length h = 8 && h <= "7fffffff")

let spec_of (kind : string) (text : n list) (ann : string) : string =
  match split_on ':' ann with
  | ["-"] -> "-"
  | ["int"; r; v] ->
    let r = n_of_hex r and v = n_of_hex v in
    (match split_prefix (spell_radix r []) text with
     | Some ds' when strip_seps ds' = digits_of r v -> "I:" ^ hex_of_n v
     | _ -> "MISMATCH")
  | ["rdx"; r] ->
    let r = n_of_hex r in
    (match split_prefix (spell_radix r []) text with
     | Some ds' ->
       let ds = strip_seps ds' in
       if valid_digits r ds then
         (if n_le_i32_max (radix_value r ds) then "I:" ^ hex_of_n (radix_value r ds) else "OUT")
       else "MISMATCH"
     | None -> "MISMATCH")
  | ["dec"; v] ->
    let v = n_of_hex v in
    (match text with
     | c :: _ when c <> n_of_int 95 && strip_seps text = dec_string v -> "I:" ^ hex_of_n v
     | _ -> "MISMATCH")
  | ["str"; q; s] ->
    let s = cps_of s in
    if text = spell_string (n_of_hex q) s then "S:" ^ show_cps s else "MISMATCH"
  | ["citems"; q; its] ->
    let q = n_of_hex q and its = citems_of its in
    if List.for_all (wf_citem q) its && body_ok (n_of_int 34) (render_citems its) && text = char_list_literal q its
    then "S:" ^ show_cps (denote_citems its) else "MISMATCH"
  | ["btext"; bs] ->
    let bs = cps_of bs in
    if text = spell_bytes_text bs then "Y:" ^ show_cps bs else "MISMATCH"
  | ["bitems"; its] ->
    let its = bitems_of its in
    if List.for_all wf_bitem its && body_ok (n_of_int 39) (render_bitems its) && text = byte_text_literal its
    then "Y:" ^ show_cps (denote_bitems its) else "MISMATCH"
  | ["bnum"; q; bs] ->
    let bs = cps_of bs in
    if text = spell_bytes (n_of_hex q) bs then "Y:" ^ show_cps bs else "MISMATCH"
  | ["dyad"; bits] ->
    (match b64_of_bits (z_of_hex bits) with
     | B754_finite (false, m, e) when text = spell_dyadic m e -> "F:" ^ pad16 bits
     | _ -> "MISMATCH")
  | ["sym"] -> "M:" ^ show_cps text
  | "flt" :: _ -> "-"
  | _ -> ignore kind; failwith ("bad annotation " ^ ann)

let () =
  iter_lines (fun line ->
    match split_on '\t' line with
    | case :: _ :: oracle :: _ ->
      (match split_on ' ' case with
       | [kind; cps; ann] ->
         let text = cps_of cps in
         (* str::parse::<f64> is the model's own parse_f64 (grammar + correctly rounded
            conversion); the values the harness prints in its oracle column are only
            cross-checked here *)
         let tbl = parse_f64_table oracle in
         let pf (s : n list) : binary64 option =
           let r = parse_f64 s in
           (match List.assoc_opt s tbl with
            | Some o when (match o, r with
                | None, None -> false
                | Some a, Some b -> not (is_nan a && is_nan b) && bits_of_b64 a <> bits_of_b64 b
                | _ -> true) -> f64_mismatch := true
            | _ -> ());
           r in
         let nums = parse_num_table oracle in
         let uni_numeric (c : n) : bool = List.mem c nums in
         let model =
           (match kind with
            | "N" ->
              (match parse_simple_number pf text with
               | Ok v -> let s = show_num v in Printf.sprintf "D=%s;S=%s;B=%s" s s s
               | Err _ -> "D=Err;S=BuildErr;B=BuildErr"
               | Panic _ -> "D=PANIC;S=PANIC;B=PANIC"
               | OutOfFuel -> "D=FUEL;S=FUEL;B=FUEL")
            | "C" ->
              (match parse_char_list pf text with
               | Ok s ->
                 Printf.sprintf "D=S:%s;S=%s;B=%s" (show_cps s)
                   (show_stored "S" s (simple_store_chars chars_count s))
                   (show_stored "S" s (basic_store_chars s))
               | Err _ -> "D=Err;S=BuildErr;B=BuildErr"
               | Panic _ -> "D=PANIC;S=PANIC;B=PANIC"
               | OutOfFuel -> "D=FUEL;S=FUEL;B=FUEL")
            | "B" ->
              (match parse_byte_list pf uni_numeric text with
               | Ok s ->
                 Printf.sprintf "D=Y:%s;S=%s;B=%s" (show_cps s)
                   (show_stored "Y" s (simple_store_bytes s))
                   (show_stored "Y" s (basic_store_bytes s))
               | Err _ -> "D=Err;S=BuildErr;B=BuildErr"
               | Panic _ -> "D=PANIC;S=PANIC;B=PANIC"
               | OutOfFuel -> "D=FUEL;S=FUEL;B=FUEL")
            | "S" ->
              let sym = parse_sym oracle in
              let h = n_of_hex sym in
              let hash (_ : n list) : n = h in
              let d = Printf.sprintf "M:%s,sym=%s" (show_cps text) sym in
              let (cells, entry) = basic_parse_add_symbol chars_count hash N0 text in
              let b = (match basic_get_symbol_string cells entry h with
                  | Ok (Some s) -> Printf.sprintf "M:%s,sym=%s" (show_cps s) sym
                  | Ok None -> Printf.sprintf "M:None,sym=%s" sym
                  | Err _ -> Printf.sprintf "M:Err,sym=%s" sym
                  | Panic _ -> "PANIC"
                  | OutOfFuel -> "FUEL") in
              let sm = (match simple_symbol_name (simple_parse_add_symbol hash text) h with
                  | Some s -> Printf.sprintf "M:%s,sym=%s" (show_cps s) sym
                  | None -> Printf.sprintf "M:None,sym=%s" sym) in
              Printf.sprintf "D=%s;S=%s;B=%s" d sm b
            | _ -> failwith ("bad kind " ^ kind)) in
         let spec = spec_of kind text ann in
         let spec = if !f64_mismatch then (f64_mismatch := false; "F64-MODEL-DIFFERS") else spec in
         Printf.printf "%s\t%s\t%s\n" case model spec
       | _ -> failwith ("bad case " ^ case))
    | _ -> failwith ("bad line " ^ line))
