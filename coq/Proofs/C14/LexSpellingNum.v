(* C14, first stage, continued: byte-list spellings and number spellings lex to
   exactly one token whose text is the whole spelling.

   Numbers: a digit starts state Number; digits, ASCII letters and underscores
   are pushed; the first period (when can_float) moves to state Float and is
   pushed; the end of input emits the token.  There is no Float token type:
   the Rust lexer gives a float literal the type Number, and the parser of the
   token's text decides. *)
From Coq Require Import Arith ZArith NArith List Bool Lia.
From GV Require Import Base.Result Gen.TokenTypes Gen.Tokens Spec.LitDenote Model.Lexer
  Proofs.C13.LexBase Proofs.C13.LexInv Proofs.C14.LexSpelling.
From GV Require Model.Num Model.Literals Proofs.C14.Digits Proofs.C14.Number Proofs.C14.ByteList
  Proofs.C14.FloatSpelling.
Import ListNotations.
Local Open Scope N_scope.

(* the characters a number token is made of, ASCII part *)
Definition num_char (c : N) : bool := ascii_digit c || ascii_alpha c || (c =? 95).

Lemma digit_num_char : forall R c, is_digit_of R c = true -> num_char c = true.
Proof.
  intros R c H. unfold is_digit_of, digit_value in H. unfold num_char, ascii_digit, ascii_alpha.
  destruct ((48 <=? c) && (c <=? 57)) eqn:E1; [reflexivity|].
  destruct ((97 <=? c) && (c <=? 122)) eqn:E2; [rewrite orb_true_r; reflexivity|].
  destruct ((65 <=? c) && (c <=? 90)) eqn:E3; [reflexivity|discriminate].
Qed.

Lemma digit10_ascii_digit : forall c, is_digit_of 10 c = true -> ascii_digit c = true.
Proof.
  intros c H. apply GV.Proofs.C14.ByteList.dec_digit_range in H. unfold ascii_digit.
  apply andb_true_iff. split; apply N.leb_le; lia.
Qed.

Lemma digits_num_chars : forall R ds, forallb (is_digit_of R) ds = true -> forallb num_char ds = true.
Proof.
  intros R ds H. rewrite forallb_forall in *. intros c Hc. eapply digit_num_char. apply H. exact Hc.
Qed.

Lemma num_char_lt : forall c, num_char c = true -> c < 128.
Proof.
  intros c H. unfold num_char, ascii_digit, ascii_alpha in H.
  rewrite !orb_true_iff, !andb_true_iff, !N.leb_le, N.eqb_eq in H. lia.
Qed.

Lemma ascii_digit_range : forall d, ascii_digit d = true -> 48 <= d /\ d <= 57.
Proof. intros d H. unfold ascii_digit in H. rewrite andb_true_iff, !N.leb_le in H. exact H. Qed.

Section Num.
  Variables un ua : N -> bool.
  Notation process_char := (process_char un ua).
  Notation run_arm := (run_arm un ua).
  Notation start_token := (start_token un ua).
  Notation start_new_tail := (start_new_tail un ua).
  Notation internal_next_loop := (internal_next_loop un ua).
  Notation internal_next := (internal_next un ua).
  Notation lex_loop := (lex_loop un ua).
  Notation lex := (lex un ua).
  Notation is_number_char := (is_number_char un ua).
  Notation is_numeric := (is_numeric un).

  Lemma num_char_number : forall c, num_char c = true -> is_number_char c = true.
  Proof.
    intros c H. pose proof (num_char_lt c H) as Hlt. apply N.ltb_lt in Hlt.
    unfold Lexer.is_number_char, Lexer.is_numeric, is_alphanumeric, ch_underscore. rewrite Hlt.
    unfold num_char in H. destruct (ascii_digit c), (ascii_alpha c), (c =? 95); cbn in *; congruence.
  Qed.

  Lemma nul_not_number : is_number_char 0 = false.
  Proof. reflexivity. Qed.
  Lemma period_not_number : is_number_char 46 = false.
  Proof. reflexivity. Qed.

  Definition nst (fl : bool) : lstate := if fl then SFloat else SNumber.

  Definition in_num (fl cf : bool) (pre : list N) (r c : N) (l : lexer) : Prop :=
    st l = nst fl /\ cur l = pre /\ cur_ty l = Some TT_Number /\ result l = None /\ at_end l = false /\
    should_create l = true /\ can_float l = cf /\ start_row l = r /\ start_col l = c.

  Lemma advance_cf : forall l c, can_float (advance l c) = can_float l.
  Proof.
    intros l c. unfold advance. destruct (negb (c =? ch_lf)); [reflexivity|].
    destruct (st l); reflexivity.
  Qed.

  Ltac adv l c :=
    let H := fresh "Hadv" in
    pose proof (advance_frame2 l c) as H;
    destruct H as (?Ac & ?As & ?Ar & ?Ae & ?Asc & ?Aty & ?Arow & ?Acol & ?Asq & ?Aeq).

  Lemma step_num_first : forall l d, idle l -> ascii_digit d = true ->
    exists l1, process_char l d = Ok (l1, None) /\ in_num false (can_float l) [d] (text_row l) (text_col l) l1.
  Proof.
    intros l d (Hst & Heq & Hres & Hae & Hsc) Hd.
    pose proof (ascii_digit_range d Hd) as Hrange.
    unfold Lexer.process_char, Lexer.run_arm. rewrite Hst.
    eexists. split; [reflexivity|].
    adv (start_token l d) d.
    unfold in_num. rewrite Ac, As, Ar, Ae, Asc, Aty, Arow, Acol, advance_cf.
    unfold Lexer.start_token. proj.
    rewrite (current_operator_none [d] d) by
      (first [left; reflexivity | unfold plain_op_char; rewrite Hd; cbn [negb andb]; rewrite ?andb_false_r; reflexivity]).
    assert (Hn : is_numeric d = true).
    { unfold Lexer.is_numeric. replace (d <? 128) with true by (symmetry; apply N.ltb_lt; lia). exact Hd. }
    unfold is_ascii_whitespace, ch_space, ch_tab, ch_cr, ch_lf, ch_ff.
    repeat match goal with |- context [d =? ?k] =>
      replace (d =? k) with false by (symmetry; apply N.eqb_neq; lia) end.
    cbn [orb]. rewrite Hn. proj. repeat split; assumption.
  Qed.

  Lemma step_num_char : forall fl cf pre r c l x, in_num fl cf pre r c l -> num_char x = true ->
    exists l1, process_char l x = Ok (l1, None) /\ in_num fl cf (pre ++ [x]) r c l1.
  Proof.
    intros fl cf pre r c l x (Hst & Hcur & Hty & Hres & Hae & Hsc & Hcf & Hr & Hc) Hx.
    assert (Harm : run_arm l x = Arm (push l x) None false).
    { unfold Lexer.run_arm. rewrite Hst.
      destruct fl; cbn [nst]; unfold arm_float, arm_number; rewrite (num_char_number x Hx); reflexivity. }
    unfold Lexer.process_char. rewrite Harm. eexists. split; [reflexivity|].
    adv (push l x) x.
    unfold in_num. rewrite Ac, As, Ar, Ae, Asc, Aty, Arow, Acol, advance_cf. proj.
    rewrite Hcur. repeat split; assumption.
  Qed.

  Lemma step_num_period : forall pre r c l, in_num false true pre r c l ->
    exists l1, process_char l 46 = Ok (l1, None) /\ in_num true true (pre ++ [46]) r c l1.
  Proof.
    intros pre r c l (Hst & Hcur & Hty & Hres & Hae & Hsc & Hcf & Hr & Hc).
    assert (Harm : run_arm l 46 = Arm (set_st (set_cur_ty (push l 46) (Some TT_Number)) SFloat) None false).
    { unfold Lexer.run_arm. rewrite Hst. cbn [nst]. unfold arm_number. rewrite period_not_number, Hcf. reflexivity. }
    unfold Lexer.process_char. rewrite Harm. eexists. split; [reflexivity|].
    match goal with |- in_num _ _ _ _ _ (advance ?L ?X) => adv L X end.
    unfold in_num. rewrite Ac, As, Ar, Ae, Asc, Aty, Arow, Acol, advance_cf. proj.
    rewrite Hcur. repeat split; assumption.
  Qed.

  (* the end of input ends the number *)
  Lemma step_num_flush : forall fl cf pre r c l, in_num fl cf pre r c l ->
    exists l1, process_char (set_at_end l true) 0 = Ok (l1, Some (mkTok pre TT_Number r c)) /\
               st l1 = SNoToken /\ result l1 = None.
  Proof.
    intros fl cf pre r c l (Hst & Hcur & Hty & Hres & Hae & Hsc & Hcf & Hr & Hc).
    assert (Harm : run_arm (set_at_end l true) 0 = Arm (set_at_end l true) None true).
    { unfold Lexer.run_arm. proj. rewrite Hst.
      destruct fl; cbn [nst]; unfold arm_float, arm_number; rewrite nul_not_number; reflexivity. }
    unfold Lexer.process_char. rewrite Harm.
    unfold Lexer.start_new_tail. proj. rewrite Hst, Hty, Hcur, Hr, Hc.
    replace (lstate_eqb (nst fl) SNoToken) with false by (destruct fl; reflexivity). cbn [negb].
    unfold can_create_valid_token. proj. rewrite Hty. proj. rewrite Hsc.
    eexists. split; [reflexivity|].
    match goal with |- st (advance (start_token ?L 0) 0) = _ /\ _ =>
      destruct (start_token_sentinel un ua L eq_refl) as (E1 & E2 & E3); adv (start_token L 0) 0 end.
    rewrite As, Ar, E2, E3. proj. split; reflexivity.
  Qed.

  Lemma num_run : forall ds fl cf pre r c l rest, in_num fl cf pre r c l -> forallb num_char ds = true ->
    exists l1, internal_next_loop l (ds ++ rest) = internal_next_loop l1 rest /\
               in_num fl cf (pre ++ ds) r c l1.
  Proof.
    induction ds as [|x ds IH]; intros fl cf pre r c l rest H Hds.
    - exists l. rewrite app_nil_r. split; [reflexivity | exact H].
    - cbn [forallb] in Hds. apply andb_true_iff in Hds as [Hx Hds].
      destruct (step_num_char fl cf pre r c l x H Hx) as (l1 & Hp & H1).
      destruct (IH fl cf (pre ++ [x]) r c l1 rest H1 Hds) as (l2 & Hrun & H2).
      exists l2. cbn [app]. rewrite (loop_step un ua _ _ _ _ Hp) by apply H1.
      split; [exact Hrun|]. rewrite <- app_assoc in H2. exact H2.
  Qed.

  Lemma num_end : forall fl cf pre r c l, in_num fl cf pre r c l ->
    exists l1, internal_next_loop l [] = Ok (l1, [], Some (mkTok pre TT_Number r c)) /\
               st l1 = SNoToken /\ result l1 = None.
  Proof.
    intros fl cf pre r c l H. destruct (step_num_flush fl cf pre r c l H) as (l1 & Hp & H1).
    exists l1. split; [|exact H1]. cbn [Lexer.internal_next_loop]. change ch_nul with 0. rewrite Hp. reflexivity.
  Qed.

  Lemma lex_one_token : forall s l1 t, internal_next_loop init_lexer s = Ok (l1, [], Some t) ->
    st l1 = SNoToken -> result l1 = None -> lex s = Ok [t].
  Proof.
    intros s l1 t Hrun Hst Hres. unfold Lexer.lex, Lexer.lex_run, lex_fuel.
    rewrite (lex_loop_step_tok un ua _ _ _ _ _ _ _ (eq_trans (internal_next_init un ua _) Hrun) Hres).
    rewrite lex_loop_idle_end by assumption. reflexivity.
  Qed.

  (* digit, then digits / letters / underscores: one Number token *)
  Theorem lex_number_text : forall d ds, ascii_digit d = true -> forallb num_char ds = true ->
    lex (d :: ds) = Ok [mkTok (d :: ds) TT_Number 0 0].
  Proof.
    intros d ds Hd Hds.
    destruct (step_num_first init_lexer d idle_init Hd) as (l1 & Hp1 & H1).
    cbn [can_float text_row text_col init_lexer] in H1.
    destruct (num_run ds false true [d] 0 0 l1 [] H1 Hds) as (l2 & Hr2 & H2).
    destruct (num_end _ _ _ _ _ l2 H2) as (l3 & Hr3 & Hst3 & Hres3).
    apply (lex_one_token _ l3); [|assumption|assumption].
    rewrite (loop_step un ua _ _ _ _ Hp1) by apply H1.
    rewrite <- (app_nil_r ds) at 1. rewrite Hr2, Hr3. reflexivity.
  Qed.

  (* ... with one period inside: still one token, of type Number *)
  Theorem lex_float_text : forall d ds fs, ascii_digit d = true -> forallb num_char ds = true ->
    forallb num_char fs = true ->
    lex (d :: ds ++ 46 :: fs) = Ok [mkTok (d :: ds ++ 46 :: fs) TT_Number 0 0].
  Proof.
    intros d ds fs Hd Hds Hfs.
    destruct (step_num_first init_lexer d idle_init Hd) as (l1 & Hp1 & H1).
    cbn [can_float text_row text_col init_lexer] in H1.
    destruct (num_run ds false true [d] 0 0 l1 (46 :: fs) H1 Hds) as (l2 & Hr2 & H2).
    destruct (step_num_period _ _ _ l2 H2) as (l3 & Hp3 & H3).
    destruct (num_run fs true true _ 0 0 l3 [] H3 Hfs) as (l4 & Hr4 & H4).
    destruct (num_end _ _ _ _ _ l4 H4) as (l5 & Hr5 & Hst5 & Hres5).
    apply (lex_one_token _ l5); [|assumption|assumption].
    rewrite (loop_step un ua _ _ _ _ Hp1) by apply H1. rewrite Hr2.
    rewrite (loop_step un ua _ _ _ _ Hp3) by apply H3.
    rewrite <- (app_nil_r fs) at 1. rewrite Hr4, Hr5.
    cbn [app]. rewrite <- !app_assoc. reflexivity.
  Qed.

  (* ------------------------------------------------------ the number spellings *)
  Theorem lex_spell_radix : forall R ds, forallb num_char ds = true ->
    lex (spell_radix R ds) = Ok [mkTok (spell_radix R ds) TT_Number 0 0].
  Proof.
    intros R ds Hds. unfold spell_radix. apply lex_number_text; [reflexivity|].
    rewrite forallb_app. rewrite (digits_num_chars 10 _ (GV.Proofs.C14.ByteList.dec_string_digits R)).
    cbn [forallb andb]. exact Hds.
  Qed.

  Theorem lex_spell_int : forall R n, 2 <= R -> R <= 36 ->
    lex (spell_int R n) = Ok [mkTok (spell_int R n) TT_Number 0 0].
  Proof.
    intros R n H2 H36. apply lex_spell_radix.
    destruct (GV.Proofs.C14.Digits.valid_digits_inv _ _ (GV.Proofs.C14.Digits.digits_of_valid R n H2 H36))
      as (c & t & _ & _ & H).
    exact (digits_num_chars R _ H).
  Qed.

  Theorem lex_dec_string : forall n, lex (dec_string n) = Ok [mkTok (dec_string n) TT_Number 0 0].
  Proof.
    intros n. pose proof (GV.Proofs.C14.ByteList.dec_string_digits n) as H.
    destruct (dec_string n) as [|d ds] eqn:E.
    - destruct (GV.Proofs.C14.ByteList.dec_string_head n) as (c & t & Heq & _). congruence.
    - cbn [forallb] in H. apply andb_true_iff in H as [Hd Hds].
      apply lex_number_text; [apply digit10_ascii_digit; exact Hd | exact (digits_num_chars 10 _ Hds)].
  Qed.

  Theorem lex_spell_dyadic : forall m e,
    lex (spell_dyadic m e) = Ok [mkTok (spell_dyadic m e) TT_Number 0 0].
  Proof.
    intros m e. unfold spell_dyadic. destruct (dyadic_decimal m e) as [n k].
    pose proof (GV.Proofs.C14.ByteList.dec_string_digits (n / 10 ^ N.of_nat k)) as H.
    destruct (dec_string (n / 10 ^ N.of_nat k)) as [|d ds] eqn:E.
    - destruct (GV.Proofs.C14.ByteList.dec_string_head (n / 10 ^ N.of_nat k)) as (c & t & Heq & _). congruence.
    - cbn [forallb] in H. apply andb_true_iff in H as [Hd Hds]. cbn [app].
      apply lex_float_text; [apply digit10_ascii_digit; exact Hd | exact (digits_num_chars 10 _ Hds) |].
      exact (digits_num_chars 10 _ (GV.Proofs.C14.FloatSpelling.fixed_digits_valid k _)).
  Qed.

  (* lexer, then parse_simple_number on the token's text *)
  Theorem int_end_to_end : forall pf R n, 2 <= R -> R <= 36 -> n <= i32_max_N ->
    exists t, lex (spell_int R n) = Ok [t] /\ tok_type t = TT_Number /\
              GV.Model.Literals.parse_simple_number pf (tok_text t) = Ok (GV.Model.Num.Int (Z.of_N n)).
  Proof.
    intros pf R n H2 H36 Hn. eexists. split; [apply lex_spell_int; assumption|].
    split; [reflexivity|]. cbn [tok_text]. apply GV.Proofs.C14.Number.int_roundtrip; assumption.
  Qed.

  Theorem decimal_end_to_end : forall pf n, n <= i32_max_N ->
    exists t, lex (dec_string n) = Ok [t] /\ tok_type t = TT_Number /\
              GV.Model.Literals.parse_simple_number pf (tok_text t) = Ok (GV.Model.Num.Int (Z.of_N n)).
  Proof.
    intros pf n Hn. eexists. split; [apply lex_dec_string|].
    split; [reflexivity|]. cbn [tok_text]. apply GV.Proofs.C14.Number.decimal_plain; assumption.
  Qed.

  Theorem float_end_to_end : forall m e (H : SpecFloat.bounded 53 1024 m e = true),
    exists t, lex (spell_dyadic m e) = Ok [t] /\ tok_type t = TT_Number /\
              GV.Model.Literals.parse_simple_number GV.Model.Literals.parse_f64 (tok_text t) =
              Ok (GV.Model.Num.Flt (Flocq.IEEE754.Binary.B754_finite 53 1024 false m e H)).
  Proof.
    intros m e H. eexists. split; [apply lex_spell_dyadic|].
    split; [reflexivity|]. cbn [tok_text]. apply GV.Proofs.C14.FloatSpelling.float_spelling_roundtrip.
  Qed.

  (* ------------------------------------------------------------- byte lists *)
  Lemma render_bytes_no_quote : forall bs, ~ In 39 bs -> ~ In 39 (render_bitems (map bitem_of_byte bs)).
  Proof.
    intros bs Hbs H. unfold render_bitems in H. apply in_flat_map in H as (i & Hi & Hx).
    apply in_map_iff in Hi as (b & <- & Hb). unfold bitem_of_byte in Hx.
    repeat break_if_in Hx; cbn in Hx;
      repeat match goal with H : (_ =? _) = false |- _ => apply N.eqb_neq in H end;
      repeat match goal with H : (_ =? _) = true |- _ => apply N.eqb_eq in H end;
      intuition (try discriminate; try congruence).
  Qed.

  Lemma render_bytes_nonempty : forall bs, bs <> [] -> render_bitems (map bitem_of_byte bs) <> [].
  Proof.
    intros [|b bs] H; [congruence|]. unfold render_bitems. cbn [map flat_map].
    destruct (bitem_of_byte b); cbn; discriminate.
  Qed.

  Lemma spell_bytes_text_literal : forall bs,
    spell_bytes_text bs = literal_text KByte 1 (render_bitems (map bitem_of_byte bs)).
  Proof. reflexivity. Qed.

  (* text form: any bytes other than the apostrophe itself *)
  Theorem lex_bytes_text : forall bs, ~ In 39 bs ->
    lex (spell_bytes_text bs) = Ok [mkTok (spell_bytes_text bs) TT_ByteList 0 0].
  Proof.
    intros bs Hbs. destruct bs as [|b bs].
    - exact (lex_empty_literal un ua KByte).
    - rewrite spell_bytes_text_literal.
      apply (lex_literal un ua KByte); [lia | lia | apply render_bytes_nonempty; discriminate |
                                       apply render_bytes_no_quote; exact Hbs].
  Qed.

  Theorem lex_bytes_text_then : forall bs rest ts, bs <> [] -> ~ In 39 bs ->
    lex (spell_bytes_text bs ++ rest) = Ok ts ->
    exists ts', ts = mkTok (spell_bytes_text bs) TT_ByteList 0 0 :: ts'.
  Proof.
    intros bs rest ts Hne Hbs. rewrite spell_bytes_text_literal.
    apply (lex_literal_then un ua KByte); [lia | lia | apply render_bytes_nonempty; exact Hne |
                                           apply render_bytes_no_quote; exact Hbs].
  Qed.

  Lemma byte_numbers_no_quote : forall bs, ~ In 39 (spell_byte_numbers bs).
  Proof.
    assert (Hd : forall n, ~ In 39 (dec_string n)).
    { intros n Hin. pose proof (GV.Proofs.C14.ByteList.dec_string_digits n) as H.
      rewrite forallb_forall in H. apply H, GV.Proofs.C14.ByteList.dec_digit_range in Hin. lia. }
    intros [|b bs] H; [exact H|]. cbn [spell_byte_numbers] in H. apply in_app_or in H as [H|H].
    - exact (Hd b H).
    - apply in_flat_map in H as (x & _ & [Hx|Hx]); [discriminate | exact (Hd x Hx)].
  Qed.

  Lemma byte_numbers_nonempty : forall bs, bs <> [] -> spell_byte_numbers bs <> [].
  Proof.
    intros [|b bs] H; [congruence|].
    destruct (GV.Proofs.C14.ByteList.byte_numbers_body b bs) as (c & t & -> & _). discriminate.
  Qed.

  Lemma spell_bytes_literal : forall q bs,
    spell_bytes q bs = literal_text KByte (N.to_nat q) (spell_byte_numbers bs).
  Proof. reflexivity. Qed.

  (* numeric form: three or more quotes each side *)
  Theorem lex_bytes : forall q bs, 3 <= q -> bs <> [] ->
    lex (spell_bytes q bs) = Ok [mkTok (spell_bytes q bs) TT_ByteList 0 0].
  Proof.
    intros q bs Hq Hne. rewrite spell_bytes_literal.
    apply (lex_literal un ua KByte); [lia | lia | apply byte_numbers_nonempty; exact Hne | apply byte_numbers_no_quote].
  Qed.

  Theorem lex_bytes_then : forall q bs rest ts, 3 <= q -> bs <> [] ->
    lex (spell_bytes q bs ++ rest) = Ok ts ->
    exists ts', ts = mkTok (spell_bytes q bs) TT_ByteList 0 0 :: ts'.
  Proof.
    intros q bs rest ts Hq Hne. rewrite spell_bytes_literal.
    apply (lex_literal_then un ua KByte); [lia | lia | apply byte_numbers_nonempty; exact Hne | apply byte_numbers_no_quote].
  Qed.

  Theorem bytes_text_end_to_end : forall pf un' bs, Forall (fun b => b < 256) bs -> ~ In 39 bs ->
    exists t, lex (spell_bytes_text bs) = Ok [t] /\ tok_type t = TT_ByteList /\
              GV.Model.Literals.parse_byte_list pf un' (tok_text t) = Ok bs.
  Proof.
    intros pf un' bs Hall Hbs. eexists. split; [apply lex_bytes_text; exact Hbs|].
    split; [reflexivity|]. cbn [tok_text]. apply GV.Proofs.C14.ByteList.bytes_text_roundtrip; [exact Hall|].
    destruct bs as [|b bs]; [exact I|]. intros E. apply Hbs. left. congruence.
  Qed.

  Theorem bytes_end_to_end : forall pf un' q bs, 3 <= q -> bs <> [] -> Forall (fun b => b <= 255) bs ->
    exists t, lex (spell_bytes q bs) = Ok [t] /\ tok_type t = TT_ByteList /\
              GV.Model.Literals.parse_byte_list pf un' (tok_text t) = Ok bs.
  Proof.
    intros pf un' q bs Hq Hne Hall. eexists. split; [apply lex_bytes; assumption|].
    split; [reflexivity|]. cbn [tok_text]. apply GV.Proofs.C14.ByteList.byte_numbers_roundtrip; [lia|assumption|assumption].
  Qed.

  (* what does not lex as one token *)
  (* the escaped apostrophe: the lexer ends the literal at the apostrophe *)
  Lemma lex_bytes_text_apostrophe_refuted : lex (spell_bytes_text [39]) = Err E_Unterminated.
  Proof. vm_compute. reflexivity. Qed.

  Lemma lex_bytes_two_quotes_refuted :
    lex (spell_bytes 2 [7]) =
    Ok [mkTok [39; 39] TT_ByteList 0 0; mkTok [55] TT_Number 0 2; mkTok [39; 39] TT_ByteList 0 3].
  Proof. vm_compute. reflexivity. Qed.

  Lemma lex_bytes_empty_refuted : lex (spell_bytes 2 []) = Err E_Unterminated.
  Proof. vm_compute. reflexivity. Qed.
End Num.
