(* (d), second half: when a digits-like Number token is followed by a period.  Instance of
   Proofs.C13.LexMaxGen2: the ghost is the type of the previous token, which is what
   [can_float] is computed from. *)
From Coq Require Import NArith List Bool Lia.
From GV Require Import Base.Result Gen.TokenTypes Gen.Tokens Model.Lexer Spec.LexSpec
  Proofs.C13.LexBase Proofs.C13.LexInv Proofs.C13.LexRun Proofs.C13.LexOp Proofs.C13.LexMaxGen2
  Proofs.C13.LexMaximal Proofs.C13.LexMaxNum.
Import ListNotations.
Local Open Scope N_scope.

Section Period.
  Variables un ua : N -> bool.
  Notation start_token := (start_token un ua).
  Notation run_arm := (run_arm un ua).

  Definition TMp (g ty : option token_type) (txt rest : list N) : Prop :=
    ty = Some TT_Number -> ~ In 46 txt ->
    forall r, rest = 46 :: r -> (exists r', r = 46 :: r') \/ blocks_float g = true.

  Definition Invp (g : option token_type) (l : lexer) : Prop :=
    (cur_ty l = Some TT_Number -> st l = SNumber \/ st l = SFloat) /\
    (st l = SNumber \/ st l = SNoToken -> can_float l = negb (blocks_float g)) /\
    (st l = SFloat -> In 46 (cur l)).

  Lemma Invp_ext : forall g l l', cur l = cur l' -> cur_ty l = cur_ty l' -> st l = st l' ->
    can_float l = can_float l' -> Invp g l -> Invp g l'.
  Proof. intros g l l' E1 E2 E3 E4. unfold Invp. rewrite E1, E2, E3, E4. auto. Qed.

  Lemma Invp_idle : forall g l, cur l = [] -> cur_ty l = None -> st l = SNoToken ->
    can_float l = negb (blocks_float g) -> Invp g l.
  Proof.
    intros g l E1 E2 E3 E4. unfold Invp. rewrite E1, E2, E3.
    split; [|split]; intros H; try discriminate H; auto.
  Qed.

  Ltac split_all := repeat match goal with |- _ /\ _ => split end.

  Lemma Invp_start : forall g l c, can_float l = negb (blocks_float g) ->
    result (start_token l c) = None -> Invp g (start_token l c).
  Proof.
    intros g l c Hcf. unfold Lexer.start_token.
    destruct (current_operator _) eqn:Eop.
    - intros _. cbn in Eop. unfold Invp. cbn.
      split_all; intros H; try discriminate H; try (destruct H; discriminate). exfalso. subst o.
      eapply op_not_nonop; [exact Eop | auto with nonop].
    - repeat break_if; cbn; intros Hr; try discriminate; unfold Invp; cbn;
        split_all; intros H; try discriminate H; try (destruct H; discriminate); auto.
  Qed.

  Ltac ty_contra :=
    exfalso;
    repeat match goal with
           | H : cur_ty ?l = Some ?T -> _ , Hty : cur_ty ?l = Some ?T |- _ => specialize (H Hty)
           end; intuition congruence.

  Ltac tm_open :=
    unfold TMp; intros Hty; try discriminate Hty; try (solve [ty_contra]);
    try (intros _ ? Hq; discriminate Hq).

  Ltac arm_true :=
    split; [intros Hsct; first [ cbn in Hsct; congruence | split; [intros Hc0 r|] ]
           | intros Hscf r; try (cbn in Hscf; congruence)];
    tm_open.

  Ltac arm_false :=
    intros Hr1; split;
    [ intros _; unfold Invp; cbn; split_all; intros Hh; try discriminate Hh; try (destruct Hh; discriminate);
      auto; try (solve [ty_contra])
    | intros t Ht; try discriminate Ht ].

  Notation arm_max := (arm_max Invp TMp).

  Ltac other_state arm :=
    intros g l c [[Hnt Htk Hsc _ _] _] (Hnumty & Hcf & Hflt) Hres Hst;
    unfold Lexer.run_arm; rewrite Hst; unfold arm;
    repeat break_if; unfold LexMaxGen2.arm_max; cbn;
    try arm_true; try arm_false.

  Lemma arm_Operator_maxp : forall g l c, WF l -> Invp g l -> result l = None -> st l = SOperator -> arm_max g l c (run_arm l c).
  Proof.
    intros g l c [[Hnt Htk Hsc _ _] _] (Hnumty & Hcf & Hflt) Hres Hst.
    unfold Lexer.run_arm. rewrite Hst. unfold arm_operator.
    destruct (current_operator (cur (push l c))) eqn:Eop; [|repeat break_if]; unfold LexMaxGen2.arm_max; cbn.
    all: try arm_true. all: try arm_false.
    all: try (exfalso; subst o; eapply op_not_nonop; [exact Eop | auto with nonop]; fail).
    cbn [cur push set_cur] in Heqb0.
    apply andb_true_iff in Heqb0 as [Heqb0 _]. apply andb_true_iff in Heqb0 as [Heqb0 _].
    apply andb_true_iff in Heqb0 as [Hsw _].
    apply starts_with_true in Hsw as [r0 Hr0]. rewrite Hr0. left. reflexivity.
  Qed.

  Lemma arm_Number_maxp : forall g l c, WF l -> Invp g l -> result l = None -> st l = SNumber -> arm_max g l c (run_arm l c).
  Proof.
    other_state arm_number.
    - apply andb_true_iff in Heqb0 as [Hc _]. apply N.eqb_eq in Hc. subst c.
      apply in_or_app. right. left. reflexivity.
    - intros _ r0 Hq. inversion Hq; subst. right.
      change ch_period with 46 in Heqb0. rewrite N.eqb_refl in Heqb0. cbn in Heqb0.
      rewrite (Hcf (or_introl Hst)) in Heqb0. apply negb_false_iff in Heqb0. exact Heqb0.
  Qed.

  Lemma arm_Float_maxp : forall g l c, WF l -> Invp g l -> result l = None -> st l = SFloat -> arm_max g l c (run_arm l c).
  Proof.
    intros g l c [[Hnt Htk Hsc _ _] _] (Hnumty & Hcf & Hflt) Hres Hst.
    unfold Lexer.run_arm. rewrite Hst. unfold arm_float.
    destruct (is_number_char un ua c) eqn:Hnc.
    - unfold LexMaxGen2.arm_max; cbn. arm_false. apply in_or_app. left. auto.
    - destruct ((c =? ch_period) && ends_with ch_period (cur l)) eqn:Esplit.
      + apply andb_true_iff in Esplit as [Hc Hend]. apply N.eqb_eq in Hc. subst c.
        destruct (text_col (set_start_row l (text_row l)) =? 0); [exact I|].
        change ch_period with 46 in *.
        change (push (set_start_col (start_token (set_start_row l (text_row l)) 46)
                        (text_col (set_start_row l (text_row l)) - 1)) 46) with (float_split_state un ua l).
        rewrite float_split_state_eq. cbn [cur]. rewrite current_operator_range.
        unfold LexMaxGen2.arm_max. intros _. split; [intros Hq; discriminate Hq|].
        intros t Ht. inversion Ht; subst. cbn. split.
        * unfold Invp; cbn; split_all; intros Hh; try discriminate Hh; destruct Hh; discriminate.
        * intros r _ _ r0 Hq. inversion Hq; subst. left. eexists; reflexivity.
      + unfold LexMaxGen2.arm_max; cbn. arm_true.
        * intros Hno. exfalso. apply Hno. auto.
  Qed.

  Lemma arm_Identifier_maxp : forall g l c, WF l -> Invp g l -> result l = None -> st l = SIdentifier -> arm_max g l c (run_arm l c).
  Proof. other_state arm_identifier. Qed.
  Lemma arm_Spaces_maxp : forall g l c, WF l -> Invp g l -> result l = None -> st l = SSpaces -> arm_max g l c (run_arm l c).
  Proof. other_state arm_spaces. Qed.
  Lemma arm_Subexpression_maxp : forall g l c, WF l -> Invp g l -> result l = None -> st l = SSubexpression -> arm_max g l c (run_arm l c).
  Proof. other_state arm_subexpression. Qed.
  Lemma arm_Annotation_maxp : forall g l c, WF l -> Invp g l -> result l = None -> st l = SAnnotation -> arm_max g l c (run_arm l c).
  Proof. other_state arm_annotation. Qed.
  Lemma arm_LineAnnotation_maxp : forall g l c, WF l -> Invp g l -> result l = None -> st l = SLineAnnotation -> arm_max g l c (run_arm l c).
  Proof. other_state arm_line_annotation. Qed.
  Lemma arm_CharList_maxp : forall g l c, WF l -> Invp g l -> result l = None -> st l = SCharList -> arm_max g l c (run_arm l c).
  Proof. other_state arm_list. Qed.
  Lemma arm_ByteList_maxp : forall g l c, WF l -> Invp g l -> result l = None -> st l = SByteList -> arm_max g l c (run_arm l c).
  Proof. other_state arm_list. Qed.
  Lemma arm_StartCharList_maxp : forall g l c, WF l -> Invp g l -> result l = None -> st l = SStartCharList -> arm_max g l c (run_arm l c).
  Proof. other_state arm_start_list. Qed.
  Lemma arm_StartByteList_maxp : forall g l c, WF l -> Invp g l -> result l = None -> st l = SStartByteList -> arm_max g l c (run_arm l c).
  Proof. other_state arm_start_list. Qed.

  Lemma Invp_arm : forall g l c, WF l -> Invp g l -> result l = None -> arm_max g l c (run_arm l c).
  Proof.
    intros g l c Hwf Hinv Hres. destruct (st l) eqn:Hst.
    - unfold Lexer.run_arm. rewrite Hst. unfold LexMaxGen2.arm_max. intros Hr.
      split; [|intros t Ht; discriminate Ht]. intros _.
      apply Invp_start; [|exact Hr]. destruct Hinv as (_ & Hcf & _). apply Hcf. right. exact Hst.
    - apply arm_Operator_maxp; auto.
    - apply arm_Spaces_maxp; auto.
    - apply arm_Subexpression_maxp; auto.
    - apply arm_Number_maxp; auto.
    - apply arm_Float_maxp; auto.
    - apply arm_Identifier_maxp; auto.
    - apply arm_Annotation_maxp; auto.
    - apply arm_LineAnnotation_maxp; auto.
    - apply arm_CharList_maxp; auto.
    - apply arm_StartCharList_maxp; auto.
    - apply arm_ByteList_maxp; auto.
    - apply arm_StartByteList_maxp; auto.
  Qed.

  Theorem lex_tokens_TMp : forall s ts,
    lex un ua s = Ok ts ->
    forall pre t post, ts = pre ++ t :: post ->
      TMp (last_ty None pre) (Some (tok_type t)) (tok_text t) (texts post).
  Proof. exact (lex_tokens_max un ua Invp TMp Invp_ext Invp_idle Invp_start Invp_arm). Qed.
End Period.

(* If a Number token without a period is followed by a period in the input, then either a
   second period follows (the range operator), or the token before it is one after which a
   period cannot start a fraction: Value, CharList, ByteList, Identifier, Period or Number
   ([blocks_float]; e.g. the access chain `x.5.5`).  In every other situation the lexer
   takes the period into the Number token. *)
Theorem lex_number_period_rule : forall un ua s ts,
  lex un ua s = Ok ts ->
  forall pre t post, ts = pre ++ t :: post -> tok_type t = TT_Number -> ~ In 46 (tok_text t) ->
  forall r, concat (map tok_text post) = 46 :: r ->
    (exists r', r = 46 :: r') \/
    (exists pre' p, pre = pre' ++ [p] /\ blocks_float (Some (tok_type p)) = true).
Proof.
  intros un ua s ts H pre t post E Hty Hno r Hr.
  destruct (lex_tokens_TMp un ua s ts H pre t post E (f_equal Some Hty) Hno r Hr) as [Hl|Hb]; [left; exact Hl|].
  right. destruct (last_ty None pre) as [ty|] eqn:El; [|discriminate Hb].
  destruct (last_ty_some pre None ty El) as [[_ Hq]|(pre' & p & Hp & Hpt)]; [discriminate Hq|].
  exists pre', p. split; [exact Hp|]. rewrite Hpt. exact Hb.
Qed.
