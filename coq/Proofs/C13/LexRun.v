(* From one step to the whole run: internal_next and lex.  Results:
   lex_lossless, lex_no_empty_token, lex_no_panic, lex_terminates. *)
From Coq Require Import NArith List Bool Lia.
From GV Require Import Base.Result Gen.TokenTypes Gen.Tokens Model.Lexer Spec.LexSpec
  Proofs.C13.LexBase Proofs.C13.LexInv.
Import ListNotations.
Local Open Scope N_scope.

Lemma utf8_len_pos : forall c, 0 < utf8_len c.
Proof. intros c. unfold utf8_len. repeat break_if; lia. Qed.

Lemma byte_len_zero : forall s, (0 <? byte_len s) = false -> s = [].
Proof.
  intros [|c s] H; [reflexivity|]. cbn [byte_len] in H. apply N.ltb_ge in H.
  pose proof (utf8_len_pos c). lia.
Qed.

Lemma texts_app : forall a b, texts (a ++ b) = texts a ++ texts b.
Proof. intros. unfold texts. rewrite map_app, concat_app. reflexivity. Qed.

Lemma texts_single : forall t, texts [t] = tok_text t.
Proof. intros. unfold texts. cbn. apply app_nil_r. Qed.

Section Run.
  Variables uni_numeric uni_alnum : N -> bool.
  Notation process_char := (process_char uni_numeric uni_alnum).
  Notation internal_next_loop := (internal_next_loop uni_numeric uni_alnum).
  Notation internal_next := (internal_next uni_numeric uni_alnum).
  Notation lex_loop := (lex_loop uni_numeric uni_alnum).
  Notation lex_run := (lex_run uni_numeric uni_alnum).
  Notation lex := (lex uni_numeric uni_alnum).
  Notation start_token := (start_token uni_numeric uni_alnum).

  Lemma WF_set_at_end : forall l b, WF l -> WF (set_at_end l b).
  Proof. intros l b [[H1 H2 H3 H4 H5] H6]. split; [constructor|]; cbn; assumption. Qed.

  (* what one call of internal_next (one `next()`) does *)
  Definition next_ok (l : lexer) (s : list N) (l' : lexer) (s' : list N) (ot : option token) : Prop :=
    (length s' <= length s)%nat /\
    (result l' = None ->
     match ot with
     | Some t =>
       tok_text t <> [] /\ tok_text t ++ cur l' ++ s' = cur l ++ s /\ WF l' /\
       ((at_end l' = false /\ (length s' < length s)%nat) \/
        (at_end l' = true /\ s' = [] /\ st l' = SNoToken /\ cur l' = []))
     | None => cur l ++ s = []
     end).

  Lemma internal_next_loop_spec : forall s l, WF l -> result l = None -> at_end l = false ->
    exists l' s' ot, internal_next_loop l s = Ok (l', s', ot) /\ next_ok l s l' s' ot.
  Proof.
    induction s as [|c rest IH]; intros l Hwf Hres Hae.
    - (* input exhausted: the flush *)
      cbn [internal_next_loop].
      assert (Hwf0 : WF (set_at_end l true)) by (apply WF_set_at_end; exact Hwf).
      destruct (process_char_flush uni_numeric uni_alnum (set_at_end l true) Hwf0 Hres eq_refl)
        as (l1 & ot & Hpc & Hae1 & Hspec).
      change ch_nul with 0. rewrite Hpc. destruct ot as [t|].
      + eexists _, _, _. split; [reflexivity|]. split; [cbn; lia|]. intros Hr.
        destruct (Hspec Hr) as (Ht & Hne & Hc & Hs & Hwf1). cbn [cur set_at_end] in Ht.
        split; [rewrite Ht; exact Hne|]. rewrite Hc, Ht, !app_nil_r.
        split; [reflexivity|]. split; [exact Hwf1|]. right. auto.
      + eexists _, _, _. split; [reflexivity|]. split; [cbn; lia|].
        destruct (0 <? byte_len (cur l1)) eqn:Hb; cbn [andb].
        * destruct (result l1) eqn:Hr1; cbn [is_err negb]; [rewrite Hr1; discriminate|].
          cbn [result set_result]. discriminate.
        * intros Hr. apply byte_len_zero in Hb. destruct (Hspec Hr Hb) as (Hc & _).
          cbn [cur set_at_end] in Hc. rewrite Hc. reflexivity.
    - cbn [internal_next_loop].
      assert (Hs : ~ sentinel l c) by (intros [_ H]; congruence).
      destruct (process_char_real uni_numeric uni_alnum l c Hwf Hres Hs) as (l1 & ot & Hpc & Hae1 & Hspec).
      rewrite Hpc. destruct ot as [t|].
      + eexists _, _, _. split; [reflexivity|]. split; [cbn; lia|]. intros Hr.
        destruct (Hspec Hr) as (Hwf1 & Hcat & Hne).
        split; [apply Hne; reflexivity|]. cbn [otext] in Hcat.
        split; [rewrite app_assoc, <- Hcat, <- app_assoc; reflexivity|].
        split; [exact Hwf1|]. left. split; [congruence | cbn; lia].
      + destruct (result l1) eqn:Hr1; cbn [is_err].
        * eexists _, _, _. split; [reflexivity|]. split; [cbn; lia|]. rewrite Hr1. discriminate.
        * destruct (Hspec eq_refl) as (Hwf1 & Hcat & _). cbn [otext app] in Hcat.
          destruct (IH l1 Hwf1 Hr1 (eq_trans Hae1 Hae)) as (l2 & s2 & ot2 & Hrun & Hlen & Hok).
          eexists _, _, _. split; [exact Hrun|]. split; [cbn; lia|]. intros Hr. specialize (Hok Hr).
          destruct ot2 as [t|].
          -- destruct Hok as (A & B & C & D). split; [exact A|].
             split; [rewrite B, <- Hcat, <- app_assoc; reflexivity|]. split; [exact C|].
             destruct D as [[D1 D2]|D]; [left; split; [exact D1 | cbn; lia] | right; exact D].
          -- rewrite <- Hcat, <- app_assoc in Hok. exact Hok.
  Qed.

  (* after the flush has emitted the last token, one more next() returns None *)
  Lemma lex_loop_after_flush : forall f l acc, WF l -> result l = None -> at_end l = true ->
    st l = SNoToken -> lex_loop (S f) l [] acc = LOk acc.
  Proof.
    intros f l acc Hwf Hres Hae Hst. cbn [lex_loop]. unfold internal_next. rewrite Hres. cbn [is_err].
    cbn [internal_next_loop].
    assert (Hpc : process_char (set_at_end l true) ch_nul =
                  Ok (advance (start_token (set_at_end l true) 0) 0, None)).
    { unfold process_char, run_arm. cbn [st set_at_end]. rewrite Hst. reflexivity. }
    rewrite Hpc.
    destruct (start_token_sentinel uni_numeric uni_alnum (set_at_end l true) eq_refl) as (E1 & E2 & E3).
    destruct (advance_frame (start_token (set_at_end l true) 0) 0) as (Ec & _ & Er & _).
    rewrite Ec, E1. cbn [byte_len N.ltb N.compare andb]. rewrite Er, E3. cbn [result set_at_end].
    rewrite Hres. reflexivity.
  Qed.

  Definition outcome_ok (acc : list token) (rest : list N) (o : lex_outcome) : Prop :=
    match o with
    | LOk ts => texts ts = texts acc ++ rest /\
                (Forall (fun t => tok_text t <> []) acc -> Forall (fun t => tok_text t <> []) ts)
    | LErr _ => True
    | LPanic _ => False
    | LOutOfFuel => False
    end.

  Lemma lex_loop_spec : forall fuel s l acc, WF l -> result l = None -> at_end l = false ->
    (length s + 2 <= fuel)%nat ->
    outcome_ok acc (cur l ++ s) (lex_loop fuel l s acc).
  Proof.
    induction fuel as [|f IH]; intros s l acc Hwf Hres Hae Hfuel; [lia|].
    cbn [lex_loop]. unfold internal_next. rewrite Hres. cbn [is_err].
    destruct (internal_next_loop_spec s l Hwf Hres Hae) as (l1 & s1 & ot & Hrun & Hlen & Hok).
    rewrite Hrun. destruct ot as [t|].
    - destruct (result l1) eqn:Hr1; [exact I|]. destruct (Hok eq_refl) as (Hne & Hcat & Hwf1 & Hcase).
      destruct Hcase as [[Hae1 Hlt]|(Hae1 & Hs1 & Hst1 & Hc1)].
      + assert (Hf : (length s1 + 2 <= f)%nat) by lia.
        pose proof (IH s1 l1 (acc ++ [t]) Hwf1 Hr1 Hae1 Hf) as H.
        destruct (lex_loop f l1 s1 (acc ++ [t])); cbn [outcome_ok] in *; auto.
        destruct H as [H1 H2]. split.
        * rewrite H1, texts_app, texts_single, <- app_assoc, Hcat. reflexivity.
        * intros Hacc. apply H2. apply Forall_app. split; [exact Hacc|]. constructor; [exact Hne | constructor].
      + subst s1. destruct f as [|f']; [lia|].
        rewrite (lex_loop_after_flush f' l1 (acc ++ [t]) Hwf1 Hr1 Hae1 Hst1). cbn [outcome_ok].
        rewrite Hc1, !app_nil_r in Hcat. split.
        * rewrite texts_app, texts_single, Hcat. reflexivity.
        * intros Hacc. apply Forall_app. split; [exact Hacc|]. constructor; [exact Hne | constructor].
    - destruct (result l1) eqn:Hr1; [exact I|]. specialize (Hok eq_refl). cbn [outcome_ok].
      rewrite Hok, app_nil_r. split; auto.
  Qed.

  Lemma lex_run_spec : forall s, outcome_ok [] s (lex_run s).
  Proof.
    intros s. unfold lex_run, lex_fuel.
    apply (lex_loop_spec (S (S (S (length s)))) s init_lexer [] WF_init eq_refl eq_refl). lia.
  Qed.

  (* ------------------------------------------------------------- the theorems *)
  Theorem lex_lossless : forall s ts, lex s = Ok ts -> lossless s ts.
  Proof.
    intros s ts H. unfold lex in H. pose proof (lex_run_spec s) as Hs.
    destruct (lex_run s); try discriminate. inversion H; subst. exact (proj1 Hs).
  Qed.

  Theorem lex_no_empty_token : forall s ts, lex s = Ok ts -> no_empty_token ts.
  Proof.
    intros s ts H. unfold lex in H. pose proof (lex_run_spec s) as Hs.
    destruct (lex_run s); try discriminate. inversion H; subst. apply (proj2 Hs). constructor.
  Qed.

  Theorem lex_no_panic : forall s, no_panic (lex s).
  Proof.
    intros s. unfold lex. pose proof (lex_run_spec s) as Hs.
    destruct (lex_run s); cbn in *; auto.
  Qed.

  Theorem lex_terminates : forall s, terminates (lex s).
  Proof.
    intros s. unfold lex. pose proof (lex_run_spec s) as Hs.
    destruct (lex_run s); cbn in *; auto.
  Qed.
End Run.
