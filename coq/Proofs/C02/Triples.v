(* (b) every expression with at most three operators (binary incl. conditional and
   apply forms, prefix, suffix, comma, implicit space list) around atomic operands,
   without and with whitespace around binary operators: parse returns the tree the
   pinned table dictates.  The bound (3 operators) is the property's own quantifier. *)
From Coq Require Import List Arith Bool NArith Lia.
From GV Require Import Base.Result Gen.TokenTypes Gen.Defs Model.Parser Spec.RefTable Spec.Pratt
  Proofs.C03.Bounded.
Import ListNotations.

Definition is_op (t : token_type) : bool :=
  match ref_kind t with KBinary | KPrefix | KSuffix => true | _ => false end.

(* operator alphabet: every operator token type, and whitespace standing for the implicit list *)
Definition op_alphabet : list token_type := filter is_op all_token_type ++ [TT_Whitespace].

(* the expression an operator sequence denotes: atoms are inserted where an
   operand is needed; [None] when a prefix operator would directly follow a value *)
Fixpoint render (ops : list token_type) (have : bool) (spaced : bool) : option (list token_type) :=
  match ops with
  | [] => Some (if have then [] else [TT_Number])
  | o :: r =>
    match ref_kind o with
    | KPrefix => if have then None else option_map (cons o) (render r false spaced)
    | KSuffix => option_map (fun l => (if have then [] else [TT_Number]) ++ o :: l) (render r true spaced)
    | KBinary =>
      option_map (fun l => (if have then [] else [TT_Number]) ++
                           (if spaced then [TT_Whitespace; o; TT_Whitespace] else [o]) ++ l) (render r false spaced)
    | KSpace =>  (* implicit list: whitespace between two values *)
      option_map (fun l => (if have then [] else [TT_Number]) ++ TT_Whitespace :: l) (render r false spaced)
    | _ => None
    end
  end.

Definition shape_ok (ops : list token_type) : bool :=
  match render ops false false, render ops false true with
  | Some tight, Some spaced =>
    (match pratt tight with Some _ => true | None => false end) &&   (* the reference accepts it *)
    c02_agree tight && c02_agree spaced
  | _, _ => true
  end.

Lemma shapes_ok_3 : forallb shape_ok (seqs_upto op_alphabet 3) = true.
Proof. vm_compute. reflexivity. Qed.

Theorem c02_pairs_triples (ops : list token_type) (tight spaced : list token_type) :
  length ops <= 3 -> (forall o, In o ops -> In o op_alphabet) ->
  render ops false false = Some tight -> render ops false true = Some spaced ->
  (exists t, pratt tight = Some t) /\ c02_agree tight = true /\ c02_agree spaced = true.
Proof.
  intros Hl Hin Ht Hs. pose proof shapes_ok_3 as F. rewrite forallb_forall in F.
  specialize (F ops (seqs_upto_complete op_alphabet 3 ops Hin Hl)).
  unfold shape_ok in F. rewrite Ht, Hs in F.
  apply andb_true_iff in F. destruct F as [F F3]. apply andb_true_iff in F. destruct F as [F1 F2].
  split; [|split; assumption].
  destruct (pratt tight) as [t|]; [exists t; reflexivity|discriminate].
Qed.

(* brackets override precedence and associativity: both groupings of every ordered
   pair of operators *)
Definition grouped_variants (o1 o2 : token_type) : list (list token_type) :=
  let a := TT_Number in let L := TT_StartGroup in let R := TT_EndGroup in
  if sep_tok o1 || sep_tok o2 then []   (* inside round brackets `;` is whitespace by design: not an operator there *)
  else
  match ref_kind o1, ref_kind o2 with
  | KBinary, KBinary => [[L; a; o1; a; R; o2; a]; [a; o1; L; a; o2; a; R]]
  | KPrefix, KBinary => [[o1; L; a; o2; a; R]; [L; o1; a; R; o2; a]]
  | KBinary, KSuffix => [[L; a; o1; a; R; o2]; [a; o1; L; a; o2; R]]
  | KPrefix, KSuffix => [[o1; L; a; o2; R]; [L; o1; a; R; o2]]
  | KBinary, KPrefix => [[a; o1; L; o2; a; R]]
  | KSuffix, KBinary => [[L; a; o1; R; o2; a]]
  | _, _ => []
  end.

Definition grouped_ok (o1 o2 : token_type) : bool :=
  forallb (fun toks => (match pratt toks with Some _ => true | None => false end) && c02_agree toks)
          (grouped_variants o1 o2).

Lemma grouped_ok_all :
  forallb (fun o1 => forallb (grouped_ok o1) all_token_type) all_token_type = true.
Proof. vm_compute. reflexivity. Qed.

Theorem c02_brackets_override (o1 o2 : token_type) (toks : list token_type) :
  In toks (grouped_variants o1 o2) -> (exists t, pratt toks = Some t) /\ c02_agree toks = true.
Proof.
  intros Hin. pose proof grouped_ok_all as F. rewrite forallb_forall in F.
  specialize (F o1 (all_token_type_complete o1)). rewrite forallb_forall in F.
  specialize (F o2 (all_token_type_complete o2)). unfold grouped_ok in F.
  rewrite forallb_forall in F. specialize (F toks Hin).
  apply andb_true_iff in F. destruct F as [F1 F2]. split; [|exact F2].
  destruct (pratt toks) as [t|]; [exists t; reflexivity|discriminate].
Qed.

(* how much the enumeration covers (non-vacuity) *)
Definition rendered_count : nat :=
  length (filter (fun ops => match render ops false false with Some _ => true | None => false end)
                 (seqs_upto op_alphabet 3)).
