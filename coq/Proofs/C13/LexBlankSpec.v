(* From the per-token blank-line fact (LexBlank.lex_blank_tokens) to the statements of
   Spec.LexSpec: blank_lines_separate and blank_line_separates. *)
From Coq Require Import NArith Arith List Bool Lia.
From GV Require Import Base.Result Gen.TokenTypes Gen.Tokens Model.Lexer Spec.LexSpec
  Proofs.C13.LexBase Proofs.C13.LexInv Proofs.C13.LexRun Proofs.C13.LexOp Proofs.C13.LexBlank.
Import ListNotations.
Local Open Scope N_scope.

Lemma hb_nth : forall w j, nth_error w j = Some 10 -> nth_error w (S j) = Some 10 -> has_blank w = true.
Proof.
  induction w as [|a w IH]; intros j H1 H2; [destruct j; discriminate|].
  destruct j as [|j].
  - cbn in H1. inversion H1; subst a. cbn in H2. destruct w as [|b w]; [discriminate|].
    cbn in H2. inversion H2; subst b. reflexivity.
  - cbn [nth_error] in H1, H2. cbn [has_blank]. rewrite (IH j H1 H2). apply orb_true_r.
Qed.

Lemma nth_error_first_of : forall (a b : list N) k v, (k <= length a)%nat ->
  nth_error (a ++ b) k = Some v -> nth_error (a ++ first_of b) k = Some v.
Proof.
  induction a as [|x a IH]; intros b k v Hk H.
  - cbn in Hk. assert (k = 0%nat) by lia. subst k. cbn [app] in *. destruct b; [discriminate|]. exact H.
  - destruct k as [|k]; [exact H|]. cbn [app nth_error] in *. apply IH; [cbn in Hk; lia | exact H].
Qed.

Lemma exempt_ty_cases : forall ty, exempt_ty ty = true -> separator_or_literal ty.
Proof.
  intros ty H. unfold separator_or_literal. destruct ty; vm_compute in H; try discriminate; auto.
Qed.

Section BlankSpec.
  Variables uni_numeric uni_alnum : N -> bool.

  Theorem lex_blank_lines_separate : forall s ts,
    lex uni_numeric uni_alnum s = Ok ts -> blank_lines_separate ts.
  Proof.
    intros s ts H i t [H1 H2] (pre & post & E & Hlo & Hhi).
    pose proof (lex_blank_tokens uni_numeric uni_alnum s ts H pre t post E) as Hb.
    destruct Hb as [He|Hb]; [apply exempt_ty_cases; exact He|]. exfalso.
    subst ts. rewrite texts_app in H1, H2.
    change (t :: post) with ([t] ++ post) in H1, H2. rewrite texts_app, texts_single in H1, H2.
    set (j := (i - length (texts pre))%nat).
    assert (Hi : i = (length (texts pre) + j)%nat) by (unfold j; lia).
    assert (HSi : S i = (length (texts pre) + S j)%nat) by lia.
    rewrite Hi in H1. rewrite HSi in H2.
    rewrite nth_error_app2 in H1 by lia. rewrite nth_error_app2 in H2 by lia.
    replace (length (texts pre) + j - length (texts pre))%nat with j in H1 by lia.
    replace (length (texts pre) + S j - length (texts pre))%nat with (S j) in H2 by lia.
    assert (Hj : (j < length (tok_text t))%nat) by (unfold j; lia).
    apply nth_error_first_of in H1; [|lia]. apply nth_error_first_of in H2; [|lia].
    rewrite (hb_nth _ j H1 H2) in Hb. discriminate.
  Qed.

  Theorem lex_blank_line_separates : forall x pad y ts,
    lex uni_numeric uni_alnum (x ++ pad ++ [10; 10] ++ y) = Ok ts -> blank_line_separates x pad y ts.
  Proof.
    intros x pad y ts H t Hat Hc Hb Hl.
    pose proof (lex_lossless uni_numeric uni_alnum _ _ H) as Hlos. unfold lossless in Hlos.
    assert (Hbl : blank_line_at (texts ts) (length x + length pad)).
    { rewrite Hlos. unfold blank_line_at. rewrite !app_assoc. rewrite <- app_length.
      rewrite <- !app_assoc. split.
      - rewrite app_assoc. rewrite nth_error_app2 by lia. replace (length (x ++ pad) - length (x ++ pad))%nat with 0%nat by lia. reflexivity.
      - rewrite app_assoc. rewrite nth_error_app2 by lia.
        replace (S (length (x ++ pad)) - length (x ++ pad))%nat with 1%nat by lia. reflexivity. }
    destruct (lex_blank_lines_separate _ _ H _ _ Hbl Hat) as [E|[E|[E|E]]]; congruence.
  Qed.
End BlankSpec.
