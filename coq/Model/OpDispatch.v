(* Type-level executable model of ONE step of each runtime operation
   (runtime/src/runtime/*.rs behind runtime/src/execute.rs).

   Input : the instruction, an abstract description of the operand(s) that
           were pushed in source order (left, then right), the host mode.
   Output: result class, the host `defer_op` calls in order (operation, the
           two types and which addresses were passed), how many registers the
           step pops and pushes, what is known about the value left on top,
           whether the step jumps.

   Which arm of which function is taken comes from the generated tables
   (Gen/Exec.v, Gen/Dispatch.v: [exec_op], [op_shape_of], [arm_of], the falsy
   sets, the and/or/xor/not/tis shapes).  A [BDefer] arm is interpreted
   generically from what the translator found in it.  The meaning of every
   other arm body ([BNamed n ..]) is written here by hand and is tied to the
   code by the correspondence run (harness/src/bin/defer.rs vs
   ocaml/dispatch_driver.ml over the whole matrix).  No proofs in this file. *)
From Coq Require Import NArith ZArith List Bool.
From GV Require Import Gen.Instr Gen.Exec Gen.Truth Gen.Dispatch.
Import ListNotations.

(* ---------------------------------------------------------------- inputs *)
Inductive host_mode : Type := HAbsent | HDecline | HAccept.

(* An operand as far as one step can see it: its type, and for the four types
   whose arms look one level inside, the type found there
   (Type: the type the value denotes; Slice: the sliced value; Partial: the
   receiver; Pair: the key).  [o_sub] is T_Invalid for every other type. *)
Record operand : Type := { o_ty : data_type; o_sub : data_type }.

Definition has_inner (t : data_type) : bool :=
  match t with T_Type | T_Slice | T_Partial | T_Pair => true | _ => false end.
Definition wf_operand (o : operand) : bool :=
  has_inner (o_ty o) || data_type_eqb (o_sub o) T_Invalid.
Definition plain (t : data_type) : operand := {| o_ty := t; o_sub := T_Invalid |}.

(* --------------------------------------------------------------- outputs *)
(* which address the host was handed *)
Inductive addr_tag : Type :=
| AtLeft | AtRight      (* the left / right operand of the source expression *)
| AtZero                (* Size::zero() (unary operations' right slot) *)
| AtUnit.               (* the unit value EmptyApply pushes for itself *)

Record call : Type := {
  c_op : instruction; c_lty : data_type; c_la : addr_tag; c_rty : data_type; c_ra : addr_tag }.

Inductive rclass : Type :=
| ROk
| RErrUnsupported       (* RuntimeError with code UnsupportedOpTypes reaches the caller *)
| RErrOther             (* any other RuntimeError *)
| ROkOrUnsupported      (* value dependent: Ok, or the unsupported-types error escapes *)
| RUntyped.             (* not an operation over operand types; not modelled here *)

(* what is known about the register left on top *)
Inductive top : Type :=
| TopNone                       (* nothing was pushed by the step itself *)
| TopUnit
| TopBool (b : bool)            (* exactly True / False *)
| TopIs (t : data_type)
| TopOneOf (l : list data_type) (* value dependent, within these types *)
| TopAny                        (* value dependent: an item of the operand *)
| TopHost.                      (* whatever the accepting host pushed *)

Record outcome : Type := {
  res : rclass;
  data_dep : bool;      (* Ok only if the data object's lookup / conversion succeeds
                           (C07/C15/C16 territory); everything else as stated *)
  calls : list call;
  pops : nat;           (* operand registers consumed (of those the case pushed) *)
  pushes : nat;         (* registers pushed by the runtime itself *)
  top_is : top;
  jumps : bool;
  frames : nat }.       (* frames entered (Apply of an expression / partial); SimpleGarnishData keeps
                           its frame markers in the register vector, so its depth shows them *)

Definition untyped : outcome :=
  {| res := RUntyped; data_dep := false; calls := []; pops := 0; pushes := 0; top_is := TopNone; jumps := false; frames := 0 |}.

Definition ok (dep : bool) (np : nat) (t : top) : outcome :=
  {| res := ROk; data_dep := dep; calls := []; pops := np; pushes := 1; top_is := t; jumps := false; frames := 0 |}.
Definition ok_jump (np : nat) : outcome :=
  {| res := ROk; data_dep := false; calls := []; pops := np; pushes := 0; top_is := TopNone; jumps := true; frames := 0 |}.
(* enter an expression: jump, push a frame and an input value *)
Definition ok_enter (np : nat) : outcome :=
  {| res := ROk; data_dep := false; calls := []; pops := np; pushes := 0; top_is := TopNone; jumps := true; frames := 1 |}.
Definition ok_stay (np : nat) : outcome :=
  {| res := ROk; data_dep := false; calls := []; pops := np; pushes := 0; top_is := TopNone; jumps := false; frames := 0 |}.
Definition failed (r : rclass) (np : nat) : outcome :=
  {| res := r; data_dep := false; calls := []; pops := np; pushes := 0; top_is := TopNone; jumps := false; frames := 0 |}.

(* ------------------------------------------------------ the operand stack *)
(* head = top of the register stack = first pop *)
Definition slot : Type := (operand * addr_tag)%type.
Definition unit_slot : slot := (plain T_Unit, AtUnit).

Definition stack_of (l : operand) (r : option operand) : list slot :=
  match r with
  | Some r => [(r, AtRight); (l, AtLeft)]
  | None => [(l, AtLeft)]
  end.

Definition slot_of (st : list slot) (s : src) : option slot :=
  match s with
  | SPop1 => nth_error st 0
  | SPop2 => nth_error st 1
  | SParam _ => None
  end.

(* the type a scrutinee component sees: the operand's type, or for a corrected
   component the type a Type value denotes *)
Definition seen_type (corrected : bool) (o : operand) : data_type :=
  if corrected && data_type_eqb (o_ty o) T_Type then o_sub o else o_ty o.

Fixpoint nat_in (n : nat) (l : list nat) : bool :=
  match l with [] => false | m :: r => Nat.eqb n m || nat_in n r end.

Fixpoint scrutinee_types (f : disp_fn) (st : list slot) (ss : list src) (k : nat) : option (list data_type) :=
  match ss with
  | [] => Some []
  | s :: rest =>
      match slot_of st s, scrutinee_types f st rest (S k) with
      | Some (o, _), Some ts => Some (seen_type (nat_in k (corrected_components f)) o :: ts)
      | _, _ => None
      end
  end.

(* --------------------------------------------------------- helper lookups *)
(* get_access_addr / access_with_integer / access_with_symbol return
   Result<Option<addr>>; this is what is known of it from types *)
Inductive lookup : Type :=
| LkMaybe (dep : bool)   (* Ok(Some _) or Ok(None), value dependent *)
| LkUnsupported          (* Err(RuntimeError::unsupported_types()) *)
| LkOther.               (* another error (state_error) *)

Definition in_types (t : data_type) (l : list data_type) : bool := existsb (data_type_eqb t) l.

Definition has_helper (h : helper) (l : list helper) : bool :=
  existsb (fun x => match h, x with
                    | H_get_access_addr, H_get_access_addr | H_access_with_integer, H_access_with_integer
                    | H_access_with_symbol, H_access_with_symbol | H_narrow_range, H_narrow_range => true
                    | _, _ => false end) l.

(* An arm of a helper.  Whether it produces the unsupported-types code is read from the
   FEATURE the translator found in the current body text ([raises]), not from its name; the
   names only refine what else is known (data dependence, slices of the wrong kind). *)

(* access_with_integer(this, index, value) on a value operand *)
Definition lookup_integer (v : operand) : lookup :=
  match arm_of F_access_with_integer [o_ty v] with
  | Some (_, a) =>
      match arm_body a with
      | BNamed n _ _ raises =>
          if raises then LkUnsupported else
          match n with
          | A_awi_pair | A_awi_range | A_awi_concatenation => LkMaybe false
          | A_awi_slice =>
              if in_types (o_sub v) [T_List; T_CharList; T_ByteList; T_Concatenation] then LkMaybe true else LkOther
          | _ => LkMaybe true
          end
      | BDefer _ _ _ _ _ => LkOther
      end
  | None => LkOther
  end.

(* access_with_symbol(this, sym, value) *)
Definition lookup_symbol (v : operand) : lookup :=
  match arm_of F_access_with_symbol [o_ty v] with
  | Some (_, a) =>
      match arm_body a with
      | BNamed n _ _ raises =>
          if raises then LkUnsupported else
          match n with
          | A_aws_pair | A_aws_concatenation => LkMaybe false
          | A_aws_slice => if in_types (o_sub v) [T_List; T_Concatenation] then LkMaybe true else LkOther
          | _ => LkMaybe true
          end
      | BDefer _ _ _ _ _ => LkOther
      end
  | None => LkOther
  end.

Definition worse (a b : lookup) : lookup :=
  match a, b with
  | LkUnsupported, _ | _, LkUnsupported => LkUnsupported
  | LkOther, _ | _, LkOther => LkOther
  | LkMaybe x, LkMaybe y => LkMaybe (x || y)
  end.

(* get_access_addr(this, right, left): which helper the arm for `right`'s type goes on to *)
Definition lookup_access (right left : operand) : lookup :=
  match arm_of F_get_access_addr [o_ty right] with
  | Some (_, a) =>
      match arm_body a with
      | BNamed _ hs _ raises =>
          if raises then LkUnsupported else
          match has_helper H_access_with_integer hs, has_helper H_access_with_symbol hs with
          | true, false => lookup_integer left
          | false, true => lookup_symbol left
          | true, true => worse (lookup_integer left) (lookup_symbol left)
          | false, false => LkMaybe true
          end
      | BDefer _ _ _ _ _ => LkOther
      end
  | None => LkOther
  end.

(* `match helper(..)? { None => push_unit, Some(i) => push_register(i) }` *)
Definition push_lookup (np : nat) (absorbs : bool) (k : lookup) : outcome :=
  match k with
  | LkMaybe dep => ok dep np TopAny
  | LkUnsupported => if absorbs then ok false np TopUnit else failed RErrUnsupported np
  | LkOther => failed RErrOther np
  end.

(* ------------------------------------------------------------- the arms *)
Definition defer_outcome (h : host_mode) (np : nat) (c : call) : outcome :=
  match h with
  | HAccept => {| res := ROk; data_dep := false; calls := [c]; pops := np; pushes := 0; top_is := TopHost; jumps := false; frames := 0 |}
  | _ => {| res := ROk; data_dep := false; calls := [c]; pops := np; pushes := 1; top_is := TopUnit; jumps := false; frames := 0 |}
  end.

Definition ty_of_src (f : disp_fn) (st : list slot) (ss : list src) (t : ty_src) : option data_type :=
  match t with
  | TyUnit => Some T_Unit
  | TyOf s =>
      (* the bound pattern variable holds what the scrutinee component held *)
      let fix find (ss : list src) (k : nat) : option data_type :=
        match ss with
        | [] => None
        | s' :: rest =>
            let same := match s, s' with
                        | SPop1, SPop1 | SPop2, SPop2 => true
                        | SParam a, SParam b => Nat.eqb a b
                        | _, _ => false end in
            if same then
              match slot_of st s with
              | Some (o, _) => Some (seen_type (nat_in k (corrected_components f)) o)
              | None => None
              end
            else find rest (S k)
        end in
      find ss 0
  end.

Definition addr_of_src (st : list slot) (a : addr_src) : option addr_tag :=
  match a with
  | AddrZero => Some AtZero
  | AddrOf s => match slot_of st s with Some (_, t) => Some t | None => None end
  end.

(* the operands the hand-written meanings talk about: left = second pop for a
   two-operand function, the only pop for a one-operand function *)
Definition left_of (st : list slot) : operand :=
  match st with
  | [_; (l, _)] => l
  | [(l, _)] => l
  | _ => plain T_Invalid
  end.
Definition right_of (st : list slot) : operand :=
  match st with
  | [(r, _); _] => r
  | _ => plain T_Unit
  end.

(* a listed arm nothing more is known about than its features: it pushes one value; the helpers
   it calls are followed on the operands the known call sites pass them *)
Definition generic_outcome (helpers : list helper) (absorbs : bool) (l r : operand) (np : nat) : outcome :=
  match has_helper H_get_access_addr helpers, has_helper H_access_with_integer helpers,
        has_helper H_access_with_symbol helpers with
  | false, false, false => ok true np TopAny
  | true, false, false => push_lookup np absorbs (lookup_access r l)
  | false, true, false => push_lookup np absorbs (lookup_integer l)
  | false, false, true => push_lookup np absorbs (lookup_symbol l)
  | _, _, _ =>
      if absorbs then ok true np TopAny
      else {| res := ROkOrUnsupported; data_dep := true; calls := []; pops := np; pushes := 1; top_is := TopAny; jumps := false; frames := 0 |}
  end.

Definition named_outcome (n : arm_name) (helpers : list helper) (absorbs : bool)
    (st : list slot) (np : nat) (seen : list data_type) : outcome :=
  let l := left_of st in
  let r := right_of st in
  match n with
  | A_other => generic_outcome helpers absorbs l r np
  | A_unsupported => failed RErrUnsupported np
  (* arithmetic / bitwise: Some(result) => number, None => unit *)
  | A_unary_number | A_binary_number => ok false np (TopOneOf [T_Number; T_Unit])
  (* access / apply: symbol merging is the data object's business *)
  | A_merge_symbols => ok true np (TopIs T_SymbolList)
  | A_access_container => push_lookup np absorbs (lookup_access r l)
  | A_apply_expression => ok_enter np
  | A_apply_external => ok false np TopUnit            (* the matrix hosts decline `apply` *)
  | A_apply_partial => if data_type_eqb (o_sub l) T_Expression then ok_enter np else ok false np TopUnit
  | A_apply_narrow_range => ok false np (TopIs T_Range)
  | A_apply_narrow_slice => ok false np (TopIs T_Slice)
  | A_apply_index => push_lookup np absorbs (lookup_integer l)
  | A_apply_symbol => push_lookup np absorbs (lookup_symbol l)
  | A_apply_symbol_chain =>
      (* walks the path; an intermediate value may be of any type, so the helpers'
         catch-all is reachable unless the call site tests for the error code *)
      if absorbs then ok true np TopAny
      else {| res := ROkOrUnsupported; data_dep := true; calls := []; pops := np; pushes := 1; top_is := TopAny; jumps := false; frames := 0 |}
  | A_apply_make_slice => ok false np (TopIs T_Slice)
  (* casts *)
  | A_cast_same => ok false np (TopIs (o_ty l))
  | A_cast_chars_to_number => ok true np (TopOneOf [T_Number; T_Unit])
  | A_cast_to_char_list => ok true np (TopIs T_CharList)
  (* BasicGarnishData::add_byte_list_from hands back a value of the source type for most
     types (seen in the matrix); what the conversion yields is the data object's business *)
  | A_cast_to_byte_list => ok true np TopAny
  | A_cast_to_symbol => ok true np (TopIs T_Symbol)
  | A_cast_primitive => ok false np (TopOneOf [nth 1 seen T_Invalid; T_Unit])
  | A_cast_chars_to_char => ok true np (TopOneOf [T_Char; T_Unit])
  | A_cast_symbols_to_list | A_cast_range_to_list | A_cast_chars_to_list | A_cast_bytes_to_list
  | A_cast_concat_to_list => ok true np (TopIs T_List)
  | A_cast_slice_to_list => ok true np (TopOneOf [T_List; T_Unit])
  | A_cast_push_false => ok false np (TopBool false)
  | A_cast_push_true => ok false np (TopBool true)
  | A_cast_unit => ok false np TopUnit
  (* internals *)
  | A_left_pair | A_right_pair | A_left_slice | A_right_slice | A_left_concatenation
  | A_right_concatenation => ok false np TopAny
  | A_left_range | A_right_range => ok false np (TopOneOf [T_Number; T_Unit])
  | A_len_pair | A_len_range => ok false np (TopOneOf [T_Number; T_Unit])
  | A_len_list | A_len_char_list | A_len_byte_list | A_len_concatenation | A_len_slice => ok true np (TopIs T_Number)
  (* ranges *)
  | A_make_range_numbers => ok false np (TopIs T_Range)
  (* comparison arms are interpreted by [compare_outcome]; equality arms by C11 *)
  | _ => failed RErrOther np
  end.

Definition run_dispatch (f : disp_fn) (ic : option instruction) (pre_unit : bool)
    (l : operand) (r : option operand) (h : host_mode) : outcome :=
  let st0 := stack_of l r in
  let st := if pre_unit then unit_slot :: st0 else st0 in
  (* registers of the case consumed: the function's pops minus the one it pushed itself *)
  let np := (pops_of f - (if pre_unit then 1 else 0))%nat in
  let ss := scrutinee_of f in
  match scrutinee_types f st ss 0 with
  | None => untyped
  | Some seen =>
      match arm_of f seen with
      | None => failed RErrOther np
      | Some (_, a) =>
          match arm_body a with
          | BDefer isrc lt la rt ra =>
              let i := match isrc with IConst i => Some i | IParam => ic end in
              match i, ty_of_src f st ss lt, addr_of_src st la, ty_of_src f st ss rt, addr_of_src st ra with
              | Some i, Some tl, Some al, Some tr, Some ar =>
                  defer_outcome h np {| c_op := i; c_lty := tl; c_la := al; c_rty := tr; c_ra := ar |}
              | _, _, _, _, _ => untyped
              end
          | BNamed n helpers absorbs raises =>
              let o := named_outcome n helpers absorbs st np seen in
              (* a body that produces the unsupported-types code itself may let it out *)
              if raises && negb absorbs then
                match res o with
                | ROk => {| res := ROkOrUnsupported; data_dep := data_dep o; calls := calls o; pops := pops o;
                            pushes := pushes o; top_is := top_is o; jumps := jumps o; frames := frames o |}
                | _ => o
                end
              else o
          end
      end
  end.

(* less_than & co: perform_comparison, then push_boolean / push_unit *)
Definition compare_outcome (l r : operand) : outcome :=
  match arm_of F_perform_comparison [o_ty l; o_ty r] with
  | Some (_, a) =>
      match arm_body a with
      | BNamed A_cmp_false _ _ _ => ok false 2 (TopBool false)
      | BNamed A_cmp_number _ _ _ => ok false 2 (TopOneOf [T_True; T_False; T_Unit])
      | BNamed _ _ _ _ => ok true 2 (TopOneOf [T_True; T_False; T_Unit])
      | BDefer _ _ _ _ _ => failed RErrOther 2
      end
  | None => failed RErrOther 2
  end.

(* ------------------------------------------------------------------ truth *)
Definition truthy (t : data_type) : bool := negb (in_types t is_true_value_falsy).

Definition branch_outcome (b : logic_branch) : outcome :=
  match b with
  | LJump => ok_jump 1
  | LPush v => ok false 1 (TopBool v)
  end.

Definition logic_outcome (o : logic_op) (l : operand) (r : option operand) : outcome :=
  match o, r with
  | L_and, None => branch_outcome (if truthy (o_ty l) then and_on_true else and_on_false)
  | L_or, None => branch_outcome (if truthy (o_ty l) then or_on_true else or_on_false)
  | L_not, None => ok false 1 (TopBool (xorb not_negates (truthy (o_ty l))))
  | L_tis, None => ok false 1 (TopBool (xorb tis_negates (truthy (o_ty l))))
  (* `let (left, right) = next_two_raw_ref(this)?`: the first pop is the source right operand *)
  | L_xor, Some r => ok false 2 (TopBool (xor_table (truthy (o_ty r)) (truthy (o_ty l))))
  | _, _ => untyped
  end.

Definition jump_outcome (on_true : bool) (l : operand) : outcome :=
  let j := if on_true then negb (in_types (o_ty l) jump_if_true_falsy)
           else in_types (o_ty l) jump_if_false_falsy in
  if j then ok_jump 1 else ok_stay 1.

(* -------------------------------------------------------- plain operations *)
Definition plain_outcome (p : plain_op) (l : operand) (r : option operand) : outcome :=
  match p, r with
  | P_type_of, None => ok false 1 (TopIs T_Type)
  | P_type_equal, Some _ => ok false 2 (TopOneOf [T_True; T_False])
  | P_equal, Some _ | P_not_equal, Some _ => ok true 2 (TopOneOf [T_True; T_False])
  | P_make_pair, Some _ => ok false 2 (TopIs T_Pair)
  | P_concat, Some _ => ok false 2 (TopIs T_Concatenation)
  | P_partial_apply, Some _ => ok false 2 (TopIs T_Partial)
  | _, _ => untyped
  end.

(* ---------------------------------------------------------------- a step *)
(* [l]: the left operand (the only operand of a one-operand operation);
   [r]: the right operand, None for one-operand operations. *)
Definition step (i : instruction) (l : operand) (r : option operand) (h : host_mode) : outcome :=
  match exec_op i with
  | None => untyped
  | Some (f, _) =>
      match op_shape_of f with
      | ShSelf d => run_dispatch d None false l r h
      | ShVia d ic pre _ => run_dispatch d ic pre l r h
      | ShCompare => match r with Some r => compare_outcome l r | None => untyped end
      | ShLogic o => logic_outcome o l r
      | ShJumpIf t => match r with None => jump_outcome t l | Some _ => untyped end
      | ShPlain p => plain_outcome p l r
      | ShUnknown => untyped
      end
  end.

(* how many operands the matrix gives an instruction; None: not an operation
   over operand types (Put, JumpTo, EndExpression, MakeList ...) *)
Definition plain_arity (p : plain_op) : option nat :=
  match p with
  | P_type_of => Some 1%nat
  | P_type_equal | P_equal | P_not_equal | P_make_pair | P_concat | P_partial_apply => Some 2%nat
  | _ => None
  end.

Definition arity (i : instruction) : option nat :=
  match exec_op i with
  | None => None
  | Some (f, _) =>
      match op_shape_of f with
      | ShSelf d => Some (pops_of d)
      | ShVia d _ pre _ => Some (pops_of d - (if pre then 1 else 0))%nat
      | ShCompare => Some 2%nat
      | ShLogic L_xor => Some 2%nat
      | ShLogic _ => Some 1%nat
      | ShJumpIf _ => Some 1%nat
      | ShPlain p => plain_arity p
      | ShUnknown => None
      end
  end.

(* net change of the register depth the harness observes *)
Definition depth_delta (o : outcome) (h_pushed : bool) : Z :=
  (Z.of_nat (pushes o) + (if h_pushed then 1 else 0) - Z.of_nat (pops o))%Z.
