(* The builder model on the parsed printed tokens IS the AST compiler, on the
   operator fragment -- assembled from
     (a) the printer / reference-parser round trip (PrintClimb.v),
     (b) C02 (parse returns the reference tree) and the Property invariant (PrintRep.v),
     (c) the builder model = the tree compiler (Proofs/Builder, [compile_agrees_full]),
     (d) the tree compiler on that tree = the AST compiler (CompileProg.v),
   given that the builder model succeeds on the parsed node array. *)
From Coq Require Import ZArith NArith List Bool Arith Lia.
From GV Require Import Base.Result Base.Host Gen.TokenTypes Gen.Defs Gen.Instr Model.Num Model.Value
  Model.Parser Model.BuilderWL Model.Machine Model.Compile Model.CompileExpr Model.CompileWL
  Spec.RefTable Spec.Pratt Spec.Chains Spec.Ast Spec.Printer Spec.Eval Spec.Fragment
  Proofs.C02.Denote Proofs.Builder.PrattBridge Proofs.Builder.Transport
  Proofs.C01.EndToEnd.PrintItems Proofs.C01.EndToEnd.PrintClimb Proofs.C01.EndToEnd.PrintRep
  Proofs.C01.EndToEnd.CompileBase Proofs.C01.EndToEnd.CompileProg.
Import ListNotations.

Lemma printable_parts e : printable e = true -> wf true e = true /\ paren_ok e = true.
Proof.
  intros H. unfold printable, wf_prog in H. apply andb_true_iff in H. destruct H as [H P].
  apply andb_true_iff in H. destruct H as [W _]. split; assumption.
Qed.

(* every link of the parsed node array stays inside it *)
Lemma node_links ns : forall t p, denotes ns p t -> forall j n, has_id t j -> nth_error ns j = Some n ->
  (forall k, n_left n = Some k -> k < length ns) /\ (forall k, n_right n = Some k -> k < length ns).
Proof.
  assert (root_lt : forall t p, denotes ns p t -> nid t < length ns).
  { intros t p D. destruct (denotes_root ns p t D) as (n & Hn & _). apply nth_error_Some. congruence. }
  induction t as [i d k|i d k a IH|i d k a IH|i d k l IHl r IHr|b i k a IH]; intros p D j n Hj Hn; cbn [denotes has_id] in *.
  - subst j. destruct D as (n0 & Hn0 & A). rewrite Hn0 in Hn. injection Hn as <-.
    destruct A as (_ & _ & _ & _ & Hl & Hr & _). rewrite Hl, Hr. split; intros k0 E; discriminate E.
  - destruct D as (n0 & Hn0 & _ & _ & _ & Hl & Hr & _ & Da). destruct Hj as [->|Hj]; [|eapply IH; eauto].
    rewrite Hn0 in Hn. injection Hn as <-. rewrite Hl, Hr. split; intros k0 E; [discriminate E|].
    injection E as <-. eapply root_lt; eauto.
  - destruct D as (n0 & Hn0 & _ & _ & _ & Hl & Hr & _ & Da). destruct Hj as [->|Hj]; [|eapply IH; eauto].
    rewrite Hn0 in Hn. injection Hn as <-. rewrite Hl, Hr. split; intros k0 E; [|discriminate E].
    injection E as <-. eapply root_lt; eauto.
  - destruct D as (n0 & Hn0 & _ & _ & Hl & Hr & Dl & Dr). destruct Hj as [->|[Hj|Hj]]; [|eapply IHl; eauto|eapply IHr; eauto].
    rewrite Hn0 in Hn. injection Hn as <-. rewrite Hl, Hr. split; intros k0 E; injection E as <-; eapply root_lt; eauto.
  - destruct D as (n0 & Hn0 & _ & _ & _ & Hl & Hr & _ & Da). destruct Hj as [->|Hj]; [|eapply IH; eauto].
    rewrite Hn0 in Hn. injection Hn as <-. rewrite Hl, Hr. split; intros k0 E; [discriminate E|].
    injection E as <-. eapply root_lt; eauto.
Qed.

Lemma links_in_range_denotes ns t : denotes ns None t -> (forall j, j < length ns -> has_id t j) ->
  links_in_range ns = true.
Proof.
  intros D Cov. unfold links_in_range. apply forallb_forall. intros n Hin.
  destruct (In_nth_error _ _ Hin) as [j Hj].
  assert (Hlt : j < length ns) by (apply nth_error_Some; congruence).
  destruct (node_links ns t None D j n (Cov j Hlt) Hj) as [Hl Hr].
  apply andb_true_iff. split.
  - destruct (n_left n) as [k|]; [|reflexivity]. apply Nat.ltb_lt. apply Hl. reflexivity.
  - destruct (n_right n) as [k|]; [|reflexivity]. apply Nat.ltb_lt. apply Hr. reflexivity.
Qed.

(* what is known about the parsed printed tokens, in one place *)
Theorem printed_pipeline sym_hash e : efrag LV e = true -> printable e = true ->
  exists Tn ns c0,
    parse (ttoks e) = Ok (nid Tn, ns) /\ ns <> [] /\
    Compile.tree_of ns (nid Tn) = Some (img Tn) /\ links_in_range ns = true /\
    Compile.compile empty_init lit_all (img Tn) = Ok (c0, 0) /\
    convert sym_hash (aprint e) ns (cci c0) = Ok (code (compile_prog sym_hash e)) /\
    ccj c0 = jt (compile_prog sym_hash e).
Proof.
  intros F Pr. destruct (printable_parts e Pr) as [Wf P].
  destruct (parse_printed LV e true F Wf P) as (Tn & ns & Hp & Ht & D & O & R & Cov).
  destruct (compile_printed sym_hash e Tn ns F P R D) as (c0 & Hc & Hcv & Hj).
  exists Tn, ns, c0. split; [exact Hp|]. split.
  { destruct (denotes_root ns None Tn D) as (n & Hn & _). intros ->. destruct (nid Tn); discriminate Hn. }
  split; [exact Ht|]. split; [eapply links_in_range_denotes; eauto|]. auto.
Qed.

(* ... so wherever the builder model succeeds on that node array, it produces the AST compiler's program *)
Theorem wl_agrees_if_build_ok sym_hash e : efrag LV e = true -> printable e = true ->
  (forall ns root t c0, parse (ttoks e) = Ok (root, ns) -> Compile.tree_of ns root = Some t ->
     links_in_range ns = true -> Compile.compile empty_init lit_all t = Ok c0 ->
     exists r, build ns empty_init lit_all (build_fuel ns) root = Ok r) ->
  wl_program sym_hash e = Ok (compile_prog sym_hash e, 0).
Proof.
  intros F Pr Hok. destruct (printed_pipeline sym_hash e F Pr) as (Tn & ns & c0 & Hp & Hne & Ht & Hl & Hc & Hcv & Hj).
  destruct (Hok ns (nid Tn) (img Tn) (c0, 0) Hp Ht Hl Hc) as [[bs entry] Hb].
  pose proof (compile_agrees_full_proof ns (nid Tn) (img Tn) empty_init lit_all (build_fuel ns) (bs, entry) Ht Hb) as Hag.
  cbn [fst snd] in Hag. rewrite Hc in Hag. injection Hag as E1 E2. subst entry.
  unfold wl_program. cbv zeta. fold (ttoks e). rewrite Hp. cbn [bind]. cbv beta iota.
  change (fun _ : nat => true) with lit_all. rewrite Hb. cbn [bind]. cbv beta iota.
  assert (Ei : instrs bs = cci c0) by (rewrite E1; reflexivity).
  assert (Ej : jumps bs = ccj c0) by (rewrite E1; reflexivity).
  rewrite Ei, Hcv, Ej, Hj. cbn [bind]. unfold compile_prog. reflexivity.
Qed.
