(* The outer loop of the worklist builder simulates the bodies of the tree
   compiler, and the theorem: for EVERY node array and root that form a proper
   tree (tree_of nodes root = Some t), every initial state of the data object,
   every literal oracle and every amount of fuel, if the worklist model of
   build() succeeds then the tree compiler succeeds with exactly the same
   instructions, metadata, jump table and entry. *)
From Coq Require Import List Arith Bool NArith Lia.
From GV Require Import Base.Result Gen.TokenTypes Gen.Defs Gen.Instr Model.Parser Model.BuilderWL Model.Compile
  Proofs.C05.InlBase Proofs.C05.Known Proofs.C05.Operands Proofs.C05.Jumps
  Proofs.Builder.BState Proofs.Builder.TreeAt Proofs.Builder.Owned Proofs.Builder.DrainSim.
Import ListNotations.

Lemma cnt_flat_rev : forall A (f : A -> list nat) (l : list A) x,
  cnt (flat_map f (rev l)) x = cnt (flat_map f l) x.
Proof.
  intros A f l x. induction l as [|a l IH]; [reflexivity|].
  cbn [rev flat_map]. rewrite flat_map_app, !cnt_app, IH. cbn [flat_map]. rewrite app_nil_r. lia.
Qed.

Lemma nodup_flat_in : forall A (f : A -> list nat) (l : list A) a,
  NoDup (flat_map f l) -> In a l -> NoDup (f a).
Proof.
  intros A f l a H Hin. induction l as [|y l IH]; [contradiction|].
  cbn [flat_map] in H. destruct (nodup_app_inv _ _ _ H) as [Hy [Hl _]].
  destruct Hin as [E|Hin]; [subst; exact Hy | apply IH; assumption].
Qed.

Section RS.
Variable nodes : list pnode.
Variable init : binit.
Variable lit_ok : nat -> bool.

(* a body waiting on root_stack: registered, and its tree is a proper tree of the array *)
Definition waiting (s : bstate) (f : nat) (q : pend) : Prop :=
  reg s q /\ tree_at nodes (p_tree q) /\ NoDup (indices (p_tree q)) /\ size (p_tree q) < f.

Definition body_goal (f : nat) (dfuel : nat) (s : bstate) (sf : bstate) (rest : list nat) (owned_ix : list nat)
           (r : res cst) : Prop :=
  exists c' fuel' s',
    r = Ok c' /\
    roots nodes init lit_ok dfuel fuel' s' = Ok sf /\
    cst_of s' = c' /\ root_stack s' = rest /\ blen s' = blen s /\
    (forall j, ~ In j owned_ix -> lk s' j = lk s j).

(* what the pends registered by a body's inline code are, for the outer loop *)
Lemma pends_waiting : forall t rj cx c0 c2 ps its s2 f,
  tree_at nodes t -> NoDup (indices t) -> size t <= f ->
  inl init lit_ok rj t cx c0 = Ok (c2, ps, its) -> its = [] ->
  Forall (fun p => reg s2 p /\ In (proot p) (tl (indices t))) ps ->
  Forall (waiting s2 f) ps /\ NoDup (flat_map (fun p => indices (p_tree p)) ps) /\
  (forall x, In x (flat_map (fun p => indices (p_tree p)) ps) -> In x (indices t)).
Proof.
  intros t rj cx c0 c2 ps its s2 f Hat Hnd Hsz Hinl Hits Hreg. subst its.
  destruct (inl_owned nodes init lit_ok t Hat Hnd _ _ _ _ _ _ Hinl) as [OA [OB [OC _]]].
  assert (Hnd' : NoDup (flat_map (fun p => indices (p_tree p)) ps)).
  { apply nodup_cnt. intros x. specialize (OA x). unfold owned in OA. cbn [flat_map] in OA. rewrite app_nil_r in OA. exact OA. }
  assert (Hin' : forall x, In x (flat_map (fun p => indices (p_tree p)) ps) -> In x (tl (indices t))).
  { intros x Hx. apply OB. unfold owned. cbn [flat_map]. rewrite app_nil_r. exact Hx. }
  split; [|split; [exact Hnd' | intros x Hx; apply In_tl, Hin', Hx]].
  rewrite Forall_forall in *. intros p Hp. destruct (Hreg p Hp) as [Hr _].
  assert (Hndp : NoDup (indices (p_tree p))) by (eapply (nodup_flat_in _ (fun p0 : pend => indices (p_tree p0))); eauto).
  split; [exact Hr|]. split; [apply OC; exact Hp|]. split; [exact Hndp|].
  assert (Hincl : incl (indices (p_tree p)) (tl (indices t))).
  { intros x Hx. apply Hin'. apply in_flat_map. exists p. auto. }
  pose proof (NoDup_incl_length Hndp Hincl) as Hlen.
  rewrite !size_indices. destruct (indices t) as [|i0 tl0] eqn:E; [destruct t; discriminate E|].
  cbn [tl length] in *. rewrite size_indices, E in Hsz. cbn [length] in Hsz. lia.
Qed.

Lemma reg_same : forall s s' q, lk s' (proot q) = lk s (proot q) -> reg s q -> reg s' q.
Proof. intros s s' q H [bp [Hb Hr]]. exists bp. split; [rewrite H; exact Hb | exact Hr]. Qed.

Lemma fold_sim : forall f dfuel,
  (forall p fuel s sf rest,
     roots nodes init lit_ok dfuel fuel s = Ok sf -> root_stack s = proot p :: rest -> waiting s f p ->
     body_goal f dfuel s sf rest (indices (p_tree p)) (run_body init lit_ok f p (cst_of s))) ->
  forall qs fuel s sf rest,
    roots nodes init lit_ok dfuel fuel s = Ok sf -> root_stack s = map proot qs ++ rest ->
    Forall (waiting s f) qs -> NoDup (flat_map (fun q => indices (p_tree q)) qs) ->
    body_goal f dfuel s sf rest (flat_map (fun q => indices (p_tree q)) qs)
              (fold_bodies init lit_ok f qs (Ok (cst_of s))).
Proof.
  intros f dfuel Hbody. induction qs as [|q qs IH]; intros fuel s sf rest Hr Hrs Hw Hnd.
  - exists (cst_of s), fuel, s. cbn in Hrs. repeat split; auto.
  - cbn [map app] in Hrs. inversion Hw as [|? ? Hq Hw']; subst.
    destruct (Hbody q fuel s sf (map proot qs ++ rest) Hr Hrs Hq) as [c1 [fuel1 [s1 [Hrun [Hr1 [Hc1 [Hrs1 [Hl1 Hf1]]]]]]]].
    cbn [flat_map] in Hnd. destruct (nodup_app_inv _ _ _ Hnd) as [Nq [Nqs Dq]].
    assert (Hw1 : Forall (waiting s1 f) qs).
    { rewrite Forall_forall in *. intros q' Hq'. destruct (Hw' q' Hq') as [Hreg Hrest]. split; [|exact Hrest].
      eapply reg_same; [|exact Hreg]. apply Hf1. intros Hc. apply (Dq _ Hc). apply in_flat_map. exists q'. split; [exact Hq' | apply ix_in]. }
    destruct (IH fuel1 s1 sf rest Hr1 Hrs1 Hw1 Nqs) as [c2 [fuel2 [s2 [Hrun2 [Hr2 [Hc2 [Hrs2 [Hl2 Hf2]]]]]]]].
    exists c2, fuel2, s2. split.
    { unfold fold_bodies in *. cbn [fold_left bind]. rewrite Hrun. rewrite <- Hc1. exact Hrun2. }
    split; [exact Hr2|]. split; [exact Hc2|]. split; [exact Hrs2|]. split; [congruence|].
    intros j Hj. cbn [flat_map] in Hj. rewrite in_app_iff in Hj. rewrite Hf2 by tauto. apply Hf1. tauto.
Qed.

(* one iteration of the outer loop, opened *)
Lemma roots_step : forall dfuel fuel s sf ri rest,
  roots nodes init lit_ok dfuel fuel s = Ok sf -> root_stack s = ri :: rest ->
  exists fuel' s1 crj s2 lf,
    fuel = S fuel' /\
    (match lk s ri with
     | Some (Some b) =>
       match b_jump_upd b with
       | Some index =>
         do s1' <- set_jump init (mkBS (bnodes s) (instrs s) (meta s) (jumps s) rest (steps s)) index
                     (instr_len init s); Ok (s1', index)
       | None => Ok (push_jump (mkBS (bnodes s) (instrs s) (meta s) (jumps s) rest (steps s)) (instr_len init s),
                     jump_len init s)
       end
     | _ => Ok (push_jump (mkBS (bnodes s) (instrs s) (meta s) (jumps s) rest (steps s)) (instr_len init s),
                jump_len init s)
     end) = Ok (s1, crj) /\
    drain nodes init lit_ok dfuel s1 crj [ri] = Ok (s2, lf) /\
    roots nodes init lit_ok dfuel fuel' (finish_root init s2 ri) = Ok sf.
Proof.
  intros dfuel fuel s sf ri rest H Hrs. destruct fuel as [|fuel']; [discriminate|].
  cbn [roots] in H. rewrite Hrs in H.
  apply bind_ok in H. destruct H as [[s1 crj] [H1 H]].
  apply bind_ok in H. destruct H as [[s2 lf] [H2 H]].
  exists fuel', s1, crj, s2, lf. split; [reflexivity|]. split; [exact H1|]. split; assumption.
Qed.

Lemma body_sim : forall f dfuel p fuel s sf rest,
  roots nodes init lit_ok dfuel fuel s = Ok sf -> root_stack s = proot p :: rest -> waiting s f p ->
  body_goal f dfuel s sf rest (indices (p_tree p)) (run_body init lit_ok f p (cst_of s)).
Proof.
  induction f as [|f IH]; intros dfuel p fuel s sf rest Hr Hrs [Hreg [Hat [Hnd Hsz]]]; [lia|].
  destruct (roots_step _ _ _ _ _ _ Hr Hrs) as [fuel' [s1 [crj [s2 [lf [Ef [H1 [Hdr Hr']]]]]]]].
  destruct Hreg as [bp [Hbp [Hrd [Hju Hends]]]].
  unfold proot in Hbp. fold (proot p) in Hbp. rewrite Hbp, Hju in H1.
  apply bind_ok in H1. destruct H1 as [s1' [Hset H1]]. injection H1 as ? ?; subst s1' crj.
  destruct (set_jump_ok init _ _ _ _ Hset) as [Hpatch [Hbn Hrs1]].
  set (s0 := mkBS (bnodes s) (instrs s) (meta s) (jumps s) rest (steps s)) in *.
  assert (Hlk1 : forall j, lk s1 j = lk s j) by (intros j; unfold lk; rewrite Hbn; reflexivity).
  assert (Hbp1 : lk s1 (t_ix (p_tree p)) = Some (Some bp)) by (rewrite Hlk1; exact Hbp).
  destruct (drain_sim nodes init lit_ok (p_tree p) MPlain (p_containing p) dfuel s1 (p_jump p) [] (s2, lf) bp
              Hat Hnd Hdr Hbp1 Hrd I (fun j E => ltac:(discriminate E)))
    as [c2 [ps [its [fuel2 [s2' [Hinl [Hdr' Hpost]]]]]]].
  pose proof (drain_nil _ _ _ _ _ _ _ Hdr') as Es2. cbn [fst] in Es2. subst s2'. cbn [cx_of] in Hinl.
  assert (Hits : its = []) by (apply (proj1 (inl_items init lit_ok _ _ _ _ _ _ _ Hinl)); reflexivity).
  destruct Hpost as [Pc [Pr [Pl [Pf [_ [[b' [Hb' Hre]] [Pp _]]]]]]].
  destruct (finish_root_spec init s2 (t_ix (p_tree p)) b' Hb') as [Fc [Fb Fr]].
  set (s3 := finish_root init s2 (t_ix (p_tree p))) in *.
  assert (He' : ends_of b' = p_end p) by (unfold ends_of in *; rewrite Hre; exact Hends).
  assert (Hlk3 : forall j, lk s3 j = lk s2 j) by (intros j; unfold lk; rewrite Fb; reflexivity).
  (* the bodies it registered, LIFO *)
  destruct (pends_waiting (p_tree p) _ _ _ _ ps its s3 f Hat Hnd ltac:(lia) Hinl Hits) as [Hw [Hndps Hinps]].
  { eapply Forall_impl; [|exact Pp]. cbv beta. intros q [Hq Hin]. split; [|exact Hin]. eapply reg_same; [apply Hlk3 | exact Hq]. }
  assert (Hrs3 : root_stack s3 = map proot (rev ps) ++ rest).
  { rewrite Fr, Pr, Hrs1. unfold s0. cbn [root_stack]. rewrite map_rev. reflexivity. }
  assert (Hndr : NoDup (flat_map (fun q => indices (p_tree q)) (rev ps))).
  { apply nodup_cnt. intros x. rewrite cnt_flat_rev. apply cnt_nodup. exact Hndps. }
  destruct (fold_sim f dfuel (IH dfuel) (rev ps) fuel' s3 sf rest Hr' Hrs3 (Forall_rev Hw) Hndr)
    as [c4 [fuel4 [s4 [Hrun4 [Hr4 [Hc4 [Hrs4 [Hl4 Hf4]]]]]]]].
  exists c4, fuel4, s4. split.
  { cbn [run_body]. change (cst_of s) with (cst_of s0).
    replace (il init (cst_of s0)) with (instr_len init s) by reflexivity.
    rewrite Hpatch. cbn [bind]. rewrite Hinl. cbn [bind].
    rewrite <- Pc, <- He', <- Fc. exact Hrun4. }
  split; [exact Hr4|]. split; [exact Hc4|]. split; [exact Hrs4|]. split.
  { rewrite Hl4. unfold blen. rewrite Fb. fold (blen s2). rewrite Pl. unfold blen. rewrite Hbn. reflexivity. }
  intros j Hj. rewrite Hf4.
  - rewrite Hlk3, Pf, Hlk1; [reflexivity | exact Hj | discriminate].
  - intros Hc. apply Hj. apply Hinps. rewrite in_flat_map in *. destruct Hc as [q [Hq Hx]]. exists q. split; [apply in_rev; exact Hq | exact Hx].
Qed.

(* ---- the whole build ---- *)
Theorem build_compile : forall root t fuel sb e,
  tree_of nodes root = Some t ->
  build nodes init lit_ok fuel root = Ok (sb, e) ->
  compile init lit_ok t = Ok (cst_of sb, e).
Proof.
  intros root t fuel sb e Ht Hb.
  destruct (tree_of_at _ _ _ Ht) as [Hat [Hnd Hroot]].
  unfold build in Hb. destruct nodes as [|n0 nodes'] eqn:En.
  { unfold tree_of in Ht. cbn in Ht. discriminate Ht. }
  rewrite <- En in *.
  destruct (negb (root <? length nodes)); [discriminate|].
  destruct (negb (links_in_range nodes)); [discriminate|].
  apply bind_ok in Hb. destruct Hb as [s1 [Has Hb]].
  apply bind_ok in Hb. destruct Hb as [s2 [Hr Hb]]. injection Hb as ? ?; subst s2 e.
  apply assign_b_ok in Has. destruct Has as [A1 [A2 [A3 [A4 A5]]]].
  set (s0 := mkBS (map (fun _ : pnode => None) nodes) [] [] [] [root] 0) in *.
  assert (Hrs1 : root_stack s1 = root :: []) by (rewrite A4; reflexivity).
  destruct (roots_step _ _ _ _ _ _ Hr Hrs1) as [fuel' [s1' [crj [s2 [lf [Ef [H1 [Hdr Hr']]]]]]]].
  rewrite A1 in H1. cbn [b_jump_upd b_new] in H1. injection H1 as ? ?; subst s1' crj.
  set (sa := push_jump (mkBS (bnodes s1) (instrs s1) (meta s1) (jumps s1) [] (steps s1)) (instr_len init s1)) in *.
  assert (Hc1 : cst_of s1 = mkC [] [] []) by (rewrite A3; reflexivity).
  assert (Hjl : jump_len init s1 = i_jump_len init).
  { change (jump_len init s1) with (jl init (cst_of s1)). rewrite Hc1. unfold jl. cbn. lia. }
  assert (Hil : instr_len init s1 = il init (mkC [] [] [])).
  { change (instr_len init s1) with (il init (cst_of s1)). rewrite Hc1. reflexivity. }
  assert (Hca : cst_of sa = new_jump (mkC [] [] []) (il init (mkC [] [] []))).
  { unfold sa. change (cst_of (push_jump ?x ?y)) with (new_jump (cst_of x) y).
    change (cst_of (mkBS (bnodes s1) (instrs s1) (meta s1) (jumps s1) [] (steps s1))) with (cst_of s1).
    rewrite Hc1, Hil. reflexivity. }
  assert (Hba : lk sa (t_ix t) = Some (Some (b_new root (i_jump_len init)))) by (rewrite Hroot; exact A1).
  rewrite Hjl in Hdr. rewrite <- Hroot in Hdr.
  destruct (drain_sim nodes init lit_ok t MPlain (i_jump_len init) fuel sa (i_jump_len init) [] (s2, lf)
              (b_new root (i_jump_len init)) Hat Hnd Hdr Hba
              ltac:(unfold ready; cbn; rewrite Hroot; repeat split; reflexivity) I (fun j E => ltac:(discriminate E)))
    as [c2 [ps [its [fuel2 [s2' [Hinl [Hdr' Hpost]]]]]]].
  pose proof (drain_nil _ _ _ _ _ _ _ Hdr') as Es2. cbn [fst] in Es2. subst s2'. cbn [cx_of] in Hinl.
  assert (Hits : its = []) by (apply (proj1 (inl_items init lit_ok _ _ _ _ _ _ _ Hinl)); reflexivity).
  destruct Hpost as [Pc [Pr [Pl [Pf [_ [[b' [Hb' Hre]] [Pp _]]]]]]].
  rewrite <- Hroot in Hr'.
  destruct (finish_root_spec init s2 (t_ix t) b' Hb') as [Fc [Fb Fr]].
  set (s3 := finish_root init s2 (t_ix t)) in *.
  assert (He' : ends_of b' = default_end) by (unfold ends_of; rewrite Hre; reflexivity).
  assert (Hlk3 : forall j, lk s3 j = lk s2 j) by (intros j; unfold lk; rewrite Fb; reflexivity).
  destruct (pends_waiting t _ _ _ _ ps its s3 (size t) Hat Hnd (le_n _) Hinl Hits) as [Hw [Hndps Hinps]].
  { eapply Forall_impl; [|exact Pp]. cbv beta. intros q [Hq Hin]. split; [|exact Hin]. eapply reg_same; [apply Hlk3 | exact Hq]. }
  assert (Hrs3 : root_stack s3 = map proot (rev ps) ++ []).
  { rewrite Fr, Pr. unfold sa. cbn [root_stack push_jump]. rewrite map_rev. reflexivity. }
  assert (Hndr : NoDup (flat_map (fun q => indices (p_tree q)) (rev ps))).
  { apply nodup_cnt. intros x. rewrite cnt_flat_rev. apply cnt_nodup. exact Hndps. }
  destruct (fold_sim (size t) fuel (body_sim (size t) fuel) (rev ps) fuel' s3 sb [] Hr' Hrs3 (Forall_rev Hw) Hndr)
    as [c4 [fuel4 [s4 [Hrun4 [Hr4 [Hc4 [Hrs4 _]]]]]]].
  (* the outer loop stops on the empty root stack *)
  assert (Es4 : s4 = sb).
  { destruct fuel4 as [|f4]; [discriminate|]. cbn [roots] in Hr4. rewrite Hrs4 in Hr4. injection Hr4 as Hr4. exact Hr4. }
  subst s4.
  unfold compile. rewrite <- Hca. rewrite Hinl. cbn [bind].
  rewrite <- Pc, <- He', <- Fc. unfold fold_bodies in Hrun4. rewrite Hrun4. cbn [bind]. rewrite Hc4. reflexivity.
Qed.

End RS.
