"""C03 The compile pipeline is total: no input panics or hangs it."""
import collections, json, os, time
import vplib
from vplib import Verdict
from props import pipefmt, pipecheck, gen_programs

PID = "C03"
MANIFEST_ENTRY = {
 "level_claimed": {"category": "proof", "text": "Theorems in coq/Properties/C03.v about executable transliterations of parse() and build(): for EVERY input string lex never panics and always returns (C03_lex_total, from the lexer model of C13), for EVERY token list parse never panics and never exhausts its walk fuel (C03_parse_total, by induction with the count guards as measure); for every sequence of at most 3 tokens over all 73 token types, and every sequence of 4 over a 32-type representative alphabet, parse-then-build is Ok or Err, never Panic or out of fuel (vm_compute enumeration lifted by forallb_forall, bound in the theorem names). The models are tied to /repo on every run: the parser's tables (definitions, priorities, adjacency matrix) are regenerated from parser.rs into coq/Gen/Defs.v, and model and implementation are run on all 394,419 short token sequences, representative soups, generated programs, mutated programs and character soups and compared node-for-node and instruction-for-instruction; any PANIC / HANG / CRASH of the real lex/parse/build (run in a killable child with a deadline) is a violation. for EVERY node array, initial data object and literal outcome build is Ok or Err (C03_build_total: build.rs checks its links and caps its node loop; invariant proof over the two worklist loops), hence C03_full: the whole statement over the models, unbounded. Partial only in what a model cannot exhibit: wall-clock and native stack are measured (deadline per case, scaling runs in the thorough tier), not proved.", "design_ref": "DESIGN.md section 8 C03"},
 "level_note": "Trusted: Coq kernel (vm_compute), translator tools/sync/defs.py, extraction (ExtrOcamlBasic), the Rust harness with its supervising parent process, literal parsing as an oracle of the builder model. No axioms (Print Assumptions: closed).",
 "technique": "Coq proof (induction + vm_compute finite enumeration) over transliterated parser/builder models + differential correspondence"}

TRUSTED = vplib.BASE_TRUSTED + ["tools/sync/defs.py, tools/sync/tokentypes.py (parser tables regenerated from parser.rs / lexer.rs)",
                                "literal parsing (parse_add_*) is an oracle of the builder model",
                                "wall-clock limits: a case that does not answer within 3 s is HANG"]


def scaling_cases():
    """long inputs of doubling size for the polynomial-time clause (thorough tier)"""
    shapes = {
        "sum": lambda n: " + ".join(["1"] * n),
        "list": lambda n: " ".join(["1"] * n),
        "nest": lambda n: "(" * n + "1" + ")" * n,
        "pairs": lambda n: " = ".join(["1"] * n),
        "prefix": lambda n: "--" * n + "1",
        "chain": lambda n: " |> ".join(["$ ?> 1"] * n),
        "seq": lambda n: "\n\n".join(["1"] * n),
    }
    out = []
    for name, f in shapes.items():
        for n in (250, 500, 1000, 2000):
            out.append((name, n, "S " + gen_programs.hexcp(f(n))))
    return out


def deep_cases(n):
    """inputs nested / chained [n] levels deep: any per-level native recursion in lex, parse or build
    (the shipped code is iterative throughout) exhausts the small stack the stress worker is given"""
    shapes = {
        "nest": lambda n: "(" * n + "1" + ")" * n,
        "nestexpr": lambda n: "{" * n + "1" + "}" * n,
        "sidefx": lambda n: "[" * n + "1" + "]" * n + " 5",
        "prefix": lambda n: "--" * n + "1",
        "suffix": lambda n: "1" + "~~" * n,
        "sum": lambda n: "+".join(["1"] * n),
        "pairs": lambda n: "=".join(["1"] * n),
        "list": lambda n: " ".join(["1"] * n),
        "comma": lambda n: ",".join(["1"] * n),
        "access": lambda n: ".".join(["a"] * n),
        "chain": lambda n: " |> ".join(["$ ?> 1"] * n),
        "seq": lambda n: "\n\n".join(["1"] * n),
        "mixed": lambda n: "(1+" * n + "1" + ")" * n,
        "mixed_expr": lambda n: "{1 " * n + "1" + "}" * n,
        "unclosed": lambda n: "(" * n + "1",
        "unopened": lambda n: "1" + ")" * n,
        "quotes": lambda n: '"' + "a" * n,
        "operators": lambda n: "+" * n,
        "blocks": lambda n: "[]" * n + " 6",
        "blocks_spaced": lambda n: "[1] " * n + "6",
        "blocks_after_value": lambda n: "5" + "[1]" * n + " 6",
        "groups_list": lambda n: "(1) " * n + "2",
        "exprs_list": lambda n: "{1} " * n + "2",
        "annotations": lambda n: "@a " * n + "5",
        "comment_lines": lambda n: "@@ c\n" * n + "5",
        "terminators": lambda n: "5;" * n,
        "semis_in_expr": lambda n: "{" + "5;" * n + "6}",
        "units": lambda n: "() " * n + "1",
        "prefix_groups": lambda n: "--(" * n + "1" + ")" * n,
        "suffix_on_group": lambda n: "(" * n + "1" + ")~~" * n,
        "apply_chain": lambda n: "1" + " ~> a" * n,
        "long_number": lambda n: "1" * n,
        "long_identifier": lambda n: "a" * n,
        "long_symbol_list": lambda n: ":a" + ".b" * n,
        "long_string": lambda n: '"' + "a" * n + '"',
        "long_bytes": lambda n: "'" + "a" * n + "'",
        "ranges": lambda n: "1" + "..2" * n,
    }
    return [(name, n, "S " + gen_programs.hexcp(f(n))) for name, f in shapes.items()]


def run(tier, seed):
    v = Verdict(PID, tier, seed)
    v.assumptions = ["token texts of T cases are fixed representatives per token type",
                     "a case that does not answer within 3 s of wall-clock is counted as a hang"]
    sy = vplib.sync(["tokentypes", "tokens", "defs", "instr"])
    for k, e in sy["errors"].items():
        v.tie_failure("sync %s: %s" % (k, e))
    pr = vplib.prove(PID, ["Proofs/C03", "Proofs/C13/LexRun.v"], extra_targets=["Extract/PipeExtract.vo"])
    for f in pr["failures"]:
        v.tie_failure("prove: " + f)
    v.coverage.update(vplib.proof_coverage(pr, "make -C coq Properties/C03.vo Extract/PipeExtract.vo; coqc Properties/C03.v; tools/props/c03.py", TRUSTED))
    v.coverage["tables_regenerated"] = sy["changed"]
    names = pipefmt.load_names()
    exe, drv = pipecheck.build_runners(v)
    stats = collections.Counter()
    samples, evaluations, distinct = [], 0, set()
    if exe:
        broken = bool(v.tie_failures)
        streams = pipecheck.corpus("thorough" if (broken and tier == "quick") else tier, seed, names, "C03")
        for sname, cases in streams:
            impl, model, err = pipecheck.run(exe, drv, cases)
            if err:
                v.tie_failure("correspondence run (%s): %s" % (sname, err))
            if impl is None:
                continue
            evaluations += len(impl)
            ndiff = 0
            for i, line in enumerate(impl):
                case, res, orc = line.split("\t")
                cls = "HANG" if res == "HANG" else "CRASH" if res == "CRASH" else \
                      "PANIC" if "PANIC" in res else "ok"
                key = sname + ":" + (cls if cls != "ok" else ("accepted" if " B=OK" in res else "lexerr" if res.startswith("L=ERR") else "rejected"))
                stats[key] += 1
                if cls == "ok" and " B=OK" in res:
                    distinct.add(case)
                if cls != "ok":
                    v.violation(component="pipeline", stream=sname, input=case, readable=pipecheck.describe(case, names),
                                impl=res[:300], what="lex/parse/build did not return Ok or Err: " + cls)
                elif model is not None:
                    mres = model[i].split("\t")[1]
                    if not pipecheck.same_modulo_literals(res, mres):
                        ndiff += 1
                        if ndiff <= 3:
                            v.tie_failure("correspondence %s: %s impl=%s model=%s" % (sname, pipecheck.describe(case, names), res[:200], mres[:200]))
                if len(samples) < 8 and i == len(impl) // 3:
                    samples.append({"stream": sname, "case": pipecheck.describe(case, names), "impl": res[:160]})
            stats[sname + ":model_disagreements"] += ndiff
        # deep / long inputs, implementation only, 256 KiB of native stack
        dc = deep_cases(12000 if tier == "thorough" else 6000)
        dimpl, derr = pipecheck.run_stress(exe, [c for _, _, c in dc])
        if derr:
            v.tie_failure("stress run: " + derr)
        for (name, n, _), line in zip(dc, dimpl or []):
            f = line.split("\t")
            res = f[1] if len(f) > 1 else "?"
            evaluations += 1
            cls = "HANG" if res == "HANG" else "CRASH" if res == "CRASH" else "PANIC" if "PANIC" in res else "ok"
            stats["deep:" + cls] += 1
            if cls != "ok":
                v.violation(component="pipeline", stream="deep", input="deep %s n=%d" % (name, n), impl=res[:100],
                            what="input nested/chained %d levels deep (shape %s) did not return Ok or Err with 256 KiB of native stack: %s" % (n, name, cls))
        if tier == "thorough":
            sc = scaling_cases()
            impl, _, err = pipecheck.run(exe, None, [c for _, _, c in sc], timeout=600)
            times = collections.defaultdict(dict)
            if impl:
                for (name, n, _), line in zip(sc, impl):
                    case, res, orc = line.split("\t")
                    if res in ("HANG", "CRASH") or "PANIC" in res:
                        v.violation(component="pipeline", stream="scaling", input="%s n=%d" % (name, n), impl=res[:100],
                                    what="long input did not return: " + res[:40])
                    m = __import__("re").search(r"us=(\d+)", orc)
                    if m:
                        times[name][n] = int(m.group(1))
            import math
            exps = {}
            for name, t in times.items():
                if 250 in t and 2000 in t and t[250] > 0:
                    exps[name] = round(math.log(max(t[2000], 1) / max(t[250], 1)) / math.log(8), 2)
                    if exps[name] > 3.2 and t[2000] > 2_000_000:
                        v.violation(component="pipeline", stream="scaling", input=name, impl=json.dumps(t),
                                    what="running time grows faster than cubic in the input length (exponent %.2f)" % exps[name])
            v.coverage["scaling_exponents"] = exps
            v.coverage["scaling_times_us"] = {k: dict(t) for k, t in times.items()}
        pipecheck.cleanup(exe, drv)
    v.coverage.update({
        "evaluations": evaluations,
        "distinct_nontrivial": len(distinct),
        "rule": "all token-type sequences of length <= 3 over all token types (exhaustive), length-4 sequences over the representative alphabet "
                "(exhaustive in the thorough tier, sampled in quick), representative soups of length 5-9, grammar-generated programs, "
                "single-edit mutants of them, raw character soups incl. control characters, quotes, backslashes and multi-byte characters; "
                "non-trivial = accepted by lex, parse and build (a built program exists)",
        "samples": samples, "histogram": dict(stats), "exhaustive": False,
    })
    return v.finish("proof")


def replay(obj):
    import sys
    names = pipefmt.load_names()
    v = Verdict(PID, "quick", obj.get("seed", 0))
    exe, drv = pipecheck.build_runners(v, need_model=False)
    cases = [x["input"] for x in obj.get("violations", []) if x.get("input", "").startswith(("T ", "S "))]
    deep = [x["input"] for x in obj.get("violations", []) if x.get("input", "").startswith("deep ")]
    if deep:
        rc = 0
        for d in deep:
            _, name, nn = d.split(" ")
            n = int(nn.split("=")[1])
            dc = [c for c in deep_cases(n) if c[0] == name]
            dimpl, derr = pipecheck.run_stress(exe, [c for _, _, c in dc])
            for line in dimpl or []:
                res = line.split("\t")[1]
                bad = res in ("HANG", "CRASH") or "PANIC" in res
                rc |= 1 if bad else 0
                print("%s: %s -> %s" % ("FAILS" if bad else "ok", d, res[:80]))
        if not cases:
            pipecheck.cleanup(exe)
            return rc
    if not cases:
        print("replay names a broken tie, not an input:", obj.get("no_longer_checks"))
        return run("quick", obj.get("seed", 0))
    impl, _, err = pipecheck.run(exe, None, cases)
    rc = 0
    for line in impl or []:
        case, res, orc = line.split("\t")
        bad = res in ("HANG", "CRASH") or "PANIC" in res
        rc |= 1 if bad else 0
        print("%s: %s -> %s" % ("FAILS" if bad else "ok", pipecheck.describe(case, names), res[:200]))
    pipecheck.cleanup(exe)
    return rc
