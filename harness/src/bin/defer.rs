//! defer: the operation x operand-type x host-mode matrix runner (C08, C10).
//!
//! Case line:   <impl> <host> <Instruction> <left rep> <right rep>
//!   impl  S = SimpleGarnishData (host through set_op_handler / auxiliary data); C = the same after clone_with_aux_without_data
//!         B = BasicGarnishData  (host through a recording BasicDataCompanion)
//!   host  A = absent (default handler / NoOpCompanion), D = declining, Y = accepting
//!   rep   <TypeName>.<k>  (Type.<TypeName> for type values), or - for "no operand"
//! The operands are built through the public data API, a sentinel and then the
//! operands are pushed to the register stack in source order (left, right), one
//! value is put on the value stack, the instruction is stored at index 0 (data
//! Some(0) / Some(2) for MakeList) followed by filler instructions, jump table
//! [3], and exactly one step is executed with execute_current_instruction.
//!
//! Output line: <case>\t<result>\t<operand descriptors>
//!   result   Ok | Err:Unsupported | Err:Other | PANIC | UNBUILDABLE | BADCASE,
//!            then  d=<register depth delta> top=<type[:detail]|-> calls=[..]
//!            cur=<cursor after|End> vs=<value stack delta> sent=<ok|lost>
//!   calls    Instr(LeftType@<L|R|0|x>,RightType@<L|R|0|U|x>) ; L/R: the address is
//!            the left/right operand's, 0: zero, U: a unit value not among the
//!            operands, 0U: both (Simple's unit lives at address zero), x: something else
//!   descriptors  l=<type>/<inner type> r=<type>/<inner type>  read back through
//!            the getters (inner: denoted type of a Type value, sliced value of a
//!            Slice, receiver of a Partial, key of a Pair; else Invalid)
use garnish_lang_runtime::{execute_current_instruction, SimpleRuntimeState};
use garnish_lang_simple_data::{
    BasicData, BasicDataCompanion, BasicDataCustom, BasicGarnishData, DataError, NoOpCompanion, SimpleDataType, SimpleGarnishData, SimpleNumber,
};
use garnish_lang_traits::{ErrorType, GarnishData, GarnishDataType, Instruction};
use garnish_verif_harness::*;

const HOST_VALUE: i32 = 424242;

const INSTRUCTIONS: &[Instruction] = &[
    Instruction::Invalid,
    Instruction::Put,
    Instruction::PutValue,
    Instruction::PushValue,
    Instruction::UpdateValue,
    Instruction::JumpTo,
    Instruction::EndExpression,
    Instruction::Add,
    Instruction::Subtract,
    Instruction::Multiply,
    Instruction::Divide,
    Instruction::IntegerDivide,
    Instruction::Power,
    Instruction::Opposite,
    Instruction::AbsoluteValue,
    Instruction::Remainder,
    Instruction::BitwiseNot,
    Instruction::BitwiseAnd,
    Instruction::BitwiseOr,
    Instruction::BitwiseXor,
    Instruction::BitwiseShiftLeft,
    Instruction::BitwiseShiftRight,
    Instruction::And,
    Instruction::Or,
    Instruction::Xor,
    Instruction::Not,
    Instruction::Tis,
    Instruction::JumpIfTrue,
    Instruction::JumpIfFalse,
    Instruction::TypeOf,
    Instruction::ApplyType,
    Instruction::TypeEqual,
    Instruction::Equal,
    Instruction::NotEqual,
    Instruction::LessThan,
    Instruction::LessThanOrEqual,
    Instruction::GreaterThan,
    Instruction::GreaterThanOrEqual,
    Instruction::MakePair,
    Instruction::MakeList,
    Instruction::Apply,
    Instruction::PartialApply,
    Instruction::EmptyApply,
    Instruction::Reapply,
    Instruction::Access,
    Instruction::AccessLeftInternal,
    Instruction::AccessRightInternal,
    Instruction::AccessLengthInternal,
    Instruction::Resolve,
    Instruction::StartSideEffect,
    Instruction::EndSideEffect,
    Instruction::MakeRange,
    Instruction::MakeStartExclusiveRange,
    Instruction::MakeEndExclusiveRange,
    Instruction::MakeExclusiveRange,
    Instruction::Concat,
];

const TYPES: &[GarnishDataType] = &[
    GarnishDataType::Invalid,
    GarnishDataType::Unit,
    GarnishDataType::Number,
    GarnishDataType::Type,
    GarnishDataType::Char,
    GarnishDataType::CharList,
    GarnishDataType::Byte,
    GarnishDataType::ByteList,
    GarnishDataType::Symbol,
    GarnishDataType::SymbolList,
    GarnishDataType::Pair,
    GarnishDataType::Range,
    GarnishDataType::Concatenation,
    GarnishDataType::Slice,
    GarnishDataType::Partial,
    GarnishDataType::List,
    GarnishDataType::Expression,
    GarnishDataType::External,
    GarnishDataType::True,
    GarnishDataType::False,
    GarnishDataType::Custom,
];

fn instruction_named(s: &str) -> Option<Instruction> {
    INSTRUCTIONS.iter().copied().find(|i| format!("{:?}", i) == s)
}

fn type_named(s: &str) -> Option<GarnishDataType> {
    TYPES.iter().copied().find(|t| format!("{:?}", t) == s)
}

// ------------------------------------------------------------------ host
#[derive(Debug, Clone, Default, PartialEq, Eq, PartialOrd)]
pub struct Rec {
    accept: bool,
    calls: Vec<(String, String, usize, String, usize)>,
}

#[derive(Debug, Clone, Copy, PartialEq, Eq, PartialOrd, Hash)]
pub struct HCustom {
    v: u8,
}
impl SimpleDataType for HCustom {}

type Simple = SimpleGarnishData<HCustom, Rec>;

fn simple_handler(d: &mut Simple, op: Instruction, l: (GarnishDataType, usize), r: (GarnishDataType, usize)) -> Result<bool, DataError> {
    d.auxiliary_data_mut().calls.push((format!("{:?}", op), format!("{:?}", l.0), l.1, format!("{:?}", r.0), r.1));
    if d.auxiliary_data().accept {
        let a = d.add_number(SimpleNumber::Integer(HOST_VALUE))?;
        d.push_register(a)?;
        Ok(true)
    } else {
        Ok(false)
    }
}

impl BasicDataCompanion<()> for Rec {
    fn resolve(_d: &mut BasicGarnishData<(), Self>, _s: u64) -> Result<bool, DataError> {
        Ok(false)
    }
    fn apply(_d: &mut BasicGarnishData<(), Self>, _e: usize, _i: usize) -> Result<bool, DataError> {
        Ok(false)
    }
    fn defer_op(d: &mut BasicGarnishData<(), Self>, op: Instruction, l: (GarnishDataType, usize), r: (GarnishDataType, usize)) -> Result<bool, DataError> {
        d.companion_mut().calls.push((format!("{:?}", op), format!("{:?}", l.0), l.1, format!("{:?}", r.0), r.1));
        if d.companion().accept {
            let a = d.add_number(SimpleNumber::Integer(HOST_VALUE))?;
            d.push_register(a)?;
            Ok(true)
        } else {
            Ok(false)
        }
    }
}

/// What the matrix needs from a data implementation beyond the GarnishData trait.
trait Host: GarnishData<Size = usize, Number = SimpleNumber, Symbol = u64, Char = char, Byte = u8, Error = DataError> + Clone {
    fn mk_chars(&mut self, s: &str) -> Result<usize, DataError>;
    fn mk_bytes(&mut self, b: &[u8]) -> Result<usize, DataError>;
    fn mk_custom(&mut self) -> Result<Option<usize>, DataError>;
    fn mk_invalid(&mut self) -> Result<Option<usize>, DataError>;
    fn calls(&self) -> Vec<(String, String, usize, String, usize)>;
}

impl Host for Simple {
    fn mk_chars(&mut self, s: &str) -> Result<usize, DataError> {
        self.add_string(s)
    }
    fn mk_bytes(&mut self, b: &[u8]) -> Result<usize, DataError> {
        self.add_u8_vec(b.to_vec())
    }
    fn mk_custom(&mut self) -> Result<Option<usize>, DataError> {
        self.add_custom(HCustom { v: 1 }).map(Some)
    }
    fn mk_invalid(&mut self) -> Result<Option<usize>, DataError> {
        Ok(None) // no SimpleData value has the type Invalid
    }
    fn calls(&self) -> Vec<(String, String, usize, String, usize)> {
        self.auxiliary_data().calls.clone()
    }
}

impl Host for BasicGarnishData<(), Rec> {
    fn mk_chars(&mut self, s: &str) -> Result<usize, DataError> {
        self.add_string(s)
    }
    fn mk_bytes(&mut self, b: &[u8]) -> Result<usize, DataError> {
        self.add_byte_slice(b)
    }
    fn mk_custom(&mut self) -> Result<Option<usize>, DataError> {
        self.push_to_data_block(BasicData::Custom(())).map(Some)
    }
    fn mk_invalid(&mut self) -> Result<Option<usize>, DataError> {
        self.push_to_data_block(BasicData::Empty).map(Some)
    }
    fn calls(&self) -> Vec<(String, String, usize, String, usize)> {
        self.companion().calls.clone()
    }
}

impl Host for BasicGarnishData<(), NoOpCompanion> {
    fn mk_chars(&mut self, s: &str) -> Result<usize, DataError> {
        self.add_string(s)
    }
    fn mk_bytes(&mut self, b: &[u8]) -> Result<usize, DataError> {
        self.add_byte_slice(b)
    }
    fn mk_custom(&mut self) -> Result<Option<usize>, DataError> {
        self.push_to_data_block(BasicData::Custom(())).map(Some)
    }
    fn mk_invalid(&mut self) -> Result<Option<usize>, DataError> {
        self.push_to_data_block(BasicData::Empty).map(Some)
    }
    fn calls(&self) -> Vec<(String, String, usize, String, usize)> {
        vec![]
    }
}

// suppress "unused" for the BasicDataCustom import when () is the custom type
#[allow(dead_code)]
fn _custom_is_unit<T: BasicDataCustom>() {}

// ------------------------------------------------------- representatives
fn int<D: Host>(d: &mut D, v: i32) -> Result<usize, DataError> {
    d.add_number(SimpleNumber::Integer(v))
}

fn list_of<D: Host>(d: &mut D, items: &[usize]) -> Result<usize, DataError> {
    let mut l = d.start_list(items.len())?;
    for i in items {
        l = d.add_to_list(l, *i)?;
    }
    d.end_list(l)
}

fn keyed<D: Host>(d: &mut D, key: &str, v: usize) -> Result<usize, DataError> {
    let k = d.parse_add_symbol(key)?;
    d.add_pair((k, v))
}

fn range_of<D: Host>(d: &mut D, a: i32, b: i32) -> Result<usize, DataError> {
    let s = int(d, a)?;
    let e = int(d, b)?;
    d.add_range(s, e)
}

/// Build representative `k` of type `ty`.  Ok(None): this implementation cannot
/// hold a value of that type / no such representative.
fn build<D: Host>(d: &mut D, ty: &str, k: &str) -> Result<Option<usize>, DataError> {
    let n: usize = k.parse().unwrap_or(usize::MAX);
    let a = match (ty, n) {
        ("Invalid", 0) => return d.mk_invalid(),
        ("Custom", 0) => return d.mk_custom(),
        ("Unit", 0) => d.add_unit()?,
        ("True", 0) => d.add_true()?,
        ("False", 0) => d.add_false()?,
        ("Number", 0) => int(d, 0)?,
        ("Number", 1) => int(d, 1)?,
        ("Number", 2) => int(d, -3)?,
        ("Number", 3) => d.add_number(SimpleNumber::Float(2.5))?,
        ("Number", 4) => int(d, 7)?,
        ("Type", _) => match type_named(k) {
            Some(t) => d.add_type(t)?,
            None => return Ok(None),
        },
        ("Char", 0) => d.add_char('a')?,
        ("Char", 1) => d.add_char('Z')?,
        ("CharList", 0) => d.mk_chars("")?,
        ("CharList", 1) => d.mk_chars("a")?,
        ("CharList", 2) => d.mk_chars("abc")?,
        ("CharList", 3) => d.mk_chars("12")?,
        ("Byte", 0) => d.add_byte(0)?,
        ("Byte", 1) => d.add_byte(200)?,
        ("ByteList", 0) => d.mk_bytes(&[])?,
        ("ByteList", 1) => d.mk_bytes(&[7])?,
        ("ByteList", 2) => d.mk_bytes(&[1, 2, 3])?,
        ("Symbol", 0) => d.parse_add_symbol("a")?,
        ("Symbol", 1) => d.parse_add_symbol("zzz")?,
        ("Symbol", 2) => d.parse_add_symbol("b")?,
        ("SymbolList", 0) => {
            let x = d.parse_add_symbol("a")?;
            let y = d.parse_add_symbol("b")?;
            d.merge_to_symbol_list(x, y)?
        }
        ("SymbolList", 1) => {
            let x = d.parse_add_symbol("zzz")?;
            let y = d.parse_add_symbol("a")?;
            d.merge_to_symbol_list(x, y)?
        }
        ("SymbolList", 2) => {
            let x = d.parse_add_symbol("a")?;
            let y = d.parse_add_symbol("b")?;
            let z = d.parse_add_symbol("c")?;
            let xy = d.merge_to_symbol_list(x, y)?;
            d.merge_to_symbol_list(xy, z)?
        }
        ("Pair", 0) => {
            let v = int(d, 10)?;
            keyed(d, "a", v)?
        }
        ("Pair", 1) => {
            let l = int(d, 3)?;
            let r = int(d, 4)?;
            d.add_pair((l, r))?
        }
        ("Pair", 2) => {
            let v = int(d, 1)?;
            let inner = keyed(d, "b", v)?;
            keyed(d, "a", inner)?
        }
        ("Range", 0) => range_of(d, 1, 3)?,
        ("Range", 1) => range_of(d, 0, 0)?,
        ("Range", 2) => range_of(d, 5, 2)?,
        ("Concatenation", 0) => {
            let l = int(d, 1)?;
            let r = int(d, 2)?;
            d.add_concatenation(l, r)?
        }
        ("Concatenation", 1) => {
            let v1 = int(d, 1)?;
            let p1 = keyed(d, "a", v1)?;
            let l1 = list_of(d, &[p1])?;
            let v2 = int(d, 2)?;
            let p2 = keyed(d, "b", v2)?;
            let l2 = list_of(d, &[p2])?;
            d.add_concatenation(l1, l2)?
        }
        ("Concatenation", 2) => {
            let a = int(d, 1)?;
            let b = int(d, 2)?;
            let c = int(d, 3)?;
            let ab = d.add_concatenation(a, b)?;
            d.add_concatenation(ab, c)?
        }
        ("Slice", 0) => {
            let a = int(d, 1)?;
            let b = int(d, 2)?;
            let c = int(d, 3)?;
            let l = list_of(d, &[a, b, c])?;
            let r = range_of(d, 0, 1)?;
            d.add_slice(l, r)?
        }
        ("Slice", 1) => {
            let l = d.mk_chars("abcd")?;
            let r = range_of(d, 1, 2)?;
            d.add_slice(l, r)?
        }
        ("Slice", 2) => {
            let l = d.mk_bytes(&[1, 2, 3, 4])?;
            let r = range_of(d, 0, 2)?;
            d.add_slice(l, r)?
        }
        ("Slice", 3) => {
            let a = int(d, 1)?;
            let b = int(d, 2)?;
            let c = int(d, 3)?;
            let ab = d.add_concatenation(a, b)?;
            let abc = d.add_concatenation(ab, c)?;
            let r = range_of(d, 0, 1)?;
            d.add_slice(abc, r)?
        }
        ("Slice", 4) => {
            let x = d.parse_add_symbol("a")?;
            let y = d.parse_add_symbol("b")?;
            let l = d.merge_to_symbol_list(x, y)?;
            let r = range_of(d, 0, 1)?;
            d.add_slice(l, r)?
        }
        ("Slice", 5) => {
            let v1 = int(d, 1)?;
            let p1 = keyed(d, "a", v1)?;
            let v2 = int(d, 2)?;
            let p2 = keyed(d, "b", v2)?;
            let l = list_of(d, &[p1, p2])?;
            let r = range_of(d, 0, 1)?;
            d.add_slice(l, r)?
        }
        ("Partial", 0) => {
            let e = d.add_expression(0)?;
            let v = int(d, 5)?;
            d.add_partial(e, v)?
        }
        ("Partial", 1) => {
            let e = int(d, 9)?;
            let v = int(d, 5)?;
            d.add_partial(e, v)?
        }
        ("List", 0) => list_of(d, &[])?,
        ("List", 1) => {
            let a = int(d, 5)?;
            list_of(d, &[a])?
        }
        ("List", 2) => {
            let v1 = int(d, 1)?;
            let p1 = keyed(d, "a", v1)?;
            let v2 = int(d, 2)?;
            let p2 = keyed(d, "b", v2)?;
            list_of(d, &[p1, p2])?
        }
        ("List", 3) => {
            let a = int(d, 1)?;
            let b = int(d, 2)?;
            let c = int(d, 3)?;
            list_of(d, &[a, b, c])?
        }
        ("List", 4) => {
            // nested: (a = (b = 7, c = 8)) (1 2)
            let v7 = int(d, 7)?;
            let pb = keyed(d, "b", v7)?;
            let v8 = int(d, 8)?;
            let pc = keyed(d, "c", v8)?;
            let inner = list_of(d, &[pb, pc])?;
            let pa = keyed(d, "a", inner)?;
            let x = int(d, 1)?;
            let y = int(d, 2)?;
            let plain = list_of(d, &[x, y])?;
            list_of(d, &[pa, plain])?
        }
        ("List", 5) => {
            // mixed keyed / unkeyed
            let x = int(d, 1)?;
            let v = int(d, 3)?;
            let pa = keyed(d, "a", v)?;
            let y = d.mk_chars("s")?;
            list_of(d, &[x, pa, y])?
        }
        ("Expression", 0) => d.add_expression(0)?,
        ("External", 0) => d.add_external(0)?,
        _ => return Ok(None),
    };
    Ok(Some(a))
}

fn build_rep<D: Host>(d: &mut D, rep: &str) -> Result<Option<usize>, DataError> {
    match rep.split_once('.') {
        Some((ty, k)) => build(d, ty, k),
        None => Ok(None),
    }
}

// ------------------------------------------------------------ observation
fn describe<D: Host>(d: &D, addr: Option<usize>) -> String {
    let a = match addr {
        None => return "-".to_string(),
        Some(a) => a,
    };
    let t = match d.get_data_type(a) {
        Ok(t) => t,
        Err(_) => return "?".to_string(),
    };
    let inner = |x: Result<usize, DataError>| -> String {
        match x.and_then(|i| d.get_data_type(i)) {
            Ok(t) => format!("{:?}", t),
            Err(_) => "?".to_string(),
        }
    };
    let sub = match t {
        GarnishDataType::Type => match d.get_type(a) {
            Ok(t) => format!("{:?}", t),
            Err(_) => "?".to_string(),
        },
        GarnishDataType::Slice => inner(d.get_slice(a).map(|p| p.0)),
        GarnishDataType::Partial => inner(d.get_partial(a).map(|p| p.0)),
        GarnishDataType::Pair => inner(d.get_pair(a).map(|p| p.0)),
        _ => "Invalid".to_string(),
    };
    format!("{:?}/{}", t, sub)
}

fn top_string<D: Host>(d: &D) -> String {
    let len = d.get_register_len();
    if len == 0 {
        return "-".to_string();
    }
    let a = match d.get_register(len - 1) {
        Some(a) => a,
        None => return "?".to_string(),
    };
    match d.get_data_type(a) {
        Ok(GarnishDataType::Number) => match d.get_number(a) {
            Ok(SimpleNumber::Integer(v)) => format!("Number:{}", v),
            Ok(SimpleNumber::Float(f)) => format!("Number:f{:016x}", f.to_bits()),
            Err(_) => "Number:?".to_string(),
        },
        Ok(t) => format!("{:?}", t),
        Err(_) => "?".to_string(),
    }
}

fn value_depth<D: Host>(d: &D) -> usize {
    let mut c = d.clone();
    let mut n = 0;
    while c.pop_value_stack().is_some() {
        n += 1;
        if n > 1000 {
            break;
        }
    }
    n
}

fn run_case<D: Host>(mut d: D, instr: Instruction, lrep: &str, rrep: &str) -> String {
    // sentinel, value stack, operands
    let built = (|| -> Result<Option<(usize, Option<usize>, Option<usize>)>, DataError> {
        let sentinel = d.add_external(9999)?;
        d.push_value_stack(sentinel)?;
        d.push_register(sentinel)?;
        let l = if lrep == "-" {
            None
        } else {
            match build_rep(&mut d, lrep)? {
                None => return Ok(None),
                s => s,
            }
        };
        let r = if rrep == "-" {
            None
        } else {
            match build_rep(&mut d, rrep)? {
                None => return Ok(None),
                s => s,
            }
        };
        if let Some(l) = l {
            d.push_register(l)?;
        }
        if let Some(r) = r {
            d.push_register(r)?;
        }
        Ok(Some((sentinel, l, r)))
    })();
    let (sentinel, l, r) = match built {
        Ok(Some(x)) => x,
        Ok(None) => return "UNBUILDABLE\t-".to_string(),
        Err(_) => return "UNBUILDABLE:error\t-".to_string(),
    };
    let desc = format!("l={} r={}", describe(&d, l), describe(&d, r));
    let data = match instr {
        Instruction::MakeList => Some(2),
        Instruction::Put
        | Instruction::And
        | Instruction::Or
        | Instruction::Resolve
        | Instruction::Reapply
        | Instruction::JumpIfTrue
        | Instruction::JumpIfFalse
        | Instruction::JumpTo => Some(0),
        _ => None,
    };
    let setup = (|| -> Result<(), DataError> {
        d.push_instruction(instr, data)?;
        for _ in 0..5 {
            d.push_instruction(Instruction::Invalid, None)?;
        }
        d.push_to_jump_table(3)?;
        d.set_instruction_cursor(0)?;
        Ok(())
    })();
    if setup.is_err() {
        return format!("UNBUILDABLE:setup\t{}", desc);
    }
    let depth_before = d.get_register_len();
    let vs_before = value_depth(&d);
    let res = catch(|| execute_current_instruction(&mut d));
    let class = match &res {
        Err(()) => "PANIC".to_string(),
        Ok(Ok(_)) => "Ok".to_string(),
        Ok(Err(e)) => {
            if e.get_type() == ErrorType::UnsupportedOpTypes {
                "Err:Unsupported".to_string()
            } else {
                "Err:Other".to_string()
            }
        }
    };
    let after = catch(|| {
        let depth_after = d.get_register_len();
        let delta = depth_after as i64 - depth_before as i64;
        let top = top_string(&d);
        let unit_addrs_ok = |a: usize| matches!(d.get_data_type(a), Ok(GarnishDataType::Unit));
        let calls: Vec<String> = d
            .calls()
            .iter()
            .map(|(op, lt, la, rt, ra)| {
                let lf = if Some(*la) == l {
                    "L"
                } else if Some(*la) == r {
                    "R"
                } else if *la == 0 {
                    "0"
                } else {
                    "x"
                };
                let rf = if Some(*ra) == r {
                    "R"
                } else if Some(*ra) == l && r.is_some() {
                    "L"
                } else if *ra == 0 && unit_addrs_ok(*ra) {
                    "0U" // SimpleGarnishData keeps its one unit value at address zero
                } else if *ra == 0 {
                    "0"
                } else if unit_addrs_ok(*ra) {
                    "U"
                } else {
                    "x"
                };
                format!("{}({}@{},{}@{})", op, lt, lf, rt, rf)
            })
            .collect();
        let cur = match &res {
            Ok(Ok(info)) if info.get_state() == SimpleRuntimeState::End => "End".to_string(),
            _ => format!("{}", d.get_instruction_cursor()),
        };
        let vs = value_depth(&d) as i64 - vs_before as i64;
        let sent = if d.get_register(0) == Some(sentinel) { "ok" } else { "lost" };
        format!("d={} top={} calls=[{}] cur={} vs={} sent={}", delta, top, calls.join(";"), cur, vs, sent)
    });
    match after {
        Ok(s) => format!("{} {}\t{}", class, s, desc),
        Err(()) => format!("{} d=? top=? calls=[?] cur=? vs=? sent=?\t{}", class, desc),
    }
}

fn main() {
    quiet_panics();
    for_each_line(|line| {
        if line == "#names" {
            let i: Vec<String> = INSTRUCTIONS.iter().map(|x| format!("{:?}", x)).collect();
            let t: Vec<String> = TYPES.iter().map(|x| format!("{:?}", x)).collect();
            return format!("#names\t{}\t{}", i.join(" "), t.join(" "));
        }
        let p: Vec<&str> = line.split(' ').collect();
        if p.len() != 5 {
            return format!("{}\tBADCASE\t-", line);
        }
        let instr = match instruction_named(p[2]) {
            Some(i) => i,
            None => return format!("{}\tBADCASE:instruction\t-", line),
        };
        let out = catch(|| match (p[0], p[1]) {
            ("S", h) if h == "A" || h == "D" || h == "Y" => {
                let mut d = Simple::new_custom();
                if h != "A" {
                    d.set_op_handler(simple_handler);
                    d.auxiliary_data_mut().accept = h == "Y";
                }
                run_case(d, instr, p[3], p[4])
            }
            // a context derived from a configured one (clone_with_aux_without_data): same host, same behaviour
            ("C", h) if h == "D" || h == "Y" => {
                let mut d0 = Simple::new_custom();
                d0.set_op_handler(simple_handler);
                d0.auxiliary_data_mut().accept = h == "Y";
                match d0.clone_with_aux_without_data() {
                    Ok(d) => run_case(d, instr, p[3], p[4]),
                    Err(_) => "UNBUILDABLE:clone\t-".to_string(),
                }
            }
            ("B", "A") => match BasicGarnishData::<(), NoOpCompanion>::new(NoOpCompanion::new()) {
                Ok(d) => run_case(d, instr, p[3], p[4]),
                Err(_) => "UNBUILDABLE:new\t-".to_string(),
            },
            ("B", h) if h == "D" || h == "Y" => match BasicGarnishData::<(), Rec>::new(Rec { accept: h == "Y", calls: vec![] }) {
                Ok(d) => run_case(d, instr, p[3], p[4]),
                Err(_) => "UNBUILDABLE:new\t-".to_string(),
            },
            _ => "BADCASE:impl\t-".to_string(),
        });
        match out {
            Ok(s) => format!("{}\t{}", line, s),
            Err(()) => format!("{}\tPANIC:harness\t-", line),
        }
    });
}
