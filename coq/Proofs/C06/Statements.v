(* Proof terms of the theorems stated in Properties/C06.v (the property file only
   states them and checks their assumptions). *)
From Coq Require Import List Arith Bool NArith.
From GV Require Import Base.Result Gen.TokenTypes Gen.Defs Gen.Instr Model.Parser Model.BuilderWL Model.Compile
  Spec.Depth Proofs.C05.Known Proofs.C05.Bounded Proofs.C06.Known Proofs.C06.DepthSound Proofs.C06.Dynamic
  Proofs.C06.Bounded Proofs.C06.Bounded7 Proofs.C06.Refuted Proofs.C06.Balanced Proofs.C06.BalancedBounded.
From GV Require Spec.Pratt.
From GV Require Import Proofs.C06.OperatorBalanced Proofs.Builder.Transport.
Import ListNotations.

Lemma C06_static_triples_bounded_3_proof : forall a b c init, In init inits -> built_typable [a; b; c] init.
Proof. intros a b c init Hi. exact (check_d_meaning _ init (triples_check_d a b c) Hi). Qed.

Lemma C06_static_reduced_bounded_5_proof : forall toks init,
  length toks <= 5 -> (forall x, In x toks -> In x reduced_alphabet) -> In init inits -> built_typable toks init.
Proof. intros toks init Hl Ha Hi. exact (check_d_meaning _ init (reduced_check_d toks Hl Ha) Hi). Qed.

Lemma C06_static_small_bounded_7_proof : forall toks init,
  length toks = 7 -> (forall x, In x toks -> In x small_alphabet) -> In init inits -> built_typable toks init.
Proof. intros toks init Hl Ha Hi. exact (check_d_meaning _ init (small_check_d toks Hl Ha) Hi). Qed.

Lemma C06_dynamic_invariant_proof : forall p d, typed p d -> forall t c,
  pjump p (pg_entry p) = Some t -> areach p (a_init p t) c ->
  d (a_pc c) = Some (a_r c, a_v c) /\
  Forall (fun f => d (fst (fst f)) = Some (S (snd (fst f)), snd f)) (a_frames c).
Proof. intros p d H t c Ht Hr. exact (reachable_typed p d H t c Ht Hr). Qed.

Lemma C06_dynamic_no_underflow_proof : forall p d, typed p d -> forall t c,
  pjump p (pg_entry p) = Some t -> areach p (a_init p t) c -> asteps p c <> [].
Proof. intros p d H t c Ht Hr. exact (typed_progress p d H c (reachable_typed p d H t c Ht Hr)). Qed.

Lemma C06_dynamic_balanced_at_end_proof : forall p d, typed p d -> forall t c r v,
  pjump p (pg_entry p) = Some t -> areach p (a_init p t) c -> astep p c (AHalt r v) ->
  r = 0 /\ v = 0 /\ a_frames c = [].
Proof. intros p d H t c r v Ht Hr Hs. exact (typed_halt_balanced p d H c r v (reachable_typed p d H t c Ht Hr) Hs). Qed.

Lemma C06_K1_refuted_proof : untypable_witness k1_toks has_chain_no_else = true /\
  path_ok k1_prog k1_path = true /\ asteps k1_prog (mkA 4 0 0 []) = [].
Proof. exact (conj K1_untypable K1_machine_stuck). Qed.

Lemma C06_K2_refuted_proof : untypable_witness k2_toks has_empty_value = true /\ untypable_witness k2b_toks has_empty_value = true.
Proof. exact (conj K2_untypable K2b_untypable). Qed.

Lemma C06_balanced_covers_triples_bounded_3_proof : forall a b c, accepted_balanced [a; b; c].
Proof. intros a b c. exact (check_bal_meaning _ (triples_check_bal a b c)). Qed.

Lemma C06_balanced_covers_reduced_bounded_5_proof : forall toks,
  length toks <= 5 -> (forall x, In x toks -> In x reduced_alphabet) -> accepted_balanced toks.
Proof. intros toks Hl Ha. exact (check_bal_meaning _ (reduced_check_bal toks Hl Ha)). Qed.

Lemma C06_balanced_covers_small_bounded_7_proof : forall toks,
  length toks = 7 -> (forall x, In x toks -> In x small_alphabet) -> accepted_balanced toks.
Proof. intros toks Hl Ha. exact (check_bal_meaning _ (small_check_bal toks Hl Ha)). Qed.

Lemma C06_balanced_operator_expressions_proof : forall toks R, Pratt.pratt toks = Some R ->
  exists root nodes t,
    parse toks = Ok (root, nodes) /\ Compile.tree_of nodes root = Some t /\
    (~ Known_C06_K1 t -> ~ Known_C06_K3 t -> ~ Known_C06_K4 t ->
     balanced t = true /\
     forall init lit fuel r, build nodes init lit fuel root = Ok r ->
       let p := prog_of_build init r in
       exists d, typed p d /\ ends_at_one p d /\ exists e, pjump p (snd r) = Some e /\ d e = Some (0, 0)).
Proof.
  intros toks R H. destruct (operator_expression_balanced toks R H) as (root & nodes & t & Hp & Ht & _ & Hb).
  exists root, nodes, t. split; [exact Hp|]. split; [exact Ht|]. intros H1 H3 H4.
  unfold Known_C06_K1, Known_C06_K3, Known_C06_K4 in *.
  assert (Hbal : balanced t = true).
  { apply Hb.
    - destruct (has_chain_no_else t); [exfalso; apply H1; reflexivity | reflexivity].
    - destruct (has_chain_early_else t); [exfalso; apply H4; reflexivity | reflexivity].
    - destruct (has_reapply_pending t); [exfalso; apply H3; reflexivity | reflexivity]. }
  split; [exact Hbal|]. intros init lit fuel r Hbd.
  exact (C06_static_full_builder_proof nodes root t init lit fuel r Ht Hbal Hbd).
Qed.

Lemma C06_operator_expressions_no_K2_proof : forall toks R, Pratt.pratt toks = Some R ->
  exists root nodes t, parse toks = Ok (root, nodes) /\ Compile.tree_of nodes root = Some t /\ drops_arms t = false.
Proof.
  intros toks R H. destruct (operator_expression_balanced toks R H) as (root & nodes & t & Hp & Ht & Hd & _).
  exists root, nodes, t. auto.
Qed.
