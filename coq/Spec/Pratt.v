(* "The tree the operator table dictates": a reference precedence-climbing
   parser over the PINNED table Spec.RefTable, independent of the parser's
   algorithm (no parent links, no walks).  Fragment: value tokens, prefix /
   suffix / binary operators (conditional and apply forms included), the comma
   with both operands, the implicit space list, round brackets and nested-expression
   brackets `{ }` (properly matched), whitespace.
   A binary or suffix operator [d] is taken into the operand being built under a
   limit [q] iff  rank d < q, or rank d = q and d groups right-to-left.
   A prefix operator's operand is built under the prefix operator's own rank. *)
From Coq Require Import List Arith Bool NArith.
From GV Require Import Base.Result Gen.TokenTypes Gen.Defs Model.Parser Spec.RefTable.
Import ListNotations.

Inductive rtree : Type :=
| RAtom (d : definition) (tok : nat)
| RPre (d : definition) (tok : nat) (arg : rtree)
| RSuf (d : definition) (tok : nat) (arg : rtree)
| RBin (d : definition) (tok : option nat) (l r : rtree)   (* tok = None: implicit space list *)
| RGroup (b : bkind) (tok : nat) (inner : rtree).    (* ( inner ) or { inner } *)

Fixpoint rtree_eqb (a b : rtree) : bool :=
  match a, b with
  | RAtom d1 t1, RAtom d2 t2 => definition_eqb d1 d2 && Nat.eqb t1 t2
  | RPre d1 t1 x, RPre d2 t2 y => definition_eqb d1 d2 && Nat.eqb t1 t2 && rtree_eqb x y
  | RSuf d1 t1 x, RSuf d2 t2 y => definition_eqb d1 d2 && Nat.eqb t1 t2 && rtree_eqb x y
  | RBin d1 t1 l1 r1, RBin d2 t2 l2 r2 =>
      definition_eqb d1 d2 && opt_nat_eqb t1 t2 && rtree_eqb l1 l2 && rtree_eqb r1 r2
  | RGroup b1 t1 x, RGroup b2 t2 y => bkind_eqb b1 b2 && Nat.eqb t1 t2 && rtree_eqb x y
  | _, _ => false
  end.

(* items: tokens with their index, whitespace turned into the implicit list
   operator where it separates the end of a value from the start of one *)
Inductive item : Type :=
| IValue (d : definition) (i : nat)
| IPrefix (d : definition) (i : nat)
| ISuffix (d : definition) (i : nat)
| IBinary (d : definition) (i : option nat)
| IOpen (b : bkind) (i : nat)
| IClose (b : bkind) (i : nat).

Definition ends_value_k (k : tok_kind) : bool :=
  match k with KValue | KSuffix | KClose _ => true | _ => false end.
Definition starts_value_k (k : tok_kind) : bool :=
  match k with KValue | KPrefix | KOpen _ => true | _ => false end.

(* [prev]: kind of the last non-space token; [spaced]: whitespace seen since *)
Fixpoint items_of (toks : list token_type) (i : nat) (prev : option tok_kind) (spaced : bool) : option (list item) :=
  match toks with
  | [] => Some []
  | t :: r =>
    let k := ref_kind t in
    match k with
    | KSpace => items_of r (S i) prev true
    | KOther => None
    | _ =>
      let lead := match prev with
                  | Some p => if spaced && ends_value_k p && starts_value_k k then [IBinary D_List None] else []
                  | None => [] end in
      let it := match k with
                | KValue => IValue (ref_def t) i
                | KPrefix => IPrefix (ref_def t) i
                | KSuffix => ISuffix (ref_def t) i
                | KBinary => IBinary (ref_def t) (Some i)
                | KOpen b => IOpen b i
                | KClose b => IClose b i
                | _ => IClose BRound i     (* not reached: KSpace and KOther are handled above *)
                end in
      match items_of r (S i) (Some k) false with
      | Some rest => Some (lead ++ it :: rest)
      | None => None
      end
    end
  end.

Definition INF : N := 1000000%N.

(* the limit under which the content of a bracket is built *)
Definition blimit (b : bkind) : N := match b with BRound => ROUND_LIMIT | BCurly => INF end.

Definition inside (d : definition) (q : N) : bool :=
  match ref_rank d with
  | Some p => N.ltb p q || (N.eqb p q && ref_rtl d)
  | None => false
  end.

(* [acc = None]: an operand is expected; [acc = Some left]: extend [left] with the
   operators allowed under the limit [q] *)
Fixpoint climb (fuel : nat) (q : N) (acc : option rtree) (its : list item) : option (rtree * list item) :=
  match fuel with
  | O => None
  | S f =>
    match acc with
    | None =>
      match its with
      | IValue d i :: r => climb f q (Some (RAtom d i)) r
      | IPrefix d i :: r =>
        match ref_rank d with
        | Some p =>
          match climb f p None r with
          | Some (arg, r') => climb f q (Some (RPre d i arg)) r'
          | None => None
          end
        | None => None
        end
      | IOpen b i :: r =>
        match climb f (blimit b) None r with
        | Some (inner, IClose b' _ :: r') =>
          if bkind_eqb b b' then climb f q (Some (RGroup b i inner)) r' else None    (* `( }` is not an expression *)
        | _ => None
        end
      | _ => None
      end
    | Some lhs =>
      match its with
      | IBinary d i :: r =>
        if inside d q then
          match ref_rank d with
          | Some p =>
            match climb f p None r with
            | Some (rhs, r') => climb f q (Some (RBin d i lhs rhs)) r'
            | None => None
            end
          | None => None
          end
        else Some (lhs, its)
      | ISuffix d i :: r =>
        if inside d q then climb f q (Some (RSuf d i lhs)) r else Some (lhs, its)
      | _ => Some (lhs, its)
      end
    end
  end.

Definition pratt (toks : list token_type) : option rtree :=
  match items_of toks 0 None false with
  | None => None
  | Some its =>
    match climb (4 * length its + 8) INF None its with
    | Some (t, []) => Some t
    | _ => None
    end
  end.

(* token lists without nested-expression brackets (for statements that are about round
   brackets only) *)
Definition curly_tok (t : token_type) : bool :=
  match ref_kind t with KOpen BCurly | KClose BCurly => true | _ => false end.
Definition round_only (toks : list token_type) : bool := forallb (fun t => negb (curly_tok t)) toks.
Definition sep_tok (t : token_type) : bool :=
  match ref_kind t with KBinary => is_sep_def (ref_def t) | _ => false end.
Definition no_separators (toks : list token_type) : bool := forallb (fun t => negb (sep_tok t)) toks.

(* the parser's node array as an rtree *)
Definition norm_atom (d : definition) : definition :=
  match d with D_Property => D_Identifier | _ => d end.

Fixpoint tree_of (fuel : nat) (ns : list pnode) (off : nat) (i : nat) : option rtree :=
  match fuel with
  | O => None
  | S f =>
    match nth_error ns i with
    | None => None
    | Some n =>
      let tok := match n_tok n with Some t => t + off | None => 0 end in
      let sub (c : option nat) := match c with Some k => tree_of f ns off k | None => None end in
      match n_sec n with
      | S_Value | S_Identifier =>
        match n_left n, n_right n with
        | None, None => Some (RAtom (norm_atom (n_def n)) tok)
        | _, _ => None
        end
      | S_UnaryPrefix =>
        match n_left n, sub (n_right n) with
        | None, Some a => Some (RPre (n_def n) tok a)
        | _, _ => None
        end
      | S_UnarySuffix =>
        match sub (n_left n), n_right n with
        | Some a, None => Some (RSuf (n_def n) tok a)
        | _, _ => None
        end
      | S_StartGrouping =>
        if definition_eqb (n_def n) D_List then
          match sub (n_left n), sub (n_right n) with
          | Some l, Some r => Some (RBin D_List None l r)
          | _, _ => None
          end
        else if definition_eqb (n_def n) D_Group then
          match n_left n, sub (n_right n) with
          | None, Some a => Some (RGroup BRound tok a)
          | _, _ => None
          end
        else if definition_eqb (n_def n) D_NestedExpression then
          match n_left n, sub (n_right n) with
          | None, Some a => Some (RGroup BCurly tok a)
          | _, _ => None
          end
        else None
      | S_BinaryLeftToRight | S_BinaryRightToLeft | S_OptionalBinaryLeftToRight | S_Subexpression =>
        match sub (n_left n), sub (n_right n) with
        | Some l, Some r => Some (RBin (n_def n) (Some tok) l r)
        | _, _ => None
        end
      | _ => None
      end
    end
  end.

(* C02 on one token list of the fragment: parse accepts and returns exactly the
   tree the pinned table dictates *)
Definition c02_agree (toks : list token_type) : bool :=
  match pratt toks with
  | None => true      (* outside the fragment / not an expression *)
  | Some t =>
    match parse toks with
    | Ok (root, ns) =>
      match tree_of (2 * length ns + 2) ns (fst (trim_tokens toks)) root with
      | Some t' => rtree_eqb t t'
      | None => false
      end
    | _ => false
    end
  end.
