(* The parser-state invariant behind "the last_left adjustment has always settled":
   node ids are allocated in increasing order, and everything created after an open
   group hangs inside it (parent / left / right links of later nodes never point below
   the group).  Hence the parent walk of parse_token never climbs past the innermost
   open group, open groups are never re-parented, and a side-effect block that hangs
   under another side-effect block hangs under the one that encloses it. *)
From Coq Require Import List Arith Bool NArith Lia Sorted.
From GV Require Import Base.Result Gen.TokenTypes Gen.Defs Model.Parser Spec.Layout Spec.LayoutSim
  Proofs.C18.StepParts Proofs.C18.Settled.
Import ListNotations.

(* ---- options against a bound ---- *)
Definition oge (o : option nat) (g : nat) : Prop := match o with Some x => g <= x | None => True end.
Definition ogt (o : option nat) (g : nat) : Prop := match o with Some x => g < x | None => True end.
Definition ge_top (o ug : option nat) : Prop := match ug with Some u => oge o u | None => True end.
Definition gt_top (o ug : option nat) : Prop := match ug with Some u => ogt o u | None => True end.

Lemma ogt_oge o g : ogt o g -> oge o g.
Proof. destruct o; cbn; lia. Qed.
Lemma oge_le o g g' : g' <= g -> oge o g -> oge o g'.
Proof. destruct o; cbn; lia. Qed.
Lemma ogt_le o g g' : g' <= g -> ogt o g -> ogt o g'.
Proof. destruct o; cbn; lia. Qed.

(* ---- node lists against an open group [g] ---- *)
Definition Inside (ns : list pnode) (g : nat) : Prop :=
  forall c n, nth_error ns c = Some n ->
    (g < c -> oge (n_parent n) g /\ ogt (n_left n) g /\ ogt (n_right n) g) /\
    (c = g -> ogt (n_right n) g).

Definition shape2 (n : pnode) : bool :=
  definition_eqb (n_def n) D_SideEffect && match n_left n with None => true | Some _ => false end.

(* a side-effect block on the stack that hangs under a left-less side-effect block hangs
   under the next open group *)
Definition Pentry (ns : list pnode) (prev : option nat) (g : nat) : Prop :=
  forall n p, nth_error ns g = Some n -> n_def n = D_SideEffect -> n_left n = None -> n_parent n = Some p ->
    exists pn, nth_error ns p = Some pn /\ (shape2 pn = false \/ prev = Some p).

Fixpoint Pchain (ns : list pnode) (stk : list nat) : Prop :=
  match stk with
  | [] => True
  | g :: r => Pentry ns (hd_error r) g /\ Pchain ns r
  end.

(* [stk]: ids of the open groups, innermost first *)
Record WF (ns : list pnode) (stk : list nat) : Prop := mkWF {
  wf_dec : StronglySorted (fun a b => b < a) stk;
  wf_range : forall g, In g stk -> g < length ns;
  wf_group : forall g, In g stk -> exists n, nth_error ns g = Some n /\ is_group_like (n_def n) = true;
  wf_inside : forall g, In g stk -> Inside ns g;
  wf_chain : Pchain ns stk
}.

Lemma dec_top_max u r g : StronglySorted (fun a b => b < a) (u :: r) -> In g (u :: r) -> g <= u.
Proof.
  intros H Hin. inversion H as [|a l Hs Hf]; subst. destruct Hin as [->|Hin]; [lia|].
  rewrite Forall_forall in Hf. specialize (Hf g Hin). lia.
Qed.

(* ---- the parent walk stays inside the innermost open group ---- *)
Section Walk.
Variables (ns : list pnode) (id : nat) (my : N) (se rtl : bool) (ug : option nat).
Hypothesis Hin : forall u, ug = Some u -> Inside ns u.
Hypothesis Hgr : forall u, ug = Some u -> exists n, nth_error ns u = Some n /\ is_group_like (n_def n) = true.

Definition in_range (o : option nat) : Prop := match o with Some x => x < length ns | None => True end.

Lemma walk_spec : forall fuel cl tl count p t,
  walk fuel ns id my se rtl ug cl tl count = Ok (p, t) ->
  ge_top cl ug -> gt_top tl ug -> in_range tl ->
  ge_top p ug /\ gt_top t ug /\ in_range p /\ in_range t /\
  (se = true -> my = 5%N -> rtl = false -> forall pp, p = Some pp ->
     exists pn, nth_error ns pp = Some pn /\ (n_def pn <> D_SideEffect \/ ug = Some pp)).
Proof.
  induction fuel as [|f IH]; intros cl tl count p t H Hcl Htl Hrt; [discriminate H|].
  cbn [walk] in H. destruct cl as [li|].
  - destruct (nth_error ns li) as [n|] eqn:En; [|discriminate H].
    unfold prio_of in H. destruct (priority (n_def n)) as [their|] eqn:Ep; cbn [bind] in H; [|discriminate H].
    match type of H with (if ?c then _ else _) = _ => destruct c eqn:Ec end.
    + injection H as <- <-. split; [exact Hcl|]. split; [exact Htl|]. split.
      { cbn. apply nth_error_Some. rewrite En. discriminate. }
      split; [exact Hrt|].
      intros -> -> -> pp Hpp. injection Hpp as <-. exists n. split; [exact En|].
      apply orb_true_iff in Ec. destruct Ec as [Ec|Ec].
      * left. intros Hd. rewrite Hd in Ep. cbn in Ep. injection Ep as <-.
        apply andb_true_iff in Ec. destruct Ec as [_ Ec]. rewrite andb_false_r in Ec. cbn in Ec. discriminate Ec.
      * right. apply andb_true_iff in Ec. destruct Ec as [_ Ec]. destruct ug as [u|]; [|discriminate Ec].
        apply Nat.eqb_eq in Ec. subst u. reflexivity.
    + destruct (opt_nat_eqb (n_right n) (Some id)); [discriminate H|].
      destruct (Nat.ltb (length ns) (S count)); [discriminate H|].
      apply (IH _ _ _ _ _ H).
      * destruct ug as [u|] eqn:Eu; [|exact I]. cbn in Hcl |- *.
        assert (Hne : li <> u).
        { intros ->. destruct (Hgr u eq_refl) as (un & Hun & Hg). rewrite En in Hun. injection Hun as <-.
          rewrite Hg, Nat.eqb_refl in Ec. cbn in Ec. rewrite orb_true_r in Ec. discriminate Ec. }
        destruct (Hin u eq_refl li n En) as [Hgt _]. apply Hgt. lia.
      * destruct ug as [u|] eqn:Eu; [|exact I]. cbn in Hcl |- *.
        assert (Hne : li <> u).
        { intros ->. destruct (Hgr u eq_refl) as (un & Hun & Hg). rewrite En in Hun. injection Hun as <-.
          rewrite Hg, Nat.eqb_refl in Ec. cbn in Ec. rewrite orb_true_r in Ec. discriminate Ec. }
        lia.
      * cbn. apply nth_error_Some. rewrite En. discriminate.
  - injection H as <- <-. split; [destruct ug; exact I|]. split; [exact Htl|]. split; [exact I|]. split; [exact Hrt|].
    intros _ _ _ pp Hpp. discriminate Hpp.
Qed.
End Walk.

(* ---- how parse_token changes the node list ---- *)
Definition Rel (id : nat) (ug : option nat) (ns ns' : list pnode) : Prop :=
  length ns' = length ns /\
  forall c n', nth_error ns' c = Some n' ->
    exists n, nth_error ns c = Some n /\ n_def n' = n_def n /\ n_left n' = n_left n /\
      (n_parent n' = n_parent n \/ (n_parent n' = Some id /\ gt_top (Some c) ug)) /\
      (n_right n' = n_right n \/ n_right n' = Some id).

Lemma Rel_refl id ug ns : Rel id ug ns ns.
Proof. split; [reflexivity|]. intros c n' H. exists n'. repeat split; auto. Qed.

Lemma Rel_trans id ug a b c : Rel id ug a b -> Rel id ug b c -> Rel id ug a c.
Proof.
  intros [L1 R1] [L2 R2]. split; [lia|]. intros k n'' H.
  destruct (R2 k n'' H) as (n' & Hn' & D2 & F2 & P2 & G2).
  destruct (R1 k n' Hn') as (n & Hn & D1 & F1 & P1 & G1).
  exists n. split; [exact Hn|]. split; [congruence|]. split; [congruence|]. split.
  - destruct P2 as [P2|P2]; [|right; exact P2]. destruct P1 as [P1|[P1 Q1]]; [left; congruence|right; split; [congruence|exact Q1]].
  - destruct G2 as [G2|G2]; [|right; exact G2]. destruct G1 as [G1|G1]; [left; congruence|right; congruence].
Qed.

Lemma Rel_upd_parent id ug ns ix ns' :
  upd ns ix (set_parent (Some id)) = Some ns' -> gt_top (Some ix) ug -> Rel id ug ns ns'.
Proof.
  intros Hu Hg. split; [exact (upd_length' _ _ _ _ Hu)|]. intros c n' H.
  destruct (Nat.eq_dec c ix) as [->|Hne].
  - destruct (upd_some_nth _ _ _ _ Hu) as [x Hx]. rewrite (nth_upd_same _ _ _ _ _ Hu Hx) in H. injection H as <-.
    exists x. split; [exact Hx|]. repeat split; auto.
  - rewrite (nth_upd_other _ _ _ _ _ Hu Hne) in H. exists n'. repeat split; auto.
Qed.

Lemma Rel_upd_right id ug ns ix ns' :
  upd ns ix (set_right (Some id)) = Some ns' -> Rel id ug ns ns'.
Proof.
  intros Hu. split; [exact (upd_length' _ _ _ _ Hu)|]. intros c n' H.
  destruct (Nat.eq_dec c ix) as [->|Hne].
  - destruct (upd_some_nth _ _ _ _ Hu) as [x Hx]. rewrite (nth_upd_same _ _ _ _ _ Hu Hx) in H. injection H as <-.
    exists x. split; [exact Hx|]. repeat split; auto.
  - rewrite (nth_upd_other _ _ _ _ _ Hu Hne) in H. exists n'. repeat split; auto.
Qed.

(* [Inside] survives such changes when the new id is beyond the group *)
Lemma Inside_Rel id ug ns ns' g :
  Rel id ug ns ns' -> g < id -> Inside ns g -> Inside ns' g.
Proof.
  intros [_ R] Hid HI c n' H. destruct (R c n' H) as (n & Hn & _ & F & P & G).
  destruct (HI c n Hn) as [H1 H2]. split.
  - intros Hc. destruct (H1 Hc) as (A & B & C). split; [|split].
    + destruct P as [->|[-> _]]; [exact A|cbn; lia].
    + rewrite F. exact B.
    + destruct G as [->| ->]; [exact C|cbn; lia].
  - intros Hc. specialize (H2 Hc). destruct G as [->| ->]; [exact H2|cbn; lia].
Qed.

Lemma parse_token_spec id d l ns ug rtl ns' p tl :
  (forall u, ug = Some u -> Inside ns u) ->
  (forall u, ug = Some u -> exists n, nth_error ns u = Some n /\ is_group_like (n_def n) = true) ->
  (forall u, ug = Some u -> u < id) ->
  parse_token id d l ns ug rtl = Ok (ns', p, tl) ->
  ge_top l ug ->
  Rel id ug ns ns' /\ ge_top p ug /\ gt_top tl ug /\ in_range ns p /\ in_range ns tl /\
  (d = D_SideEffect -> rtl = false -> forall pp, p = Some pp ->
     exists pn, nth_error ns pp = Some pn /\ (n_def pn <> D_SideEffect \/ ug = Some pp)).
Proof.
  intros Hin Hgr Hid H Hl. unfold parse_token in H.
  unfold prio_of in H. destruct (priority d) as [my|] eqn:Ep; cbn [bind] in H; [|discriminate H].
  destruct (walk _ ns id my _ rtl ug l l 0) as [[pa tr]| | |] eqn:Ew; cbn [bind] in H; try discriminate H.
  remember (S (length ns)) as fu eqn:Hfu. clear Hfu.
  (* the walk starts with current_left = true_left = l; the strict bound on true_left is only
     needed once the walk has moved, so run the spec with the weaker start by cases *)
  assert (W : ge_top pa ug /\ gt_top (if opt_nat_eqb pa tr then None else tr) ug /\ in_range ns pa /\ in_range ns tr /\
              (definition_eqb d D_SideEffect = true -> my = 5%N -> rtl = false -> forall pp, pa = Some pp ->
                 exists pn, nth_error ns pp = Some pn /\ (n_def pn <> D_SideEffect \/ ug = Some pp))).
  { destruct l as [li|].
    - (* first iteration by hand *)
      cbn [walk] in Ew. destruct (nth_error ns li) as [n|] eqn:En; [|discriminate Ew].
      assert (Hlr : in_range ns (Some li)) by (cbn; apply nth_error_Some; rewrite En; discriminate).
      unfold prio_of in Ew. destruct (priority (n_def n)) as [their|] eqn:Ep2; cbn [bind] in Ew; [|discriminate Ew].
      match type of Ew with (if ?c then _ else _) = _ => destruct c eqn:Ec end.
      + injection Ew as <- <-. cbn [opt_nat_eqb]. rewrite Nat.eqb_refl.
        split; [exact Hl|]. split; [destruct ug; exact I|]. split; [exact Hlr|]. split; [exact Hlr|].
        intros Hse -> -> pp Hpp. injection Hpp as <-. exists n. split; [exact En|].
        apply orb_true_iff in Ec. destruct Ec as [Ec|Ec].
        * left. intros Hd. rewrite Hd in Ep2. cbn in Ep2. injection Ep2 as <-.
          apply andb_true_iff in Ec. destruct Ec as [_ Ec]. rewrite andb_false_r in Ec. cbn in Ec. discriminate Ec.
        * right. apply andb_true_iff in Ec. destruct Ec as [_ Ec]. destruct ug as [u|]; [|discriminate Ec].
          apply Nat.eqb_eq in Ec. subst u. reflexivity.
      + destruct (opt_nat_eqb (n_right n) (Some id)); [discriminate Ew|].
        destruct (Nat.ltb (length ns) 1); [discriminate Ew|].
        assert (Hne : forall u, ug = Some u -> li <> u).
        { intros u Hu ->. destruct (Hgr u Hu) as (un & Hun & Hg). rewrite En in Hun. injection Hun as <-.
          rewrite Hu, Hg, Nat.eqb_refl in Ec. cbn in Ec. rewrite orb_true_r in Ec. discriminate Ec. }
        destruct (walk_spec ns id my (definition_eqb d D_SideEffect) rtl ug Hin Hgr _ _ _ _ _ _ Ew) as (A & B & C & D & E).
        * destruct ug as [u|] eqn:Eu; [|exact I]. cbn in Hl |- *.
          destruct (Hin u eq_refl li n En) as [Hgt _]. apply Hgt. specialize (Hne u eq_refl). lia.
        * destruct ug as [u|] eqn:Eu; [|exact I]. cbn in Hl |- *. specialize (Hne u eq_refl). lia.
        * exact Hlr.
        * split; [exact A|]. split; [destruct (opt_nat_eqb pa tr); [destruct ug; exact I|exact B]|].
          split; [exact C|]. split; [exact D|]. exact E.
    - cbn [walk] in Ew. injection Ew as <- <-. cbn [opt_nat_eqb].
      split; [destruct ug; exact I|]. split; [destruct ug; exact I|]. split; [exact I|]. split; [exact I|].
      intros _ _ _ pp Hpp. discriminate Hpp. }
  destruct W as (Wp & Wt & Wpr & Wtr & Wse).
  assert (Htl1r : in_range ns (if opt_nat_eqb pa tr then None else tr)) by (destruct (opt_nat_eqb pa tr); [exact I|exact Wtr]).
  set (tl1 := if opt_nat_eqb pa tr then None else tr) in *.
  assert (G : forall ns1, Rel id ug ns ns1 ->
    match pa with
    | None => Ok (ns1, pa, tl1)
    | Some ix =>
      match nth_error ns1 ix with
      | None => impl_err
      | Some pn =>
        match upd ns1 ix (set_right (Some id)) with
        | None => impl_err
        | Some nodes2 =>
          match n_right pn with
          | None => Ok (nodes2, pa, tl1)
          | Some r => match upd nodes2 r (set_parent (Some id)) with
                      | None => Ok (nodes2, pa, tl1)
                      | Some nodes3 => Ok (nodes3, pa, Some r)
                      end
          end
        end
      end
    end = Ok (ns', p, tl) ->
    Rel id ug ns ns' /\ ge_top p ug /\ gt_top tl ug /\ in_range ns p /\ in_range ns tl).
  { intros ns1 R1. destruct pa as [pix|].
    - destruct (nth_error ns1 pix) as [pn|] eqn:Epn; [|discriminate].
      destruct (upd ns1 pix (set_right (Some id))) as [ns2|] eqn:E2; [|discriminate].
      pose proof (Rel_trans _ _ _ _ _ R1 (Rel_upd_right id ug _ _ _ E2)) as R2.
      destruct (n_right pn) as [r|] eqn:Er.
      + destruct (upd ns2 r (set_parent (Some id))) as [ns3|] eqn:E3.
        * intros HH. injection HH as <- <- <-.
          assert (Hr : gt_top (Some r) ug).
          { destruct ug as [u|] eqn:Eu; [|exact I]. cbn in Wp |- *.
            assert (HI1 : Inside ns1 u) by (apply (Inside_Rel id (Some u) ns ns1 u R1 (Hid u eq_refl)), Hin; reflexivity).
            destruct (HI1 pix pn Epn) as [H1 H2].
            destruct (Nat.eq_dec pix u) as [->|Hne]; [specialize (H2 eq_refl)|destruct H1 as (_ & _ & H1); [lia|]];
              rewrite Er in *; cbn in *; lia. }
          split; [exact (Rel_trans _ _ _ _ _ R2 (Rel_upd_parent id ug _ _ _ E3 Hr))|].
          split; [exact Wp|]. split; [exact Hr|]. split; [exact Wpr|].
          cbn. destruct (upd_some_nth _ _ _ _ E3) as [x Hx].
          destruct R2 as [L2 _]. rewrite <- L2. apply nth_error_Some. rewrite Hx. discriminate.
        * intros HH. injection HH as <- <- <-. split; [exact R2|]. split; [exact Wp|]. split; [exact Wt|]. split; [exact Wpr|exact Htl1r].
      + intros HH. injection HH as <- <- <-. split; [exact R2|]. split; [exact Wp|]. split; [exact Wt|]. split; [exact Wpr|exact Htl1r].
    - intros HH. injection HH as <- <- <-. split; [exact R1|]. split; [exact Wp|]. split; [exact Wt|]. split; [exact I|exact Htl1r]. }
  assert (Hfin : Rel id ug ns ns' /\ ge_top p ug /\ gt_top tl ug /\ in_range ns p /\ in_range ns tl /\ p = pa).
  { assert (Hp : p = pa).
    { revert H. destruct tl1 as [ix|].
      - destruct (upd ns ix _); cbn [bind]; [|discriminate].
        destruct pa as [pix|]; [|intros HH; injection HH as _ <- _; reflexivity].
        destruct (nth_error _ pix); [|discriminate]. destruct (upd _ pix _); [|discriminate].
        destruct (n_right _); [destruct (upd _ _ _)|]; intros HH; injection HH as _ <- _; reflexivity.
      - cbn [bind]. destruct pa as [pix|]; [|intros HH; injection HH as _ <- _; reflexivity].
        destruct (nth_error _ pix); [|discriminate]. destruct (upd _ pix _); [|discriminate].
        destruct (n_right _); [destruct (upd _ _ _)|]; intros HH; injection HH as _ <- _; reflexivity. }
    destruct tl1 as [ix|] eqn:Etl1.
    - destruct (upd ns ix (set_parent (Some id))) as [ns1|] eqn:E1; cbn [bind] in H; [|discriminate H].
      destruct (G ns1 (Rel_upd_parent id ug _ _ _ E1 Wt) H) as (A & B & C & D & E). split; [exact A|]. split; [exact B|]. split; [exact C|]. split; [exact D|]. split; [exact E|exact Hp].
    - cbn [bind] in H. destruct (G ns (Rel_refl id ug ns) H) as (A & B & C & D & E). split; [exact A|]. split; [exact B|]. split; [exact C|]. split; [exact D|]. split; [exact E|exact Hp]. }
  destruct Hfin as (A & B & C & D & E & Hp). split; [exact A|]. split; [exact B|]. split; [exact C|]. split; [exact D|]. split; [exact E|].
  intros Hd Hr pp Hpp. subst p. apply (Wse ltac:(rewrite Hd; reflexivity)); [|exact Hr|exact Hpp].
  rewrite Hd in Ep. cbn in Ep. injection Ep as <-. reflexivity.
Qed.

(* ---- a coarser relation: what any arm may do to existing nodes, seen from the innermost
   open group [u] ---- *)
Definition GRel (u : nat) (ns ns' : list pnode) : Prop :=
  length ns' = length ns /\
  forall c n', nth_error ns' c = Some n' ->
    exists n, nth_error ns c = Some n /\ n_def n' = n_def n /\ n_left n' = n_left n /\
      (n_parent n' = n_parent n \/ (u < c /\ oge (n_parent n') u)) /\
      (n_right n' = n_right n \/ n_right n' = None \/ ogt (n_right n') u).

Lemma GRel_refl u ns : GRel u ns ns.
Proof. split; [reflexivity|]. intros c n' H. exists n'. repeat split; auto. Qed.

Lemma GRel_trans u a b c : GRel u a b -> GRel u b c -> GRel u a c.
Proof.
  intros [L1 R1] [L2 R2]. split; [lia|]. intros k n'' H.
  destruct (R2 k n'' H) as (n' & Hn' & D2 & F2 & P2 & G2).
  destruct (R1 k n' Hn') as (n & Hn & D1 & F1 & P1 & G1).
  exists n. split; [exact Hn|]. split; [congruence|]. split; [congruence|]. split.
  - destruct P2 as [P2|P2]; [|right; exact P2]. destruct P1 as [P1|P1]; [left; congruence|right].
    rewrite P2. exact P1.
  - destruct G2 as [G2|[G2|G2]]; [|right; left; exact G2|right; right; exact G2].
    rewrite G2. exact G1.
Qed.

Lemma Rel_GRel id u ns ns' : Rel id (Some u) ns ns' -> u < id -> GRel u ns ns'.
Proof.
  intros [L R] Hid. split; [exact L|]. intros c n' H. destruct (R c n' H) as (n & Hn & D & F & P & G).
  exists n. split; [exact Hn|]. split; [exact D|]. split; [exact F|]. split.
  - destruct P as [P|[P Q]]; [left; exact P|right]. cbn in Q. split; [exact Q|]. rewrite P. cbn. lia.
  - destruct G as [G|G]; [left; exact G|right; right]. rewrite G. cbn. lia.
Qed.

Lemma GRel_upd u ns k f ns' :
  upd ns k f = Some ns' ->
  (forall x, nth_error ns k = Some x ->
     n_def (f x) = n_def x /\ n_left (f x) = n_left x /\
     (n_parent (f x) = n_parent x \/ (u < k /\ oge (n_parent (f x)) u)) /\
     (n_right (f x) = n_right x \/ n_right (f x) = None \/ ogt (n_right (f x)) u)) ->
  GRel u ns ns'.
Proof.
  intros Hu Hf. split; [exact (upd_length' _ _ _ _ Hu)|]. intros c n' H.
  destruct (Nat.eq_dec c k) as [->|Hne].
  - destruct (upd_some_nth _ _ _ _ Hu) as [x Hx]. rewrite (nth_upd_same _ _ _ _ _ Hu Hx) in H. injection H as <-.
    exists x. split; [exact Hx|]. exact (Hf x Hx).
  - rewrite (nth_upd_other _ _ _ _ _ Hu Hne) in H. exists n'. repeat split; auto.
Qed.

Lemma Inside_GRel u ns ns' g : GRel u ns ns' -> g <= u -> Inside ns g -> Inside ns' g.
Proof.
  intros [_ R] Hg HI c n' H. destruct (R c n' H) as (n & Hn & _ & F & P & G).
  destruct (HI c n Hn) as [H1 H2]. split.
  - intros Hc. destruct (H1 Hc) as (A & B & C). split; [|split].
    + destruct P as [->|[_ P]]; [exact A|]. exact (oge_le _ _ _ Hg P).
    + rewrite F. exact B.
    + destruct G as [->|[->|G]]; [exact C|exact I|exact (ogt_le _ _ _ Hg G)].
  - intros Hc. specialize (H2 Hc). destruct G as [->|[->|G]]; [exact H2|exact I|exact (ogt_le _ _ _ Hg G)].
Qed.

Lemma shape2_same n n' : n_def n' = n_def n -> n_left n' = n_left n -> shape2 n' = shape2 n.
Proof. unfold shape2. intros -> ->. reflexivity. Qed.

Lemma Pchain_GRel u ns ns' : GRel u ns ns' -> forall r, (forall g, In g r -> g <= u) -> Pchain ns r -> Pchain ns' r.
Proof.
  intros [L R]. induction r as [|g r IH]; intros Hle H; [exact I|].
  destruct H as [He Hr]. split; [|apply IH; [intros x Hx; apply Hle; right; exact Hx|exact Hr]].
  intros n' p Hn' Hd Hl Hp. destruct (R g n' Hn') as (n & Hn & D & F & P & _).
  assert (Hpar : n_parent n = Some p).
  { destruct P as [P|[P _]]; [congruence|]. specialize (Hle g (or_introl eq_refl)). lia. }
  destruct (He n p Hn ltac:(congruence) ltac:(congruence) Hpar) as (pn & Hpn & Hs).
  assert (Hp' : p < length ns') by (rewrite L; apply nth_error_Some; rewrite Hpn; discriminate).
  destruct (nth_error ns' p) as [pn'|] eqn:Epn'; [|apply nth_error_None in Epn'; lia].
  exists pn'. split; [reflexivity|]. destruct (R p pn' Epn') as (pn0 & Hpn0 & D0 & F0 & _). rewrite Hpn in Hpn0. injection Hpn0 as <-.
  destruct Hs as [Hs|Hs]; [left|right; exact Hs]. rewrite (shape2_same _ _ D0 F0). exact Hs.
Qed.

Lemma WF_GRel u ns ns' stk : WF ns stk -> hd_error stk = Some u -> GRel u ns ns' -> WF ns' stk.
Proof.
  intros W Hu R. destruct stk as [|u' r]; [discriminate Hu|]. injection Hu as ->.
  assert (Hmax : forall g, In g (u :: r) -> g <= u) by (intros g Hg; exact (dec_top_max u r g (wf_dec _ _ W) Hg)).
  destruct R as [L R]. constructor.
  - exact (wf_dec _ _ W).
  - intros g Hg. rewrite L. exact (wf_range _ _ W g Hg).
  - intros g Hg. destruct (wf_group _ _ W g Hg) as (n & Hn & Hgl).
    assert (Hlt : g < length ns') by (rewrite L; apply nth_error_Some; rewrite Hn; discriminate).
    destruct (nth_error ns' g) as [n'|] eqn:En'; [|apply nth_error_None in En'; lia].
    exists n'. split; [reflexivity|]. destruct (R g n' En') as (n0 & Hn0 & D & _). rewrite Hn in Hn0. injection Hn0 as <-.
    rewrite D. exact Hgl.
  - intros g Hg. apply (Inside_GRel u ns ns' g (conj L R) (Hmax g Hg)), (wf_inside _ _ W g Hg).
  - apply (Pchain_GRel u ns ns' (conj L R)); [exact Hmax|exact (wf_chain _ _ W)].
Qed.

Lemma WF_nil ns : WF ns [].
Proof. constructor; try (intros g []); [constructor|exact I]. Qed.

(* pushing a node *)
Lemma WF_push ns stk x :
  WF ns stk -> (forall g, In g stk -> oge (n_parent x) g /\ ogt (n_left x) g /\ ogt (n_right x) g) ->
  WF (ns ++ [x]) stk.
Proof.
  intros W Hx. constructor.
  - exact (wf_dec _ _ W).
  - intros g Hg. rewrite app_length. pose proof (wf_range _ _ W g Hg). lia.
  - intros g Hg. destruct (wf_group _ _ W g Hg) as (n & Hn & Hgl). exists n. split; [|exact Hgl].
    rewrite nth_error_app1; [exact Hn|]. exact (wf_range _ _ W g Hg).
  - intros g Hg c n Hn. pose proof (wf_range _ _ W g Hg) as Hr.
    destruct (Nat.lt_ge_cases c (length ns)) as [Hc|Hc].
    + rewrite nth_error_app1 in Hn by exact Hc. exact (wf_inside _ _ W g Hg c n Hn).
    + rewrite nth_error_app2 in Hn by exact Hc. destruct (c - length ns) as [|k] eqn:Ek; cbn [nth_error] in Hn.
      * injection Hn as <-. split; [intros _; exact (Hx g Hg)|intros ->; lia].
      * destruct k; discriminate Hn.
  - pose proof (wf_chain _ _ W) as C. pose proof (wf_range _ _ W) as Rg. clear W Hx.
    induction stk as [|g r IH]; [exact I|]. destruct C as [He Hr]. split.
    + intros n p Hn Hd Hl Hp. rewrite nth_error_app1 in Hn by (apply Rg; left; reflexivity).
      destruct (He n p Hn Hd Hl Hp) as (pn & Hpn & Hs). exists pn. split; [|exact Hs].
      rewrite nth_error_app1; [exact Hpn|]. apply nth_error_Some. rewrite Hpn. discriminate.
    + apply IH; [exact Hr|]. intros x' Hx'. apply Rg. right. exact Hx'.
Qed.

Lemma bounds_top stk (o1 o2 o3 : option nat) :
  StronglySorted (fun a b => b < a) stk ->
  ge_top o1 (hd_error stk) -> gt_top o2 (hd_error stk) -> gt_top o3 (hd_error stk) ->
  forall g, In g stk -> oge o1 g /\ ogt o2 g /\ ogt o3 g.
Proof.
  intros Hs H1 H2 H3 g Hg. destruct stk as [|u r]; [destruct Hg|]. cbn [hd_error ge_top gt_top] in *.
  pose proof (dec_top_max u r g Hs Hg) as Hle.
  split; [exact (oge_le _ _ _ Hle H1)|]. split; [exact (ogt_le _ _ _ Hle H2)|exact (ogt_le _ _ _ Hle H3)].
Qed.

(* popping the innermost group *)
Lemma WF_pop ns g r : WF ns (g :: r) -> WF ns r.
Proof.
  intros W. constructor.
  - pose proof (wf_dec _ _ W) as H. inversion H; assumption.
  - intros x Hx. apply (wf_range _ _ W). right. exact Hx.
  - intros x Hx. apply (wf_group _ _ W). right. exact Hx.
  - intros x Hx. apply (wf_inside _ _ W). right. exact Hx.
  - exact (proj2 (wf_chain _ _ W)).
Qed.

(* opening a group at the node just pushed (the last one) *)
Lemma WF_open ns stk g n :
  WF ns stk -> S g = length ns -> nth_error ns g = Some n -> is_group_like (n_def n) = true ->
  ogt (n_right n) g -> (forall x, In x stk -> x < g) -> Pentry ns (hd_error stk) g ->
  WF ns (g :: stk).
Proof.
  intros W Hlen Hn Hgl Hr Hlt Hp. constructor.
  - constructor; [exact (wf_dec _ _ W)|]. apply Forall_forall. exact Hlt.
  - intros x [<-|Hx]; [lia|exact (wf_range _ _ W x Hx)].
  - intros x [<-|Hx]; [exists n; split; assumption|exact (wf_group _ _ W x Hx)].
  - intros x [<-|Hx]; [|exact (wf_inside _ _ W x Hx)].
    intros c m Hm. assert (Hc : c < length ns) by (apply nth_error_Some; rewrite Hm; discriminate).
    split; [intros; lia|]. intros ->. rewrite Hn in Hm. injection Hm as <-. exact Hr.
  - split; [exact Hp|exact (wf_chain _ _ W)].
Qed.
