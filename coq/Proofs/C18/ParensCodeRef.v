(* C18, result half for parentheses: the end-to-end statement reduced to a fact about the
   REFERENCE parser alone.  If the reference trees of two token lists differ only by round
   brackets put around value tokens or around bracketed groups (and by where the tokens
   stand), the builder model emits the same code for both. *)
From Coq Require Import List Arith Bool NArith Lia.
From GV Require Import Base.Result Gen.TokenTypes Gen.Defs Gen.Instr Model.Parser Model.BuilderWL Model.Compile
  Spec.RefTable Spec.Pratt Spec.Chains Spec.Layout
  Proofs.C02.Spine Proofs.C02.Denote Proofs.C02.Chains Proofs.C02.OpExpr Proofs.C02.Full
  Proofs.C05.Known Proofs.C05.InlBase Proofs.Builder.PrattBridge Proofs.Builder.Transport
  Proofs.C18.ViaPratt Proofs.C18.GroupSim Proofs.C18.ParensCode.
Import ListNotations.

(* an operand that may be put in round brackets: a value token (not an identifier that is
   the right operand of `.`: [ctx]) or a bracketed group *)
Definition wrappable (ctx : bool) (R : rtree) : bool :=
  match R with
  | RAtom d _ => negb (ctx && definition_eqb d D_Identifier)
  | RGroup _ _ _ => true
  | _ => false
  end.

Section Ref.
Variable sigma : nat -> nat.

(* R' is R with round brackets around wrappable operands; a token at k in the plain list
   stands at [sigma k] in the bracketed one *)
Fixpoint rrel (ctx : bool) (R' R : rtree) {struct R'} : Prop :=
  match R' with
  | RAtom d k' => match R with RAtom d0 k => d = d0 /\ k' = sigma k | _ => False end
  | RPre d k' x' => match R with RPre d0 k x => d = d0 /\ k' = sigma k /\ rrel false x' x | _ => False end
  | RSuf d k' x' => match R with RSuf d0 k x => d = d0 /\ k' = sigma k /\ rrel false x' x | _ => False end
  | RBin d k' l' r' =>
    match R with
    | RBin d0 k l r => d = d0 /\ k' = option_map sigma k /\ rrel false l' l /\ rrel (definition_eqb d D_Access) r' r
    | _ => False
    end
  | RGroup b k' x' =>
    (match R with RGroup b0 k x => b = b0 /\ k' = sigma k /\ rrel false x' x | _ => False end)
    \/ (b = BRound /\ wrappable ctx R = true /\ rrel false x' R)
  end.

Definition lo_ok (lo : option definition) : Prop := match lo with Some d0 => kind_of d0 = KList | None => True end.

Lemma lo_ok_clo d : lo_ok (clo d).
Proof. unfold clo, lo_ok. destruct (kind_of d) eqn:K; auto. Qed.

Lemma neutral_plain lo cond d : lo_ok lo ->
  match kind_of d with KList | KJumpIf _ | KElse => False | _ => True end -> neutral lo cond d = true.
Proof.
  intros Hlo Hk. unfold neutral. apply andb_true_iff. split.
  - apply negb_true_iff. destruct lo as [d0|]; [|reflexivity]. destruct (definition_eqb d0 d) eqn:E; [|reflexivity].
    apply definition_eqb_eq in E. subst d0. cbn in Hlo. rewrite Hlo in Hk. contradiction.
  - destruct (kind_of d); try contradiction; apply orb_true_r.
Qed.

Lemma prio10_kind d : priority d = Some 10%N -> match kind_of d with KList | KJumpIf _ | KElse => False | _ => True end.
Proof. destruct d; intros H; try exact I; vm_compute in H; discriminate H. Qed.

Variables ns' ns : list pnode.
Variables lit' lit : nat -> bool.
Variables a' a : nat.
Hypothesis Hlit : forall i' i, tokl ns' i' + a' = sigma (tokl ns i + a) -> lit' i' = lit i.

Lemma wfd_wrappable ctx A : wrappable ctx (shift_rtree a (erase A)) = true -> wfd ctx A -> wfd false A.
Proof.
  destruct A as [i d k|i d k x|i d k x|i d k l r|bk i k x]; cbn [erase shift_rtree wrappable wfd]; try discriminate; auto.
  intros Hw H. apply negb_true_iff in Hw. unfold store_def in *. rewrite Hw in H. cbn [andb]. exact H.
Qed.

Lemma erase_rrel : forall A' A p' p ctx lo cond, lo_ok lo ->
  denotes ns' p' A' -> denotes ns p A -> wfd ctx A' -> wfd ctx A ->
  rrel ctx (shift_rtree a' (erase A')) (shift_rtree a (erase A)) ->
  grel lit' lit (fun i => tokl ns' i + a') (fun i => sigma (tokl ns i + a)) lo cond (img A') (img A).
Proof.
  induction A' as [i d k|i d k x IH|i d k x IH|i d k l IHl r IHr|bk i k x IH];
    intros A p' p ctx lo cond Hlo DA DB WA WB H.
  5:{ cbn [erase shift_rtree rrel] in H. destruct H as [H|(-> & Hw & H)].
      2:{ cbn [img bdef]. cbn [denotes] in DA. destruct DA as (n' & _ & _ & _ & _ & _ & _ & _ & DA). cbn [wfd] in WA.
          apply grel_group_intro.
          - apply neutral_plain; [exact Hlo|].
            destruct A as [i0 d0 k0|i0 d0 k0 x0|i0 d0 k0 x0|i0 d0 k0 l0 r0|bk0 i0 k0 x0]; cbn [erase shift_rtree wrappable] in Hw; try discriminate Hw;
              cbn [img t_def].
            + cbn [denotes] in DB. destruct DB as (n & _ & (_ & Hd & Hp & _)). rewrite Hd in Hp. apply prio10_kind. exact Hp.
            + destruct bk0; exact I.
          - eapply (IH A _ _ false None false I DA DB WA); [eapply wfd_wrappable; eassumption|exact H]. }
      destruct A as [i0 d0 k0|i0 d0 k0 x0|i0 d0 k0 x0|i0 d0 k0 l0 r0|bk0 i0 k0 x0]; cbn [erase shift_rtree] in H; try contradiction.
      destruct H as (-> & Hk & H). cbn [img]; cbn [wfd] in WA, WB; cbn [denotes] in DA, DB.
      destruct DA as (n' & Hn' & DA); destruct DB as (n & Hn & DB).
      destruct DA as (_ & _ & _ & _ & _ & Ht' & DA). destruct DB as (_ & _ & _ & _ & _ & Ht & DB).
      assert (E : tokl ns' i + a' = sigma (tokl ns i0 + a)) by (rewrite (tokl_at _ _ _ _ Hn' Ht'), (tokl_at _ _ _ _ Hn Ht); exact Hk).
      apply grel_node_intro; try exact I; try (intros _; exact E); try (intros _; apply Hlit; exact E).
      cbn [orel]. eapply IH; try eassumption. apply lo_ok_clo. }
  all: destruct A as [i0 d0 k0|i0 d0 k0 x0|i0 d0 k0 x0|i0 d0 k0 l0 r0|bk0 i0 k0 x0]; cbn [erase shift_rtree rrel] in H; try contradiction;
    cbn [img]; cbn [wfd] in WA, WB; cbn [denotes] in DA, DB;
    destruct DA as (n' & Hn' & DA); destruct DB as (n & Hn & DB).
  - destruct H as (H & Hk). destruct DA as (_ & _ & _ & _ & _ & _ & Ht'). destruct DB as (_ & _ & _ & _ & _ & _ & Ht).
    assert (E : tokl ns' i + a' = sigma (tokl ns i0 + a)) by (rewrite (tokl_at _ _ _ _ Hn' Ht'), (tokl_at _ _ _ _ Hn Ht); exact Hk).
    rewrite WA, WB, H. apply grel_node_intro; [intros _; exact E|intros _; apply Hlit; exact E|exact I|exact I].
  - destruct H as (-> & Hk & H). destruct DA as (_ & _ & _ & _ & _ & Ht' & DA). destruct DB as (_ & _ & _ & _ & _ & Ht & DB).
    assert (E : tokl ns' i + a' = sigma (tokl ns i0 + a)) by (rewrite (tokl_at _ _ _ _ Hn' Ht'), (tokl_at _ _ _ _ Hn Ht); exact Hk).
    apply grel_node_intro; try exact I; try (intros _; exact E); try (intros _; apply Hlit; exact E).
    cbn [orel]. eapply IH; try eassumption. apply lo_ok_clo.
  - destruct H as (-> & Hk & H). destruct DA as (_ & _ & _ & _ & _ & Ht' & DA). destruct DB as (_ & _ & _ & _ & _ & Ht & DB).
    assert (E : tokl ns' i + a' = sigma (tokl ns i0 + a)) by (rewrite (tokl_at _ _ _ _ Hn' Ht'), (tokl_at _ _ _ _ Hn Ht); exact Hk).
    apply grel_node_intro; try exact I; try (intros _; exact E); try (intros _; apply Hlit; exact E).
    cbn [orel]. eapply IH; try eassumption. apply lo_ok_clo.
  - destruct H as (-> & Hk & Hl & Hr). destruct WA as [WA1 WA2], WB as [WB1 WB2].
    destruct DA as (SA & _ & _ & _ & DAl & DAr). destruct DB as (SB & _ & _ & _ & DBl & DBr).
    assert (E : uses_data d0 = true -> tokl ns' i + a' = sigma (tokl ns i0 + a)).
    { intros Hu. destruct SA as (_ & [(_ & tk' & -> & Ht')|[(_ & -> & _)|(_ & tk' & -> & Ht')]]); try (vm_compute in Hu; discriminate Hu);
        destruct SB as (_ & [(_ & tk & -> & Ht)|[(_ & _ & ->)|(_ & tk & -> & Ht)]]); cbn [option_map] in Hk; try discriminate Hk;
        injection Hk as Hk; rewrite (tokl_at _ _ _ _ Hn' Ht'), (tokl_at _ _ _ _ Hn Ht); exact Hk. }
    apply grel_node_intro; [exact E|intros Hu; apply Hlit, E, Hu| |]; cbn [orel]; [eapply IHl|eapply IHr]; try eassumption; apply lo_ok_clo.
Qed.
End Ref.

Theorem rrel_same_code sigma toks toks' R R' :
  pratt toks = Some R -> pratt toks' = Some R' -> rrel sigma false R' R ->
  same_code_of_builds sigma toks toks'.
Proof.
  unfold same_code_of_builds. intros Hpr Hpr' HR.
  destruct (pratt_parse_wfd _ _ Hpr) as (Tn & ns & Hp & Ht & Hw & HD & Hu).
  destruct (pratt_parse_wfd _ _ Hpr') as (Tn' & ns' & Hp' & Ht' & Hw' & HD' & Hu').
  exists (nid Tn), ns, (nid Tn'), ns'. split; [exact Hp|]. split; [exact Hp'|].
  intros init lit lit' fuel fuel' r r' Hlit Hb Hb'. subst R R'.
  assert (Hg : grel lit' lit (fun i => tokl ns' i + fst (trim_tokens toks')) (fun i => sigma (tokl ns i + fst (trim_tokens toks)))
                    None false (img Tn') (img Tn)).
  { refine (erase_rrel sigma ns' ns lit' lit _ _ _ Tn' Tn None None false None false I HD' HD Hw' Hw HR).
    intros j' j E. apply Hlit. exact E. }
  pose proof (compile_agrees_full_proof _ _ _ _ _ _ _ Ht Hb) as Hc.
  pose proof (compile_agrees_full_proof _ _ _ _ _ _ _ Ht' Hb') as Hc'.
  destruct (compile_sim init lit' lit _ _ _ _ _ _ Hg Hc) as (c' & Hc2 & Hv1 & Hv2).
  rewrite Hc' in Hc2. injection Hc2 as <- Hs. cbn [ci cj] in Hv1, Hv2.
  split; [exact Hv1|]. split; [exact Hv2|exact Hs].
Qed.
