(* What C04 means: the parse result is a proper binary tree whose in-order walk
   visits every significant token once, in source order, and every value /
   operator node is attributed an instruction.  Boolean checkers (they run in
   the bounded theorems and in the extracted driver) with their Prop reading. *)
From Coq Require Import List Arith Bool NArith Lia.
From GV Require Import Base.Result Gen.TokenTypes Gen.Defs Gen.Instr Model.Parser Model.BuilderWL.
Import ListNotations.

Definition child_ok (ns : list pnode) (i : nat) (c : option nat) : bool :=
  match c with
  | None => true
  | Some k => match nth_error ns k with
              | Some cn => opt_nat_eqb (n_parent cn) (Some i)
              | None => false
              end
  end.

Definition parent_ok (ns : list pnode) (root i : nat) (n : pnode) : bool :=
  if Nat.eqb i root then match n_parent n with None => true | Some _ => false end
  else match n_parent n with
       | None => false
       | Some p => match nth_error ns p with
                   | Some pn => opt_nat_eqb (n_left pn) (Some i) || opt_nat_eqb (n_right pn) (Some i)
                   | None => false
                   end
       end.

Fixpoint forallb_i {A} (f : nat -> A -> bool) (i : nat) (l : list A) : bool :=
  match l with
  | [] => true
  | x :: r => f i x && forallb_i f (S i) r
  end.

(* per-node link check, for the nodes the walk visits *)
Definition node_links_ok (ns : list pnode) (i : nat) : bool :=
  match nth_error ns i with
  | Some n =>
    child_ok ns i (n_left n) && child_ok ns i (n_right n)
    && negb (match n_left n, n_right n with Some a, Some b => Nat.eqb a b | _, _ => false end)
  | None => false
  end.

(* a node the walk does not reach must be a dropped (redundant) separator *)
Definition is_separator_node (n : pnode) : bool :=
  definition_eqb (n_def n) D_Subexpression || definition_eqb (n_def n) D_ExpressionSeparator.

(* in-order walk with an explicit stack and fuel (None: fuel exhausted = a cycle) *)
Fixpoint inorder_go (fuel : nat) (ns : list pnode) (stack : list nat) (cur : option nat) (acc : list nat) : option (list nat) :=
  match fuel with
  | O => None
  | S f =>
    match cur with
    | Some c =>
      match nth_error ns c with
      | Some n => inorder_go f ns (c :: stack) (n_left n) acc
      | None => None
      end
    | None =>
      match stack with
      | [] => Some (rev acc)
      | c :: rest =>
        match nth_error ns c with
        | Some n => inorder_go f ns rest (n_right n) (c :: acc)
        | None => None
        end
      end
    end
  end.

Definition inorder (ns : list pnode) (root : nat) : option (list nat) :=
  inorder_go (4 * length ns + 4) ns [] (Some root) [].

Fixpoint nodup_b (l : list nat) : bool :=
  match l with
  | [] => true
  | x :: r => negb (existsb (Nat.eqb x) r) && nodup_b r
  end.

Definition proper_tree_b (ns : list pnode) (root : nat) : bool :=
  match ns with
  | [] => true
  | _ =>
    match nth_error ns root with
    | Some rn => match n_parent rn with None => true | Some _ => false end
    | None => false
    end &&
    match inorder ns root with
    | Some o =>
      nodup_b o && forallb (node_links_ok ns) o &&
      forallb_i (fun i n => existsb (Nat.eqb i) o || is_separator_node n) 0 ns
    | None => false
    end
  end.

(* tokens that may legitimately have no node *)
Definition is_trivia (t : token_type) : bool :=
  match t with
  | TT_Whitespace | TT_Annotation | TT_LineAnnotation | TT_EndGroup | TT_EndExpression
  | TT_EndSideEffect | TT_Subexpression | TT_ExpressionSeparator => true
  | _ => false
  end.

Definition synthesised (n : pnode) : bool :=
  definition_eqb (n_def n) D_List && secondary_eqb (n_sec n) S_StartGrouping.

Fixpoint strictly_increasing (l : list nat) : bool :=
  match l with
  | a :: ((b :: _) as r) => Nat.ltb a b && strictly_increasing r
  | _ => true
  end.

(* [off]: how many tokens trim_tokens cut at the front *)
Definition tokens_in_order_b (toks : list token_type) (off : nat) (ns : list pnode) (root : nat) : bool :=
  match ns with
  | [] => true
  | _ =>
    match inorder ns root with
    | None => false
    | Some o =>
      let seq := flat_map (fun i => match nth_error ns i with
                                    | Some n => if synthesised n then [] else
                                                  match n_tok n with Some t => [t + off] | None => [0] end
                                    | None => [] end) o in
      let no_empty := forallb (fun i => match nth_error ns i with
                                        | Some n => synthesised n || match n_tok n with Some _ => true | None => false end
                                        | None => false end) o in
      no_empty && strictly_increasing seq &&
      forallb_i (fun k t => is_trivia t || existsb (Nat.eqb k) seq) 0 toks
    end
  end.

Definition exempt_from_attribution (ns : list pnode) (n : pnode) : bool :=
  definition_eqb (n_def n) D_Group || definition_eqb (n_def n) D_ElseJump ||
  ((definition_eqb (n_def n) D_List || definition_eqb (n_def n) D_CommaList) &&
   match n_parent n with
   | Some p => match nth_error ns p with Some pn => definition_eqb (n_def pn) (n_def n) | None => false end
   | None => false
   end).

Definition covered_b (ns : list pnode) (s : bstate) : bool :=
  Nat.eqb (length (meta s)) (length (instrs s)) &&
  forallb_i (fun i n => exempt_from_attribution ns n ||
                        existsb (fun m => match m with Some k => Nat.eqb k i | None => false end) (meta s)) 0 ns.

(* attribution is asked of the nodes of the tree (those the walk reaches) *)
Definition covered_tree_b (ns : list pnode) (root : nat) (s : bstate) : bool :=
  Nat.eqb (length (meta s)) (length (instrs s)) &&
  match inorder ns root with
  | Some o => forallb (fun i => match nth_error ns i with
                                | Some n => exempt_from_attribution ns n ||
                                            existsb (fun m => match m with Some k => Nat.eqb k i | None => false end) (meta s)
                                | None => false end) o
  | None => match ns with [] => true | _ => false end
  end.

(* the whole of C04 on one token list, over the models *)
Definition c04_ok (toks : list token_type) : bool :=
  match parse toks with
  | Ok (root, ns) =>
    match build ns empty_init (fun _ => true) (build_fuel ns) root with
    | Ok (s, _) =>
      proper_tree_b ns root && tokens_in_order_b toks (fst (trim_tokens toks)) ns root && covered_tree_b ns root s
    | _ => true      (* build did not accept *)
    end
  | _ => true        (* parse did not accept *)
  end.
