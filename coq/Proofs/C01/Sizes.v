(* The sizes computed by Model/CompileExpr.sizesC are the lengths of the six
   components compC produces, for every position. *)
From Coq Require Import ZArith NArith List Bool Arith Lia.
From GV Require Import Base.Host Gen.Instr Model.Num Model.Value Model.Machine Model.CompileExpr Spec.Ast Spec.Eval.
Import ListNotations.

Section Sizes.
Variable sym_hash : list N -> N.
Notation compC := (compC sym_hash).

Definition sizes_ok (e : expr) : Prop :=
  forall ic cont lk pc j aob ajb ob jb jj,
  length (c_inl (compC ic cont lk e pc j aob ajb ob jb jj)) = ci (sizesC ic lk e) /\
  length (c_ji (compC ic cont lk e pc j aob ajb ob jb jj)) = cji (sizesC ic lk e) /\
  length (c_arms (compC ic cont lk e pc j aob ajb ob jb jj)) = cao (sizesC ic lk e) /\
  length (c_ajo (compC ic cont lk e pc j aob ajb ob jb jj)) = cajo (sizesC ic lk e) /\
  length (c_iool (compC ic cont lk e pc j aob ajb ob jb jj)) = cio (sizesC ic lk e) /\
  length (c_ijo (compC ic cont lk e pc j aob ajb ob jb jj)) = cijo (sizesC ic lk e).

Ltac split_ih IH :=
  let A := fresh "A" in let B := fresh "B" in let C := fresh "C" in
  let D := fresh "D" in let E := fresh "E" in let F := fresh "F" in
  pose proof (fun ic cont lk pc j aob ajb ob jb jj => proj1 (IH ic cont lk pc j aob ajb ob jb jj)) as A;
  pose proof (fun ic cont lk pc j aob ajb ob jb jj => proj1 (proj2 (IH ic cont lk pc j aob ajb ob jb jj))) as B;
  pose proof (fun ic cont lk pc j aob ajb ob jb jj => proj1 (proj2 (proj2 (IH ic cont lk pc j aob ajb ob jb jj)))) as C;
  pose proof (fun ic cont lk pc j aob ajb ob jb jj => proj1 (proj2 (proj2 (proj2 (IH ic cont lk pc j aob ajb ob jb jj))))) as D;
  pose proof (fun ic cont lk pc j aob ajb ob jb jj => proj1 (proj2 (proj2 (proj2 (proj2 (IH ic cont lk pc j aob ajb ob jb jj)))))) as E;
  pose proof (fun ic cont lk pc j aob ajb ob jb jj => proj2 (proj2 (proj2 (proj2 (proj2 (IH ic cont lk pc j aob ajb ob jb jj)))))) as F;
  clear IH.

Ltac projs :=
  cbn [to_frag of_frag to_sz of_sz f_inl f_ool f_ji f_jo c_inl c_ji c_arms c_ajo c_iool c_ijo
       ci cji cao cajo cio cijo cn si so sji sjo] in *.
Ltac len := repeat (rewrite app_length || cbn [length]).

Lemma compC_sizes : forall e, sizes_ok e.
Proof.
  induction e; unfold sizes_ok in *; intros ic cont lk pc j aob ajb ob jb jj.
  - cbn. repeat split.
  - cbn. repeat split.
  - cbn. repeat split.
  - (* EUn *) split_ih IHe. cbn [compC sizesC]. projs. len. rewrite ?A, ?B, ?C, ?D, ?E, ?F.
    projs. repeat split; lia.
  - (* EBin *) split_ih IHe1. split_ih IHe2. cbn [compC sizesC]. unfold sizes.
    destruct (right_first o); projs; len; rewrite ?A, ?B, ?C, ?D, ?E, ?F, ?A0, ?B0, ?C0, ?D0, ?E0, ?F0;
      projs; repeat split; lia.
  - (* EAnd *) split_ih IHe1. split_ih IHe2. cbn [compC sizesC]. unfold sizes, logical_ends.
    projs; len; rewrite ?A, ?B, ?C, ?D, ?E, ?F, ?A0, ?B0, ?C0, ?D0, ?E0, ?F0;
      projs; repeat split; lia.
  - (* EOr *) split_ih IHe1. split_ih IHe2. cbn [compC sizesC]. unfold sizes, logical_ends.
    projs; len; rewrite ?A, ?B, ?C, ?D, ?E, ?F, ?A0, ?B0, ?C0, ?D0, ?E0, ?F0;
      projs; repeat split; lia.
  - (* EList *) split_ih IHe1. split_ih IHe2. cbn [compC sizesC]. unfold sizes.
    destruct (in_list lk k); projs; len; rewrite ?A, ?B, ?C, ?D, ?E, ?F, ?A0, ?B0, ?C0, ?D0, ?E0, ?F0;
      projs; repeat split; lia.
  - (* EGroup *) split_ih IHe. cbn [compC sizesC]. projs. rewrite ?A, ?B, ?C, ?D, ?E, ?F.
    projs. repeat split; lia.
  - (* ECond *) split_ih IHe1. split_ih IHe2. cbn [compC sizesC]. unfold sizes.
    destruct ic; projs; len; rewrite ?A, ?B, ?C, ?D, ?E, ?F, ?A0, ?B0, ?C0, ?D0, ?E0, ?F0;
      projs; repeat split; lia.
  - (* EElse *) split_ih IHe1. split_ih IHe2. cbn [compC sizesC]. unfold csizes.
    destruct ic; projs; len; rewrite ?A, ?B, ?C, ?D, ?E, ?F, ?A0, ?B0, ?C0, ?D0, ?E0, ?F0.
    + repeat split; lia.
    + destruct (Nat.eqb (cn (sizesC true None e1) + cn (sizesC true None e2)) 0); len; repeat split; lia.
  - (* ESeq *) split_ih IHe1. split_ih IHe2. cbn [compC sizesC]. unfold sizes.
    projs; len; rewrite ?A, ?B, ?C, ?D, ?E, ?F, ?A0, ?B0, ?C0, ?D0, ?E0, ?F0; projs; repeat split; lia.
  - (* ESide *) split_ih IHe1. split_ih IHe2. cbn [compC sizesC]. unfold sizes.
    projs; len; rewrite ?A, ?B, ?C, ?D, ?E, ?F, ?A0, ?B0, ?C0, ?D0, ?E0, ?F0; projs; repeat split; lia.
  - (* ENested *) split_ih IHe. cbn [compC sizesC]. unfold sizes.
    projs; len; rewrite ?A, ?B, ?C, ?D, ?E, ?F; projs; repeat split; lia.
  - (* EReapply *) split_ih IHe. cbn [compC sizesC]. projs. len. rewrite ?A, ?B, ?C, ?D, ?E, ?F.
    projs. repeat split; lia.
Qed.

Lemma len_inl : forall e ic cont lk pc j aob ajb ob jb jj,
  length (c_inl (compC ic cont lk e pc j aob ajb ob jb jj)) = ci (sizesC ic lk e).
Proof. intros. apply (compC_sizes e). Qed.
Lemma len_ji : forall e ic cont lk pc j aob ajb ob jb jj,
  length (c_ji (compC ic cont lk e pc j aob ajb ob jb jj)) = cji (sizesC ic lk e).
Proof. intros. apply (compC_sizes e). Qed.
Lemma len_arms : forall e ic cont lk pc j aob ajb ob jb jj,
  length (c_arms (compC ic cont lk e pc j aob ajb ob jb jj)) = cao (sizesC ic lk e).
Proof. intros. apply (compC_sizes e). Qed.
Lemma len_ajo : forall e ic cont lk pc j aob ajb ob jb jj,
  length (c_ajo (compC ic cont lk e pc j aob ajb ob jb jj)) = cajo (sizesC ic lk e).
Proof. intros. apply (compC_sizes e). Qed.
Lemma len_iool : forall e ic cont lk pc j aob ajb ob jb jj,
  length (c_iool (compC ic cont lk e pc j aob ajb ob jb jj)) = cio (sizesC ic lk e).
Proof. intros. apply (compC_sizes e). Qed.
Lemma len_ijo : forall e ic cont lk pc j aob ajb ob jb jj,
  length (c_ijo (compC ic cont lk e pc j aob ajb ob jb jj)) = cijo (sizesC ic lk e).
Proof. intros. apply (compC_sizes e). Qed.

(* the plain reading *)
Lemma comp_sizes : forall e cont lk pc j ob jb,
  length (f_inl (comp sym_hash cont lk e pc j ob jb)) = si (sizes lk e) /\
  length (f_ool (comp sym_hash cont lk e pc j ob jb)) = so (sizes lk e) /\
  length (f_ji (comp sym_hash cont lk e pc j ob jb)) = sji (sizes lk e) /\
  length (f_jo (comp sym_hash cont lk e pc j ob jb)) = sjo (sizes lk e).
Proof.
  intros. unfold comp, sizes.
  destruct (compC_sizes e false cont lk pc j 0 0 ob jb 0) as (A & B & _ & _ & E & F).
  cbn [to_frag to_sz f_inl f_ool f_ji f_jo si so sji sjo]. auto.
Qed.

End Sizes.
