(* The end of [parse_trimmed] (composition check against the end, clipping of assumed
   right operands, find_root, validate_tree) and [gtree_of] do not look at token
   indices: related final states give the same [parse_tree]. *)
From Coq Require Import List Arith Bool NArith Lia.
From GV Require Import Base.Result Gen.TokenTypes Gen.Defs Model.Parser Spec.Layout Spec.LayoutSim
  Proofs.C18.StepParts Proofs.C18.Sim.
Import ListNotations.

Definition clip_right (len : nat) (n : pnode) : pnode :=
  match n_right n with
  | Some r => if Nat.leb len r then set_right None n else n
  | None => n
  end.

Definition finish_parse (st : pstate) : res (nat * list pnode) :=
  if forbidden (prev_sec st) S_None (check_for_list st) then Err E_composition else
  if separated st && forbidden_separated (prev_sig st) S_None (check_for_list st) then Err E_composition else
  match group_stack st with
  | _ :: _ => Err E_unclosed_group
  | [] =>
    let ns := map (clip_right (length (nodes st))) (nodes st) in
    match ns with
    | [] => Ok (0, [])
    | n0 :: _ => do root <- find_root (S (S (length ns))) ns 0 n0 0;
                 do _ <- validate_tree ns root; Ok (root, ns)
    end
  end.

Lemma parse_trimmed_decomp toks : toks <> [] ->
  parse_trimmed toks = do st <- run_steps (length toks) 0 toks init_state; finish_parse st.
Proof. destruct toks as [|t r]; [congruence|]. reflexivity. Qed.

Definition tree_of_result (r : res (nat * list pnode)) : option gtree :=
  match r with
  | Ok (root, ns) => match ns with [] => Some GLeaf | _ => gtree_of (2 * length ns + 2) ns (Some root) end
  | _ => None
  end.

Lemma parse_tree_eq toks : parse_tree toks = tree_of_result (parse toks).
Proof. reflexivity. Qed.

Definition strip_result (r : nat * list pnode) : nat * list pnode := (fst r, map strip_tok (snd r)).

Lemma gtree_of_strip ns : forall fuel i, gtree_of fuel (map strip_tok ns) i = gtree_of fuel ns i.
Proof.
  induction fuel as [|f IH]; intros i; [reflexivity|].
  cbn [gtree_of]. destruct i as [k|]; [|reflexivity].
  rewrite nth_error_map. destruct (nth_error ns k) as [n|]; cbn [option_map]; [|reflexivity].
  cbn [strip_tok n_def n_left n_right]. rewrite !IH. reflexivity.
Qed.

Lemma tree_of_result_strip r : tree_of_result (rmap strip_result r) = tree_of_result r.
Proof.
  destruct r as [[root ns]| | |]; try reflexivity.
  cbn [rmap bind tree_of_result strip_result fst snd].
  rewrite map_length, gtree_of_strip. destruct ns; reflexivity.
Qed.

Lemma find_root_strip ns : forall fuel root n count,
  find_root fuel (map strip_tok ns) root (strip_tok n) count = find_root fuel ns root n count.
Proof.
  induction fuel as [|f IH]; intros root n count; [reflexivity|].
  cbn [find_root strip_tok n_parent]. destruct (n_parent n) as [i|]; [|reflexivity].
  rewrite nth_error_map. destruct (nth_error ns i) as [p|]; cbn [option_map]; [|reflexivity].
  rewrite map_length, IH. reflexivity.
Qed.

Lemma visit_child_strip ns visited stack i c :
  visit_child (map strip_tok ns) visited stack i c = visit_child ns visited stack i c.
Proof.
  unfold visit_child. destruct c as [k|]; [|reflexivity].
  rewrite nth_error_map. destruct (nth_error ns k) as [cn|]; reflexivity.
Qed.

Lemma validate_go_strip ns : forall fuel visited stack,
  validate_go fuel (map strip_tok ns) visited stack = validate_go fuel ns visited stack.
Proof.
  induction fuel as [|f IH]; intros visited stack; [reflexivity|].
  cbn [validate_go]. destruct stack as [|i rest]; [reflexivity|].
  rewrite nth_error_map.
  destruct (nth_error ns i) as [n|]; cbn [option_map strip_tok n_left n_right].
  - rewrite visit_child_strip.
    destruct (visit_child ns visited rest i (n_left n)) as [[v1 st1]| | |]; cbn [bind]; try reflexivity.
    rewrite visit_child_strip.
    destruct (visit_child ns v1 st1 i (n_right n)) as [[v2 st2]| | |]; cbn [bind]; try reflexivity.
    apply IH.
  - cbn [visit_child bind]. apply IH.
Qed.

Lemma unvisited_ok_strip ns : forall visited,
  unvisited_ok (map strip_tok ns) visited = unvisited_ok ns visited.
Proof.
  induction ns as [|n r IH]; intros visited; [reflexivity|].
  cbn [map unvisited_ok]. destruct visited as [|v vr]; [reflexivity|].
  rewrite IH. reflexivity.
Qed.

Lemma validate_tree_strip ns root : validate_tree (map strip_tok ns) root = validate_tree ns root.
Proof.
  unfold validate_tree. rewrite map_map, map_length.
  destruct (upd _ root _) as [v0|]; [|reflexivity].
  rewrite validate_go_strip.
  destruct (validate_go _ ns v0 [root]) as [v| | |]; cbn [bind]; try reflexivity.
  rewrite unvisited_ok_strip. reflexivity.
Qed.

Lemma clip_right_strip len n : clip_right len (strip_tok n) = strip_tok (clip_right len n).
Proof.
  unfold clip_right. cbn [strip_tok n_right].
  destruct (n_right n) as [r|]; [|reflexivity]. destruct (Nat.leb len r); reflexivity.
Qed.

Lemma finish_parse_erase st : finish_parse (erase st) = rmap strip_result (finish_parse st).
Proof.
  unfold finish_parse.
  change (prev_sec (erase st)) with (norm_sec (prev_sec st)). rewrite forbidden_norm.
  change (check_for_list (erase st)) with (check_for_list st).
  change (separated (erase st)) with (separated st).
  change (prev_sig (erase st)) with (prev_sig st).
  change (group_stack (erase st)) with (group_stack st).
  change (nodes (erase st)) with (map strip_tok (nodes st)).
  destruct (forbidden _ _ _); [reflexivity|].
  destruct (_ && _); [reflexivity|].
  destruct (group_stack st); [|reflexivity].
  rewrite map_length, map_map.
  rewrite (map_ext _ (fun n => strip_tok (clip_right (length (nodes st)) n)))
    by (intros a; apply clip_right_strip).
  rewrite <- (map_map (clip_right (length (nodes st))) strip_tok).
  set (ns := map (clip_right (length (nodes st))) (nodes st)).
  destruct ns as [|n0 r]; [reflexivity|].
  change (map strip_tok (n0 :: r)) with (strip_tok n0 :: map strip_tok r) at 1.
  cbv beta iota.
  change (strip_tok n0 :: map strip_tok r) with (map strip_tok (n0 :: r)).
  rewrite map_length, find_root_strip.
  destruct (find_root _ (n0 :: r) 0 n0 0) as [root| | |]; cbn [bind rmap]; try reflexivity.
  rewrite validate_tree_strip.
  destruct (validate_tree (n0 :: r) root) as [u| | |]; reflexivity.
Qed.

(* related outcomes of the main loop give the same tree *)
Theorem finish_congr (r r' : res pstate) :
  res_eq_mod_tok r r' ->
  tree_of_result (bind r finish_parse) = tree_of_result (bind r' finish_parse).
Proof.
  unfold res_eq_mod_tok. intros H.
  destruct r as [a| | |], r' as [a'| | |]; cbn [rmap bind] in *; try discriminate H; try reflexivity.
  apply Ok_inj in H.
  rewrite <- (tree_of_result_strip (finish_parse a)), <- (tree_of_result_strip (finish_parse a')).
  rewrite <- !finish_parse_erase, H. reflexivity.
Qed.

Lemma definition_eqb_refl d : definition_eqb d d = true.
Proof. unfold definition_eqb. apply N.eqb_refl. Qed.

Lemma gtree_eqb_refl t : gtree_eqb t t = true.
Proof.
  induction t as [|d l IHl r IHr]; [reflexivity|].
  cbn [gtree_eqb]. rewrite definition_eqb_refl, IHl, IHr. reflexivity.
Qed.

Lemma opt_gtree_eqb_refl a : opt_gtree_eqb a a = true.
Proof. destruct a; [apply gtree_eqb_refl|reflexivity]. Qed.
