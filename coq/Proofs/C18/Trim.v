(* trim_tokens: whitespace and blank-line separators at either end of the token list
   are cut before parsing; a gap that has a kept token on each side is untouched. *)
From Coq Require Import List Arith Bool NArith Lia.
From GV Require Import Base.Result Gen.TokenTypes Gen.Defs Model.Parser Spec.Layout Spec.LayoutSim.
Import ListNotations.

Definition trim_back (l : list token_type) : list token_type := rev (drop_while_trim (rev l)).

Lemma trim_tokens_snd l : snd (trim_tokens l) = trim_back (drop_while_trim l).
Proof. reflexivity. Qed.

Lemma drop_while_trim_nosig l : has_sig l = false -> forall m, drop_while_trim (l ++ m) = drop_while_trim m.
Proof.
  induction l as [|t r IH]; intros H m; [reflexivity|].
  cbn [has_sig existsb] in H. apply orb_false_iff in H. destruct H as [Ht Hr].
  apply negb_false_iff in Ht. cbn [app drop_while_trim]. rewrite Ht. apply IH, Hr.
Qed.

Lemma drop_while_trim_nosig_nil l : has_sig l = false -> drop_while_trim l = [].
Proof. intros H. rewrite <- (app_nil_r l). rewrite drop_while_trim_nosig by exact H. reflexivity. Qed.

Lemma drop_while_trim_sig l : has_sig l = true -> forall m, drop_while_trim (l ++ m) = drop_while_trim l ++ m.
Proof.
  induction l as [|t r IH]; intros H m; [discriminate H|].
  cbn [app drop_while_trim]. destruct (is_trim t) eqn:Ht; [|reflexivity].
  apply IH. cbn [has_sig existsb] in H. rewrite Ht in H. exact H.
Qed.

Lemma drop_while_trim_sig_nonnil l : has_sig l = true -> drop_while_trim l <> [].
Proof.
  induction l as [|t r IH]; intros H; [discriminate H|].
  cbn [drop_while_trim]. destruct (is_trim t) eqn:Ht; [|discriminate].
  apply IH. cbn [has_sig existsb] in H. rewrite Ht in H. exact H.
Qed.

Lemma has_sig_drop l : has_sig (drop_while_trim l) = has_sig l.
Proof.
  induction l as [|t r IH]; [reflexivity|].
  cbn [drop_while_trim]. destruct (is_trim t) eqn:Ht; [|reflexivity].
  rewrite IH. cbn [has_sig existsb]. rewrite Ht. reflexivity.
Qed.

Lemma has_sig_app a b : has_sig (a ++ b) = has_sig a || has_sig b.
Proof. apply existsb_app. Qed.

Lemma has_sig_rev l : has_sig (rev l) = has_sig l.
Proof.
  induction l as [|t r IH]; [reflexivity|].
  cbn [rev]. rewrite has_sig_app, IH. cbn [has_sig existsb]. rewrite orb_false_r. apply orb_comm.
Qed.

Lemma trim_back_sig x l : has_sig l = true -> trim_back (x ++ l) = x ++ trim_back l.
Proof.
  intros H. unfold trim_back. rewrite rev_app_distr, drop_while_trim_sig by (rewrite has_sig_rev; exact H).
  rewrite rev_app_distr, rev_involutive. reflexivity.
Qed.

Lemma trim_back_nosig x l : has_sig l = false -> trim_back (x ++ l) = trim_back x.
Proof.
  intros H. unfold trim_back. rewrite rev_app_distr, drop_while_trim_nosig by (rewrite has_sig_rev; exact H).
  reflexivity.
Qed.

(* a middle part between two kept tokens survives trimming *)
Lemma trim_middle pre mid post : has_sig pre = true -> has_sig post = true ->
  snd (trim_tokens (pre ++ mid ++ post)) = drop_while_trim pre ++ mid ++ trim_back post.
Proof.
  intros Hp Hq. rewrite trim_tokens_snd, drop_while_trim_sig by exact Hp.
  rewrite app_assoc, trim_back_sig by exact Hq. rewrite <- app_assoc. reflexivity.
Qed.

(* leading / trailing whitespace and blank-line separators are ignored *)
Theorem parse_trim_ends a s b : has_sig a = false -> has_sig b = false ->
  parse (a ++ s ++ b) = parse s.
Proof.
  intros Ha Hb. unfold parse. rewrite !trim_tokens_snd. f_equal.
  rewrite drop_while_trim_nosig by exact Ha.
  destruct (has_sig s) eqn:Hs.
  - rewrite drop_while_trim_sig by exact Hs. apply trim_back_nosig, Hb.
  - rewrite drop_while_trim_nosig by exact Hs. rewrite (drop_while_trim_nosig_nil b Hb), (drop_while_trim_nosig_nil s Hs).
    reflexivity.
Qed.

Corollary parse_tree_trim_ends a s b : has_sig a = false -> has_sig b = false ->
  parse_tree (a ++ s ++ b) = parse_tree s.
Proof. intros Ha Hb. unfold parse_tree. rewrite parse_trim_ends by assumption. reflexivity. Qed.

Corollary parse_tree_leading_ws s : parse_tree (TT_Whitespace :: s) = parse_tree s.
Proof.
  pose proof (parse_tree_trim_ends [TT_Whitespace] s [] eq_refl eq_refl) as H.
  rewrite app_nil_r in H. exact H.
Qed.

Corollary parse_tree_trailing_ws s : parse_tree (s ++ [TT_Whitespace]) = parse_tree s.
Proof. exact (parse_tree_trim_ends [] s [TT_Whitespace] eq_refl eq_refl). Qed.
