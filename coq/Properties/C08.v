(* C08  Undefined operand combinations yield unit, after offering them to the host.
   Only statements, [exact] and [Print Assumptions] live here.

   [step] (Model/OpDispatch.v) is one runtime step at the level of operand
   types, driven by the tables regenerated from /repo on every run
   (Gen/Exec.v, Gen/Dispatch.v); [defined] / [operands] (Spec/Defined.v) are
   pinned by hand.  The domain is finite -- 56 instructions x 101 x 102
   operand abstractions x 3 host modes -- so the proofs are [vm_compute] over
   [forallb] lifted with enumeration-completeness lemmas (Proofs/C08). *)
From Coq Require Import NArith List Bool.
From GV Require Import Gen.Instr Gen.Exec Gen.Dispatch Model.OpDispatch Spec.Defined
  Proofs.C08.Enum Proofs.C08.Statement Proofs.C08.Matrix.
Import ListNotations.

(* for every operation, every combination of operand types the language defines
   no result for (one operand for unary operations), every host mode: the step
   is exactly the outcome C08 describes *)
Theorem C08_undefined_defers_then_unit_finite : forall i l r h,
  wf_operand l = true -> wf_right r = true -> undefined_case i l r = true ->
  step i l r h = c08_expected i l r h.
Proof. exact undefined_defers_then_unit. Qed.
Print Assumptions C08_undefined_defers_then_unit_finite.

(* the same clause by clause: Ok; exactly one defer_op call with the operation
   and both operand types / addresses in source order; every operand consumed;
   on decline (or no host) exactly one value, unit, is pushed; on accept nothing
   else is pushed, so the host's result is what is left *)
Theorem C08_clauses_finite : forall i l r h,
  wf_operand l = true -> wf_right r = true -> undefined_case i l r = true ->
  let o := step i l r h in
  res o = ROk /\ data_dep o = false
  /\ calls o = [expected_call i l r]
  /\ pops o = operand_count r /\ jumps o = false
  /\ (h <> HAccept -> pushes o = 1 /\ top_is o = TopUnit)
  /\ (h = HAccept -> pushes o = 0 /\ top_is o = TopHost).
Proof. exact undefined_defers_then_unit_clauses. Qed.
Print Assumptions C08_clauses_finite.

(* converse: a defined combination is never offered to the host, so [defined]
   is exactly the set of combinations the code does not defer *)
Theorem C08_defined_never_defers_finite : forall i l r h,
  wf_operand l = true -> wf_right r = true -> defined_case i l r = true ->
  calls (step i l r h) = [].
Proof. exact defined_never_defers. Qed.
Print Assumptions C08_defined_never_defers_finite.

(* the 'unsupported types' error code of the look-up helpers reaches no caller
   of an operation: every listed arm only calls a helper on types the helper
   lists, or tests for the code *)
Theorem C08_unsupported_never_escapes_finite : forall i l r h,
  wf_operand l = true -> wf_right r = true -> well_shaped i r = true ->
  res (step i l r h) <> RErrUnsupported /\ res (step i l r h) <> ROkOrUnsupported.
Proof. exact unsupported_never_escapes. Qed.
Print Assumptions C08_unsupported_never_escapes_finite.

(* the model dispatches exactly the operations the spec lists, same arity *)
Theorem C08_operations_covered : forall i, arity i = operands i.
Proof. exact model_arity_is_spec. Qed.
Print Assumptions C08_operations_covered.

(* non-vacuity: more than ten thousand (operation, operands) cases of the matrix
   are undefined, and the formerly defective ones are among them *)
Example C08_ex_domain : Nat.leb 10000 (count_matrix undefined_case) = true.
Proof. exact undefined_cases_exist. Qed.

Example C08_ex_cases :
  undefined_case I_Add (plain T_Number) (Some (plain T_Symbol)) = true
  /\ undefined_case I_Access (plain T_Range) (Some (plain T_Symbol)) = true
  /\ undefined_case I_MakeRange (plain T_Number) (Some (plain T_Unit)) = true
  /\ undefined_case I_ApplyType (plain T_Number) (Some {| o_ty := T_Type; o_sub := T_Pair |}) = true
  /\ undefined_case I_Opposite (plain T_CharList) None = true
  /\ undefined_case I_EmptyApply (plain T_Number) None = true
  /\ step I_MakeRange (plain T_Number) (Some (plain T_Unit)) HDecline
     = {| res := ROk; data_dep := false;
          calls := [{| c_op := I_MakeRange; c_lty := T_Number; c_la := AtLeft; c_rty := T_Unit; c_ra := AtRight |}];
          pops := 2; pushes := 1; top_is := TopUnit; jumps := false; frames := 0 |}
  /\ step I_ApplyType (plain T_Number) (Some {| o_ty := T_Type; o_sub := T_Pair |}) HAccept
     = {| res := ROk; data_dep := false;
          calls := [{| c_op := I_ApplyType; c_lty := T_Number; c_la := AtLeft; c_rty := T_Pair; c_ra := AtRight |}];
          pops := 2; pushes := 0; top_is := TopHost; jumps := false; frames := 0 |}.
Proof. vm_compute. repeat split; reflexivity. Qed.
