(* Basic facts about the runtime model used by the C01/C10/C17 proofs:
   code located at an offset, sequences of steps, and one lemma per shape of
   instruction step. *)
From Coq Require Import ZArith NArith List Bool Arith Lia.
From GV Require Import Base.Result Base.Host Gen.Instr Gen.Exec Model.Num Model.Value Model.Machine.
Import ListNotations.

(* ---------------------------------------------------------------- code_at *)
Definition code_at {A} (C : list A) (pc : nat) (l : list A) : Prop :=
  forall i x, nth_error l i = Some x -> nth_error C (pc + i) = Some x.

Lemma code_at_nil : forall A (C : list A) pc, code_at C pc [].
Proof. intros A C pc i x H. destruct i; discriminate. Qed.

Lemma code_at_app : forall A (C : list A) pc l1 l2,
  code_at C pc (l1 ++ l2) <-> code_at C pc l1 /\ code_at C (pc + length l1) l2.
Proof.
  intros A C pc l1 l2. split.
  - intros H. split.
    + intros i x Hi. apply H. rewrite nth_error_app1; auto.
      apply nth_error_Some. congruence.
    + intros i x Hi. replace (pc + length l1 + i) with (pc + (length l1 + i)) by lia.
      apply H. rewrite nth_error_app2 by lia.
      replace (length l1 + i - length l1) with i by lia. exact Hi.
  - intros [H1 H2] i x Hi.
    destruct (Nat.lt_ge_cases i (length l1)) as [Hlt | Hge].
    + rewrite nth_error_app1 in Hi by exact Hlt. apply H1; exact Hi.
    + rewrite nth_error_app2 in Hi by exact Hge.
      replace (pc + i) with (pc + length l1 + (i - length l1)) by lia.
      apply H2; exact Hi.
Qed.

Lemma code_at_cons : forall A (C : list A) pc x l,
  code_at C pc (x :: l) <-> nth_error C pc = Some x /\ code_at C (S pc) l.
Proof.
  intros A C pc x l. change (x :: l) with ([x] ++ l). rewrite code_at_app. cbn [length].
  replace (pc + 1) with (S pc) by lia. split; intros [H1 H2]; split; auto.
  - specialize (H1 0 x eq_refl). rewrite Nat.add_0_r in H1. exact H1.
  - intros i y Hi. destruct i; [|destruct i; discriminate]. cbn in Hi. inversion Hi; subst.
    rewrite Nat.add_0_r. exact H1.
Qed.

Lemma code_at_one : forall A (C : list A) pc x, code_at C pc [x] <-> nth_error C pc = Some x.
Proof.
  intros. rewrite code_at_cons. split; [intros [H _]; exact H | intros H; split; [exact H | apply code_at_nil]].
Qed.

Lemma code_at_self : forall A (l1 l l2 : list A), code_at (l1 ++ l ++ l2) (length l1) l.
Proof.
  intros A l1 l l2 i x Hi. rewrite nth_error_app2 by lia.
  replace (length l1 + i - length l1) with i by lia.
  rewrite nth_error_app1; auto. apply nth_error_Some. congruence.
Qed.

Section Facts.
Variable hstate : Type.
Variable host : hstate -> host_call -> hstate * option val.
Notation state := (state hstate).
Notation step := (step hstate host).

(* ------------------------------------------------------------------- star *)
Inductive star (p : program) : state -> state -> Prop :=
| star_refl : forall s, star p s s
| star_step : forall s s1 s2, step p s = SRun hstate s1 -> star p s1 s2 -> star p s s2.

Lemma star_trans : forall p a b c, star p a b -> star p b c -> star p a c.
Proof. intros p a b c H. induction H; intros; auto. eapply star_step; eauto. Qed.

Lemma star_one : forall p a b, step p a = SRun hstate b -> star p a b.
Proof. intros. eapply star_step; eauto. apply star_refl. Qed.

(* the run function follows a star and then the ending step *)
Lemma run_from_star : forall p a b, star p a b ->
  forall s' , step p b = SEnd hstate s' ->
  exists fuel, forall extra count, exists steps, run_from hstate host (fuel + extra) count p a = REnd hstate s' steps.
Proof.
  intros p a b H. induction H as [s | s s1 s2 Hs Hst IH]; intros s' He.
  - exists 1. intros extra count. cbn [plus run_from]. rewrite He. eauto.
  - destruct (IH s' He) as [fuel Hf]. exists (S fuel). intros extra count.
    cbn [plus run_from]. rewrite Hs. apply Hf.
Qed.

(* the host declines defer_op and is not changed by the offer *)
Definition declines_defer : Prop := forall h i l r, host h (HDefer i l r) = (h, None).

End Facts.
